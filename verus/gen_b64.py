#!/usr/bin/env python3
"""Splice the text of /repo's base64 leaf functions into verus/b64_blocks.tmpl.rs (run on every check).

What the splice does to each function, and nothing else:
  * the function is located by `fn <name>(` in paseto-core/src/base64.rs and its text is taken up to the matching brace;
  * attribute lines and doc comments directly above it are not copied (#[inline(always)], #[allow(clippy::..)]);
  * the return type `-> T` is rewritten to `-> (<name>: T)` so the contract can name the result;
  * the contract clauses and a ghost `proof { .. }` block (lemma calls only, erased at compile time) are inserted
    between the signature and the first statement.
The executable statements are byte-for-byte those of the repository; the generated file records their sha256.
Exit 2 (undecided, never an alarm) if a function cannot be located."""
import hashlib, re, sys
from pathlib import Path

def extract(src: str, name: str):
    m = re.search(r"^[ \t]*(pub(\([a-z]+\))? )?fn " + re.escape(name) + r"\s*\(", src, re.M)
    if not m:
        return None
    i = src.index("{", m.end())
    depth, j = 0, i
    while True:
        c = src[j]
        if c == "{": depth += 1
        elif c == "}":
            depth -= 1
            if depth == 0: break
        j += 1
    return src[m.start():i], src[i + 1:j]

def main():
    repo, tmpl, out = Path(sys.argv[1]), Path(sys.argv[2]), Path(sys.argv[3])
    src = (repo / "paseto-core/src/base64.rs").read_text()
    text = tmpl.read_text()
    pat = re.compile(r"@@FN (\w+)\n@@RET ?(\w*)\n@@CONTRACT\n(.*?)@@PROOF\n(.*?)@@END\n", re.S)
    def sub(m):
        name, ret, contract, proof = m.groups()
        got = extract(src, name)
        if got is None:
            print(f"gen_b64: lost anchor: fn {name}", file=sys.stderr); sys.exit(2)
        sig, body = got
        sig = sig.rstrip()
        sig = re.sub(r"<'a>|'a ", "", sig)
        if ret:
            sig = re.sub(r"->\s*([^\s{]+)\s*$", lambda r: f"-> ({ret}: {r.group(1)})", sig)
        h = hashlib.sha256(body.encode()).hexdigest()
        return f"// repo text sha256(body)={h}\n{sig}\n{contract}{{\n{proof}{body}}}\n"
    gen, n = pat.subn(sub, text)
    if n != 5:
        print(f"gen_b64: template has {n} splice points, expected 5", file=sys.stderr); sys.exit(2)
    out.write_text(gen)

main()
