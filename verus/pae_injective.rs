// Verus lemma (spec level): the PAE of the PASETO spec is injective on piece lists whose count and lengths fit 64 bits.
// Together with unit u1_pae ("the real pre_auth_encode writes exactly pae(pieces), a multi-fragment piece being its concatenation")
// this gives: bytes can never be shifted between header, message, footer and assertion without changing the MAC input (C15, C02).
use vstd::prelude::*;
verus! {

pub open spec fn byte(n: u64, i: u64) -> u8 { ((n >> (8 * i)) & 0xff) as u8 }
pub open spec fn le64(n: nat) -> Seq<u8> {
    let m = n as u64;
    seq![byte(m, 0), byte(m, 1), byte(m, 2), byte(m, 3), byte(m, 4), byte(m, 5), byte(m, 6), byte(m, 7)]
}
pub open spec fn body(ps: Seq<Seq<u8>>) -> Seq<u8> decreases ps.len() {
    if ps.len() == 0 { Seq::empty() } else { le64(ps[0].len()) + ps[0] + body(ps.skip(1)) }
}
pub open spec fn pae(ps: Seq<Seq<u8>>) -> Seq<u8> { le64(ps.len()) + body(ps) }

pub open spec fn small(ps: Seq<Seq<u8>>) -> bool {
    ps.len() < 0x1_0000_0000_0000_0000 && forall|i: int| 0 <= i < ps.len() ==> #[trigger] ps[i].len() < 0x1_0000_0000_0000_0000
}

proof fn le64_inj(a: nat, b: nat)
    requires a < 0x1_0000_0000_0000_0000, b < 0x1_0000_0000_0000_0000, le64(a) == le64(b),
    ensures a == b,
{
    let x = a as u64; let y = b as u64;
    let p = le64(a); let q = le64(b);
    assert(p[0] == q[0] && p[1] == q[1] && p[2] == q[2] && p[3] == q[3] && p[4] == q[4] && p[5] == q[5] && p[6] == q[6] && p[7] == q[7]);
    assert(x == y) by (bit_vector)
        requires
            ((x >> 0) & 0xff) as u8 == ((y >> 0) & 0xff) as u8, ((x >> 8) & 0xff) as u8 == ((y >> 8) & 0xff) as u8,
            ((x >> 16) & 0xff) as u8 == ((y >> 16) & 0xff) as u8, ((x >> 24) & 0xff) as u8 == ((y >> 24) & 0xff) as u8,
            ((x >> 32) & 0xff) as u8 == ((y >> 32) & 0xff) as u8, ((x >> 40) & 0xff) as u8 == ((y >> 40) & 0xff) as u8,
            ((x >> 48) & 0xff) as u8 == ((y >> 48) & 0xff) as u8, ((x >> 56) & 0xff) as u8 == ((y >> 56) & 0xff) as u8;
}

proof fn body_inj(a: Seq<Seq<u8>>, b: Seq<Seq<u8>>)
    requires small(a), small(b), a.len() == b.len(), body(a) == body(b),
    ensures a == b,
    decreases a.len(),
{
    if a.len() == 0 {
        assert(a =~= b);
    } else {
        let ha = le64(a[0].len()); let hb = le64(b[0].len());
        let ra = body(a.skip(1)); let rb = body(b.skip(1));
        assert(body(a) == ha + a[0] + ra);
        assert(body(b) == hb + b[0] + rb);
        assert(ha =~= body(a).subrange(0, 8));
        assert(hb =~= body(b).subrange(0, 8));
        le64_inj(a[0].len(), b[0].len());
        let n = a[0].len() as int;
        assert(a[0] =~= body(a).subrange(8, 8 + n));
        assert(b[0] =~= body(b).subrange(8, 8 + n));
        assert(ra =~= body(a).subrange(8 + n, body(a).len() as int));
        assert(rb =~= body(b).subrange(8 + n, body(b).len() as int));
        assert(small(a.skip(1))) by { assert forall|i: int| 0 <= i < a.skip(1).len() implies #[trigger] a.skip(1)[i].len() < 0x1_0000_0000_0000_0000 by { assert(a.skip(1)[i] == a[i + 1]); } }
        assert(small(b.skip(1))) by { assert forall|i: int| 0 <= i < b.skip(1).len() implies #[trigger] b.skip(1)[i].len() < 0x1_0000_0000_0000_0000 by { assert(b.skip(1)[i] == b[i + 1]); } }
        body_inj(a.skip(1), b.skip(1));
        assert(a =~= seq![a[0]] + a.skip(1));
        assert(b =~= seq![b[0]] + b.skip(1));
    }
}

pub proof fn pae_injective(a: Seq<Seq<u8>>, b: Seq<Seq<u8>>)
    requires small(a), small(b), pae(a) == pae(b),
    ensures a == b,
{
    assert(le64(a.len()) =~= pae(a).subrange(0, 8));
    assert(le64(b.len()) =~= pae(b).subrange(0, 8));
    le64_inj(a.len(), b.len());
    assert(body(a) =~= pae(a).subrange(8, pae(a).len() as int));
    assert(body(b) =~= pae(b).subrange(8, pae(b).len() as int));
    body_inj(a, b);
}

} // verus!
fn main() {}
