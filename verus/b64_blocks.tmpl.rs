// GENERATED on every run by verus/gen_b64.py from /repo/paseto-core/src/base64.rs — do not edit the generated copy.
// Template: spec functions, bit-vector lemmas and the contracts; the five function bodies marked @@FN name@@ are the text of
// the repository's functions, spliced in verbatim (see gen_b64.py for exactly what the splice changes).
use vstd::prelude::*;
verus! {

// ---------- specification: RFC 4648 section 5 alphabet ----------
pub open spec fn dec6(c: u8) -> int {
    if 65 <= c <= 90 { c as int - 65 }
    else if 97 <= c <= 122 { c as int - 71 }
    else if 48 <= c <= 57 { c as int + 4 }
    else if c == 45 { 62 }
    else if c == 95 { 63 }
    else { -1 }
}

pub open spec fn enc6(v: int) -> int {
    if 0 <= v <= 25 { v + 65 }
    else if v <= 51 { v + 71 }
    else if v <= 61 { v - 4 }
    else if v == 62 { 45 }
    else { 95 }
}

// the 24-bit group, from three octets and from four sextets
pub open spec fn group_of_bytes(b0: u8, b1: u8, b2: u8) -> u32 {
    ((b0 as u32) << 16) | ((b1 as u32) << 8) | (b2 as u32)
}
pub open spec fn group_of_sextets(c0: int, c1: int, c2: int, c3: int) -> u32 {
    (((c0 as u32) << 18) | ((c1 as u32) << 12) | ((c2 as u32) << 6) | (c3 as u32)) as u32
}

// ---------- spec-level lemmas (all inputs) ----------
// [C09] the alphabet is a bijection between 0..64 and the 64 valid characters
proof fn alphabet_bijection()
    ensures
        forall|v: int| 0 <= v < 64 ==> 0 <= #[trigger] enc6(v) < 256 && dec6(enc6(v) as u8) == v,
        forall|c: u8| #[trigger] dec6(c) >= 0 ==> dec6(c) < 64 && enc6(dec6(c)) == c as int,
        forall|c: u8| -1 <= #[trigger] dec6(c) < 64,
{
}

proof fn range_term(s: i16, lo: i16, hi: i16, k: i16)
    requires 0 <= s < 256, 0 < lo <= hi < 256, -128 <= k <= 128,
    ensures
        (((((lo - 1) as i16 - s) as i16) & ((s - (hi + 1) as i16) as i16)) >> 8) & ((s + k) as i16)
            == (if lo <= s <= hi { (s + k) as i16 } else { 0i16 }),
{
    assert((((((lo - 1) as i16 - s) as i16) & ((s - (hi + 1) as i16) as i16)) >> 8) & ((s + k) as i16)
            == (if lo <= s <= hi { (s + k) as i16 } else { 0i16 })) by (bit_vector)
        requires 0 <= s < 256, 0 < lo <= hi < 256, -128 <= k <= 128;
}

proof fn const_term(s: i16, c: i16, m: i16)
    requires 0 <= s < 256, 0 < c < 255, 0 <= m <= 64,
    ensures
        (((((c - 1) as i16 - s) as i16) & ((s - (c + 1) as i16) as i16)) >> 8) & m
            == (if s == c { m } else { 0i16 }),
{
    assert((((((c - 1) as i16 - s) as i16) & ((s - (c + 1) as i16) as i16)) >> 8) & m
            == (if s == c { m } else { 0i16 })) by (bit_vector)
        requires 0 <= s < 256, 0 < c < 255, 0 <= m <= 64;
}

proof fn enc_term(s: i16, t: i16, m: i16)
    requires 0 <= s < 64, 0 <= t < 64, -128 <= m <= 128,
    ensures (((t - s) as i16) >> 8) & m == (if s > t { m } else { 0i16 }),
{
    assert((((t - s) as i16) >> 8) & m == (if s > t { m } else { 0i16 })) by (bit_vector)
        requires 0 <= s < 64, 0 <= t < 64, -128 <= m <= 128;
}

proof fn err_flag(c0: i16, c1: i16, c2: i16, c3: i16)
    requires -1 <= c0 < 64, -1 <= c1 < 64, -1 <= c2 < 64, -1 <= c3 < 64,
    ensures ((c0 | c1 | c2 | c3) >> 8) & 1 == (if c0 < 0 || c1 < 0 || c2 < 0 || c3 < 0 { 1i16 } else { 0i16 }),
{
    assert(((c0 | c1 | c2 | c3) >> 8) & 1 == (if c0 < 0 || c1 < 0 || c2 < 0 || c3 < 0 { 1i16 } else { 0i16 })) by (bit_vector)
        requires -1 <= c0 < 64, -1 <= c1 < 64, -1 <= c2 < 64, -1 <= c3 < 64;
}

proof fn pack_bytes(c0: i16, c1: i16, c2: i16, c3: i16)
    requires 0 <= c0 < 64, 0 <= c1 < 64, 0 <= c2 < 64, 0 <= c3 < 64,
    ensures
        ((((((c0 << 2) | (c1 >> 4)) as u8) as u32) << 16) | (((((c1 << 4) | (c2 >> 2)) as u8) as u32) << 8)
            | ((((c2 << 6) | c3) as u8) as u32))
            == (((c0 as u32) << 18) | ((c1 as u32) << 12) | ((c2 as u32) << 6) | (c3 as u32)),
{
    assert(((((((c0 << 2) | (c1 >> 4)) as u8) as u32) << 16) | (((((c1 << 4) | (c2 >> 2)) as u8) as u32) << 8)
            | ((((c2 << 6) | c3) as u8) as u32))
            == (((c0 as u32) << 18) | ((c1 as u32) << 12) | ((c2 as u32) << 6) | (c3 as u32))) by (bit_vector)
        requires 0 <= c0 < 64, 0 <= c1 < 64, 0 <= c2 < 64, 0 <= c3 < 64;
}

proof fn unpack_bytes(b0: i16, b1: i16, b2: i16)
    requires 0 <= b0 < 256, 0 <= b1 < 256, 0 <= b2 < 256,
    ensures
        0 <= (b0 >> 2) < 64, 0 <= (((b0 << 4) | (b1 >> 4)) & 63) < 64, 0 <= (((b1 << 2) | (b2 >> 6)) & 63) < 64, 0 <= (b2 & 63) < 64,
        ((((b0 >> 2) as u32) << 18) | (((((b0 << 4) | (b1 >> 4)) & 63) as u32) << 12) | (((((b1 << 2) | (b2 >> 6)) & 63) as u32) << 6)
            | ((b2 & 63) as u32))
            == (((b0 as u32) << 16) | ((b1 as u32) << 8) | (b2 as u32)),
{
    assert(0 <= (b0 >> 2) < 64 && 0 <= (((b0 << 4) | (b1 >> 4)) & 63) < 64 && 0 <= (((b1 << 2) | (b2 >> 6)) & 63) < 64 && 0 <= (b2 & 63) < 64
        && ((((b0 >> 2) as u32) << 18) | (((((b0 << 4) | (b1 >> 4)) & 63) as u32) << 12) | (((((b1 << 2) | (b2 >> 6)) & 63) as u32) << 6)
            | ((b2 & 63) as u32))
            == (((b0 as u32) << 16) | ((b1 as u32) << 8) | (b2 as u32))) by (bit_vector)
        requires 0 <= b0 < 256, 0 <= b1 < 256, 0 <= b2 < 256;
}

// ---------- the repository's functions, under contract ----------

// [C09][C04] decode_6bits is exactly the alphabet's inverse, -1 on every other byte; no overflow
@@FN decode_6bits
@@RET ret
@@CONTRACT
    ensures ret as int == dec6(src),
@@PROOF
    proof {
        range_term(src as i16, 65, 90, (-64) as i16);
        range_term(src as i16, 97, 122, (-70) as i16);
        range_term(src as i16, 48, 57, 5);
        const_term(src as i16, 45, 63);
        const_term(src as i16, 95, 64);
    }
@@END

// [C09][C04] encode_6bits is exactly the alphabet; no overflow
@@FN encode_6bits
@@RET r
@@CONTRACT
    requires 0 <= src < 64,
    ensures r as int == enc6(src as int),
@@PROOF
    proof {
        enc_term(src, 25, 6);
        enc_term(src, 51, (-75) as i16);
        enc_term(src, 61, (-13) as i16);
        enc_term(src, 62, 49);
    }
@@END

// [C09][C04] decode_3bytes: error flag is 1 exactly when a character is outside the alphabet, otherwise the three octets are
// the 24-bit group of the four sextets
@@FN decode_3bytes
@@RET e
@@CONTRACT
    ensures
        e == 0 || e == 1,
        (e == 0) <==> (dec6(src[0]) >= 0 && dec6(src[1]) >= 0 && dec6(src[2]) >= 0 && dec6(src[3]) >= 0),
        e == 0 ==> group_of_bytes(final(dst)[0], final(dst)[1], final(dst)[2])
            == group_of_sextets(dec6(src[0]), dec6(src[1]), dec6(src[2]), dec6(src[3])),
@@PROOF
    proof {
        alphabet_bijection();
        err_flag(dec6(src[0]) as i16, dec6(src[1]) as i16, dec6(src[2]) as i16, dec6(src[3]) as i16);
        if dec6(src[0]) >= 0 && dec6(src[1]) >= 0 && dec6(src[2]) >= 0 && dec6(src[3]) >= 0 {
            pack_bytes(dec6(src[0]) as i16, dec6(src[1]) as i16, dec6(src[2]) as i16, dec6(src[3]) as i16);
        }
    }
@@END

// [C09][C04] encode_3bytes: four alphabet characters whose sextets are the 24-bit group of the three octets
@@FN encode_3bytes
@@RET
@@CONTRACT
    ensures
        dec6(final(dst)[0]) >= 0 && dec6(final(dst)[1]) >= 0 && dec6(final(dst)[2]) >= 0 && dec6(final(dst)[3]) >= 0,
        group_of_sextets(dec6(final(dst)[0]), dec6(final(dst)[1]), dec6(final(dst)[2]), dec6(final(dst)[3]))
            == group_of_bytes(src[0], src[1], src[2]),
@@PROOF
    proof {
        alphabet_bijection();
        unpack_bytes(src[0] as i16, src[1] as i16, src[2] as i16);
    }
@@END

// [C09][C04] decoded_len == floor(3n/4) for every usize, no overflow
@@FN decoded_len
@@RET r
@@CONTRACT
    ensures r as int == (3 * input_len as int) / 4,
@@PROOF
@@END

// [C09] block round trip, from the two contracts alone: decoding what encode_3bytes wrote gives the octets back, no error
fn block_roundtrip(src: &[u8; 3]) -> (out: [u8; 3])
    ensures out[0] == src[0], out[1] == src[1], out[2] == src[2],
{
    let mut chars = [0u8; 4];
    let mut out = [0u8; 3];
    encode_3bytes(src, &mut chars);
    let e = decode_3bytes(&chars, &mut out);
    proof {
        group_of_bytes_injective(out[0], out[1], out[2], src[0], src[1], src[2]);
    }
    assert(e == 0);
    out
}

proof fn group_of_bytes_injective(a0: u8, a1: u8, a2: u8, b0: u8, b1: u8, b2: u8)
    requires group_of_bytes(a0, a1, a2) == group_of_bytes(b0, b1, b2),
    ensures a0 == b0, a1 == b1, a2 == b2,
{
    assert((((a0 as u32) << 16) | ((a1 as u32) << 8) | (a2 as u32)) == (((b0 as u32) << 16) | ((b1 as u32) << 8) | (b2 as u32))
        ==> a0 == b0 && a1 == b1 && a2 == b2) by (bit_vector);
}

} // verus!
fn main() {}
