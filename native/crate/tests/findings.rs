//! Native demonstrations of the defects found by the contract checks (DESIGN.md section 7), on the real code and real dependencies.
//! Each test states the PROPERTY; it fails on a tree that has the defect and passes on a repaired tree.
use paseto_core::validation::NoValidation;
use paseto_core::{EncryptedToken, LocalKey, PublicKey, SecretKey, UnencryptedToken, UnsignedToken};
use paseto_json::Json;

/// D1 / C01: paseto-v2 `encrypt()` (library nonce) then `decrypt()` returns the claims.
#[test]
fn d1_v2_encrypt_decrypt_roundtrip() {
    type V = paseto_v2::core::V2;
    let key = LocalKey::<V>::random().unwrap();
    let claims = serde_json::json!({"a": 1});
    let tok = UnencryptedToken::<V, Json<serde_json::Value>>::new(Json(claims.clone())).encrypt(&key).unwrap();
    let parsed: EncryptedToken<V, Json<serde_json::Value>> = tok.to_string().parse().unwrap();
    let r = parsed.decrypt(&key, &NoValidation::dangerous_no_validation());
    assert_eq!(r.map(|t| t.claims.0).map_err(|e| e.to_string()), Ok(claims), "v2 encrypt -> decrypt must return the claims");
}

/// D2 / C01: paseto-v3-aws-lc signing always succeeds (also when r or s has a leading zero byte) and verifies.
#[test]
fn d2_awslc_sign_always_succeeds() {
    type V = paseto_v3_aws_lc::core::V3;
    let sk = SecretKey::<V>::random().unwrap();
    let pk = sk.public_key();
    let mut fails = 0;
    for i in 0..3000 {
        match UnsignedToken::<V, Json<serde_json::Value>>::new(Json(serde_json::json!({"i": i}))).sign(&sk) {
            Err(_) => fails += 1,
            Ok(t) => {
                let s = t.to_string();
                let p: paseto_core::SignedToken<V, Json<serde_json::Value>> = s.parse().unwrap();
                assert!(p.verify(&pk, &NoValidation::dangerous_no_validation()).is_ok());
            }
        }
    }
    assert_eq!(fails, 0, "sign() failed {fails}/3000 times (signature with a leading zero byte in r or s)");
}

/// D3 / C04, C08: a public key string the aws-lc backend accepts can be displayed; the identity point is not a key.
#[test]
fn d3_awslc_identity_point() {
    type V = paseto_v3_aws_lc::core::V3;
    let k: Result<PublicKey<V>, _> = "k3.public.AA".parse();
    if let Ok(k) = k {
        let r = std::panic::catch_unwind(std::panic::AssertUnwindSafe(|| k.to_string()));
        assert!(r.is_ok(), "k3.public.AA (point at infinity) is accepted and then Display panics");
        panic!("k3.public.AA (point at infinity) is accepted as a public key");
    }
    let k: Result<PublicKey<paseto_v3::core::V3>, _> = "k3.public.AA".parse();
    assert!(k.is_err());
}

/// D4 / C05: paseto-v1 key sealing always yields the fixed length and unseals (also when the RSA-KEM ciphertext has a leading zero byte).
#[test]
fn d4_v1_seal_fixed_length_roundtrip() {
    type V = paseto_v1::core::V1;
    use paseto_core::key::Key;
    use paseto_core::version::{PkePublic, PkeSecret};
    let f: serde_json::Value = serde_json::from_str(&std::fs::read_to_string(concat!(env!("CARGO_MANIFEST_DIR"), "/../paseto-test/tests/vectors/k1.seal.json")).unwrap()).unwrap();
    let t = &f["tests"][0];
    let sk: Key<V, PkeSecret> = paseto_core::paserk::KeyText::from_raw_bytes(t["sealing-secret-key"].as_str().unwrap().as_bytes()).try_into().unwrap();
    let pk: Key<V, PkePublic> = paseto_core::paserk::KeyText::from_raw_bytes(t["sealing-public-key"].as_str().unwrap().as_bytes()).try_into().unwrap();
    let (mut short, mut bad) = (0, 0);
    for _ in 0..3000 {
        let lk = LocalKey::<V>::random().unwrap();
        let orig = lk.expose_key();
        let s = lk.seal(&pk).unwrap().to_string();
        if s.len() != "k1.seal.".len() + (592 * 4 + 2) / 3 { short += 1; }
        let back: paseto_core::paserk::SealedKey<V> = s.parse().unwrap();
        match back.unseal(&sk) { Ok(k) if k.expose_key() == orig => {}, _ => bad += 1 }
    }
    assert_eq!((short, bad), (0, 0), "v1 seal: {short} blobs of the wrong length, {bad} failed round trips out of 3000");
}

/// D5 / C03, C07: AES-256-CTR uses the full 128-bit big-endian counter. A specification-conforming k3/k1.local-pw whose
/// 16-byte nonce has its low 64 bits all ones (hand-built here with a full-width counter) must unwrap to the original key on
/// every backend.
#[test]
fn d5_ctr_counter_full_width() {
    use cipher::{KeyIvInit, StreamCipher};
    use hmac::Mac;
    use paseto_core::paserk::PasswordWrappedKey;
    use paseto_core::version::Local;
    use sha2::Digest;
    fn blob(kver: &str, nonce: [u8; 16], ptk: &[u8; 32], pass: &[u8]) -> String {
        let salt = [7u8; 32];
        let iters: u32 = 1000;
        let mut prefix = Vec::new();
        prefix.extend_from_slice(&salt);
        prefix.extend_from_slice(&iters.to_be_bytes());
        prefix.extend_from_slice(&nonce);
        let key = pbkdf2::pbkdf2_array::<hmac::Hmac<sha2::Sha384>, 32>(pass, &salt, iters).unwrap();
        let mut h = sha2::Sha384::new(); h.update([0xFF]); h.update(key); let ek = h.finalize();
        let mut h = sha2::Sha384::new(); h.update([0xFE]); h.update(key); let ak = h.finalize();
        let mut ct = *ptk;
        ctr::Ctr128BE::<aes::Aes256>::new((&ek[..32]).into(), (&nonce).into()).apply_keystream(&mut ct);
        let mut mac = hmac::Hmac::<sha2::Sha384>::new_from_slice(&ak).unwrap();
        mac.update(kver.as_bytes()); mac.update(b".local-pw."); mac.update(&prefix); mac.update(&ct);
        let tag = mac.finalize().into_bytes();
        let mut all = prefix; all.extend_from_slice(&ct); all.extend_from_slice(&tag);
        const A: &[u8; 64] = b"ABCDEFGHIJKLMNOPQRSTUVWXYZabcdefghijklmnopqrstuvwxyz0123456789-_";
        let mut s = format!("{kver}.local-pw.");
        for c in all.chunks(3) {
            let b = [c[0], *c.get(1).unwrap_or(&0), *c.get(2).unwrap_or(&0)];
            let v = [b[0] >> 2, (b[0] & 3) << 4 | b[1] >> 4, (b[1] & 15) << 2 | b[2] >> 6, b[2] & 63];
            for i in 0..(c.len() + 1) { s.push(A[v[i] as usize] as char); }
        }
        s
    }
    let ptk: [u8; 32] = core::array::from_fn(|i| i as u8);
    let mut nonce = [1u8; 16];
    nonce[8..].fill(0xff);
    let s = blob("k3", nonce, &ptk, b"pw");
    let a: PasswordWrappedKey<paseto_v3::core::V3, Local> = s.parse().unwrap();
    let b: PasswordWrappedKey<paseto_v3_aws_lc::core::V3, Local> = s.parse().unwrap();
    let ka = a.unwrap(b"pw").map(|k| k.expose_key().as_raw_bytes().to_vec()).ok();
    let kb = b.unwrap(b"pw").map(|k| k.expose_key().as_raw_bytes().to_vec()).ok();
    let c: PasswordWrappedKey<paseto_v1::core::V1, Local> = blob("k1", nonce, &ptk, b"pw").parse().unwrap();
    let kc = c.unwrap(b"pw").map(|k| k.expose_key().as_raw_bytes().to_vec()).ok();
    assert_eq!(kb.as_deref(), Some(&ptk[..]), "aws-lc backend");
    assert_eq!(ka.as_deref(), Some(&ptk[..]), "paseto-v3 unwraps a spec-conforming blob to a DIFFERENT key (64-bit counter)");
    assert_eq!(kc.as_deref(), Some(&ptk[..]), "paseto-v1 unwraps a spec-conforming blob to a DIFFERENT key (64-bit counter)");
}
