// see tests/
