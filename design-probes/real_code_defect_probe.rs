use paseto_core::validation::NoValidation;
use paseto_core::{UnencryptedToken, EncryptedToken, UnsignedToken, SignedToken, LocalKey, SecretKey, PublicKey};
use paseto_json::Json;
use std::panic::catch_unwind;

fn main() {
    // C01: v2 encrypt()/decrypt round trip with library nonce
    {
        type V = paseto_v2::core::V2;
        let key = LocalKey::<V>::random().unwrap();
        let tok = UnencryptedToken::<V, Json<serde_json::Value>>::new(Json(serde_json::json!({"a": 1}))).encrypt(&key).unwrap();
        let s = tok.to_string();
        let parsed: EncryptedToken<V, Json<serde_json::Value>> = s.parse().unwrap();
        let r = parsed.decrypt(&key, &NoValidation::dangerous_no_validation());
        println!("v2 encrypt->decrypt: {:?}", r.map(|t| t.claims.0).map_err(|e| e.to_string()));
    }
    // C01: aws-lc sign failures
    {
        type V = paseto_v3_aws_lc::core::V3;
        let sk = SecretKey::<V>::random().unwrap();
        let mut fails = 0;
        for i in 0..2000 {
            let r = UnsignedToken::<V, Json<serde_json::Value>>::new(Json(serde_json::json!({"i": i}))).sign(&sk);
            if r.is_err() { fails += 1; }
        }
        println!("aws-lc sign failures: {fails}/2000");
    }
    // C04: aws-lc infinity
    {
        type V = paseto_v3_aws_lc::core::V3;
        let k: Result<PublicKey<V>, _> = "k3.public.AA".parse();
        println!("aws-lc parse k3.public.AA ok={}", k.is_ok());
        if let Ok(k) = k {
            let r = catch_unwind(std::panic::AssertUnwindSafe(|| k.to_string()));
            println!("display panicked={}", r.is_err());
        }
        type W = paseto_v3::core::V3;
        let k: Result<PublicKey<W>, _> = "k3.public.AA".parse();
        println!("rustcrypto v3 parse k3.public.AA ok={}", k.is_ok());
    }
    // C05: v1 seal length
    {
        type V = paseto_v1::core::V1;
        use paseto_core::key::Key;
        use paseto_core::version::{PkePublic, PkeSecret};
        let f: serde_json::Value = serde_json::from_str(&std::fs::read_to_string("paseto-test/tests/vectors/k1.seal.json").unwrap()).unwrap();
        let t = &f["tests"][0];
        let skpem = t["sealing-secret-key"].as_str().unwrap();
        let pkpem = t["sealing-public-key"].as_str().unwrap();
        let sk: Key<V, PkeSecret> = paseto_core::paserk::KeyText::from_raw_bytes(skpem.as_bytes()).try_into().unwrap();
        let pk: Key<V, PkePublic> = paseto_core::paserk::KeyText::from_raw_bytes(pkpem.as_bytes()).try_into().unwrap();
        let mut short = 0; let mut bad = 0;
        for _ in 0..1500 {
            let lk = LocalKey::<V>::random().unwrap();
            let orig = lk.expose_key();
            let sealed = lk.seal(&pk).unwrap();
            let s = sealed.to_string();
            if s.len() != "k1.seal.".len() + (592*4+2)/3 { short += 1; }
            let back: paseto_core::paserk::SealedKey<V> = s.parse().unwrap();
            match back.unseal(&sk) { Ok(k) if k.expose_key() == orig => {}, _ => bad += 1 }
        }
        println!("v1 seal: short={short} bad_roundtrip={bad} of 1500");
    }
}
