use cipher::{KeyIvInit, StreamCipher};
use hmac::Mac;
use paseto_core::paserk::PasswordWrappedKey;
use paseto_core::version::Local;
use sha2::Digest;

fn blob(kver: &str, nonce: [u8; 16], ptk: &[u8; 32], pass: &[u8]) -> String {
    let salt = [7u8; 32];
    let iters: u32 = 1000;
    let mut prefix = Vec::new();
    prefix.extend_from_slice(&salt);
    prefix.extend_from_slice(&iters.to_be_bytes());
    prefix.extend_from_slice(&nonce);
    let key = pbkdf2::pbkdf2_array::<hmac::Hmac<sha2::Sha384>, 32>(pass, &salt, iters).unwrap();
    let mut h = sha2::Sha384::new(); h.update([0xFF]); h.update(key); let ek = h.finalize();
    let mut h = sha2::Sha384::new(); h.update([0xFE]); h.update(key); let ak = h.finalize();
    let mut ct = *ptk;
    // reference: AES-256-CTR with the full 128-bit big-endian counter (OpenSSL aes-256-ctr, as the spec prescribes)
    ctr::Ctr128BE::<aes::Aes256>::new((&ek[..32]).into(), (&nonce).into()).apply_keystream(&mut ct);
    let mut mac = hmac::Hmac::<sha2::Sha384>::new_from_slice(&ak).unwrap();
    mac.update(kver.as_bytes()); mac.update(b".local-pw."); mac.update(&prefix); mac.update(&ct);
    let tag = mac.finalize().into_bytes();
    let mut all = prefix; all.extend_from_slice(&ct); all.extend_from_slice(&tag);
    // base64url no pad
    const A: &[u8; 64] = b"ABCDEFGHIJKLMNOPQRSTUVWXYZabcdefghijklmnopqrstuvwxyz0123456789-_";
    let mut s = format!("{kver}.local-pw.");
    for c in all.chunks(3) {
        let b = [c[0], *c.get(1).unwrap_or(&0), *c.get(2).unwrap_or(&0)];
        let v = [b[0] >> 2, (b[0] & 3) << 4 | b[1] >> 4, (b[1] & 15) << 2 | b[2] >> 6, b[2] & 63];
        for i in 0..(c.len() + 1) { s.push(A[v[i] as usize] as char); }
    }
    s
}

fn main() {
    let ptk: [u8; 32] = core::array::from_fn(|i| i as u8);
    for (name, nonce) in [("plain nonce", [1u8; 16]), ("low 64 bits all ones", { let mut n = [1u8; 16]; n[8..].fill(0xff); n })] {
        let s = blob("k3", nonce, &ptk, b"pw");
        let a: PasswordWrappedKey<paseto_v3::core::V3, Local> = s.parse().unwrap();
        let b: PasswordWrappedKey<paseto_v3_aws_lc::core::V3, Local> = s.parse().unwrap();
        let ka = a.unwrap(b"pw").map(|k| k.expose_key().as_raw_bytes().to_vec());
        let kb = b.unwrap(b"pw").map(|k| k.expose_key().as_raw_bytes().to_vec());
        println!("{name}: rustcrypto ok={} eq_orig={}  aws-lc ok={} eq_orig={}", ka.is_ok(), ka.as_ref().map(|k| k[..] == ptk[..]).unwrap_or(false), kb.is_ok(), kb.as_ref().map(|k| k[..] == ptk[..]).unwrap_or(false));
        let s1 = blob("k1", nonce, &ptk, b"pw");
        let c: PasswordWrappedKey<paseto_v1::core::V1, Local> = s1.parse().unwrap();
        let kc = c.unwrap(b"pw").map(|k| k.expose_key().as_raw_bytes().to_vec());
        println!("{name}: paseto-v1 ok={} eq_orig={}", kc.is_ok(), kc.as_ref().map(|k| k[..] == ptk[..]).unwrap_or(false));
    }
}
