// PROBE (design phase): appended to a scratch copy of paseto-v4/src/core/local.rs; real crate compiled against model blake2/chacha20.
// Result: roundtrip_3_2_1 VERIFICATION SUCCESSFUL, 1087 checks, 372 s (with pre_auth_encode replaced by its contract); >25 min timeout without the stub.
#[cfg(kani)]
mod kani_v4_local {
    use super::*;
    use paseto_core::version::{SealingVersion, UnsealingVersion};

    fn scenario<const M: usize, const F: usize, const A: usize>(tamper: bool) {
        let key = LocalKey(kani::any());
        let nonce: [u8; 32] = kani::any();
        let msg: [u8; M] = kani::any();
        let f: [u8; F] = kani::any();
        let a: [u8; A] = kani::any();

        let mut payload = Vec::with_capacity(64 + M);
        payload.extend_from_slice(&nonce);
        payload.extend_from_slice(&msg);
        let mut sealed = <V4 as SealingVersion<Local>>::dangerous_seal_with_nonce(&key, "", payload, &f, &a).unwrap();
        assert!(sealed.len() == 32 + M + 32);
        assert!(sealed[..32] == nonce);

        if tamper {
            let idx: usize = kani::any(); kani::assume(idx < sealed.len());
            let bit: u8 = kani::any(); kani::assume(bit < 8);
            sealed[idx] ^= 1 << bit;
            let r = <V4 as UnsealingVersion<Local>>::unseal(&key, "", &mut sealed, &f, &a);
            assert!(r.is_err());
        } else {
            let clear = <V4 as UnsealingVersion<Local>>::unseal(&key, "", &mut sealed, &f, &a).unwrap();
            assert!(clear == &msg[..]);
        }
    }

    /// contract of pre_auth_encode (proved separately): writes le64(N), then per piece le64(total) and fragments
    pub fn pae_contract<const N: usize>(pieces: [&[&[u8]]; N], mut out: impl paseto_core::pae::WriteBytes) {
        out.write(&(N as u64).to_le_bytes());
        let mut i = 0;
        while i < N {
            let piece = pieces[i];
            let mut total: u64 = 0;
            let mut j = 0;
            while j < piece.len() { total += piece[j].len() as u64; j += 1; }
            out.write(&total.to_le_bytes());
            let mut j = 0;
            while j < piece.len() { out.write(piece[j]); j += 1; }
            i += 1;
        }
    }

    #[kani::proof]
    #[kani::unwind(106)]
    #[kani::stub(paseto_core::pae::pre_auth_encode, pae_contract)]
    fn roundtrip_3_2_1() { scenario::<3, 2, 1>(false) }

    #[kani::proof]
    #[kani::unwind(106)]
    #[kani::stub(paseto_core::pae::pre_auth_encode, pae_contract)]
    fn tamper_3_2_1() { scenario::<3, 2, 1>(true) }
}
