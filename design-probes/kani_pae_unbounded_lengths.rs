// PROBE (design phase): appended to a scratch copy of paseto-core/src/pae.rs.
// Result: VERIFICATION SUCCESSFUL, 434 checks, 207 s; fragment lengths are unbounded symbolic usize (objects of symbolic size), only the shape is fixed.
#[cfg(kani)]
#[allow(unsafe_code)]
mod kani_pae {
    use super::*;

    /// What one `write` call delivered, recorded without touching fragment memory.
    #[derive(Clone, Copy)]
    struct Rec { ptr: usize, len: usize, head: [u8; 8] }

    struct Log { n: usize, recs: [Rec; 16], frags: [(usize, usize); 5] }
    impl WriteBytes for Log {
        fn write(&mut self, slice: &[u8]) {
            let p = slice.as_ptr() as usize;
            let mut head = [0u8; 8];
            // only header writes (real memory) are read; fragment memory is never dereferenced
            let is_frag = self.frags.iter().any(|&(q, l)| q == p && l == slice.len());
            if !is_frag {
                assert!(slice.len() == 8);
                head.copy_from_slice(slice);
            }
            assert!(self.n < 16);
            self.recs[self.n] = Rec { ptr: p, len: slice.len(), head };
            self.n += 1;
        }
    }

    const BASE: usize = 0x1000_0000_0000;
    const STRIDE: usize = 0x0100_0000_0000; // 2^40 per fragment

    fn frag(_i: usize, len: usize) -> &'static [u8] {
        if len == 0 { return &[]; }
        unsafe {
            let p = alloc::alloc::alloc(core::alloc::Layout::from_size_align(len, 1).unwrap());
            kani::assume(!p.is_null());
            core::slice::from_raw_parts(p as *const u8, len)
        }
    }

    #[kani::proof]
    #[kani::unwind(10)]
    fn pae_n3_shape_3_1_1() {
        let l: [usize; 5] = kani::any();
        let mut k = 0;
        while k < 5 { kani::assume(l[k] < STRIDE); k += 1; }
        let f0 = frag(0, l[0]); let f1 = frag(1, l[1]); let f2 = frag(2, l[2]);
        let f3 = frag(3, l[3]); let f4 = frag(4, l[4]);
        let fr = [(f0.as_ptr() as usize, l[0]), (f1.as_ptr() as usize, l[1]), (f2.as_ptr() as usize, l[2]), (f3.as_ptr() as usize, l[3]), (f4.as_ptr() as usize, l[4])];
        let mut log = Log { n: 0, recs: [Rec { ptr: 0, len: 0, head: [0; 8] }; 16], frags: fr };
        pre_auth_encode([&[f0, f1, f2], &[f3], &[f4]], &mut log);
        // expected: count, then for each piece: total length, then its fragments by identity
        assert!(log.n == 1 + (1 + 3) + (1 + 1) + (1 + 1));
        assert!(log.recs[0].head == 3u64.to_le_bytes());
        assert!(log.recs[1].head == ((l[0] as u64) + (l[1] as u64) + (l[2] as u64)).to_le_bytes());
        assert!(log.recs[2].ptr == f0.as_ptr() as usize && log.recs[2].len == l[0]);
        assert!(log.recs[3].ptr == f1.as_ptr() as usize && log.recs[3].len == l[1]);
        assert!(log.recs[4].ptr == f2.as_ptr() as usize && log.recs[4].len == l[2]);
        assert!(log.recs[5].head == (l[3] as u64).to_le_bytes());
        assert!(log.recs[6].ptr == f3.as_ptr() as usize && log.recs[6].len == l[3]);
        assert!(log.recs[7].head == (l[4] as u64).to_le_bytes());
        assert!(log.recs[8].ptr == f4.as_ptr() as usize && log.recs[8].len == l[4]);
    }
}
