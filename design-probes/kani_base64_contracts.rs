// PROBE (design phase): contract attributes injected on decode_6bits/encode_6bits by function name, plus this module appended to paseto-core/src/base64.rs.
// Result: 3 harnesses verified in 0.5-1.3 s each (-Z function-contracts -Z stubbing); block_canonical_modular sees only the callee contracts.
#[cfg(kani)]
mod kani_spec {
    pub fn alpha(i: u8) -> u8 {
        match i { 0..=25 => b'A' + i, 26..=51 => b'a' + (i - 26), 52..=61 => b'0' + (i - 52), 62 => b'-', _ => b'_' }
    }
    pub fn is_alpha(c: u8) -> bool {
        (b'A' <= c && c <= b'Z') || (b'a' <= c && c <= b'z') || (b'0' <= c && c <= b'9') || c == b'-' || c == b'_'
    }
}
#[cfg(kani)]
mod kani_contracts {
    use super::*;
    #[kani::proof_for_contract(decode_6bits)]
    fn c_decode_6bits() { decode_6bits(kani::any()); }
    #[kani::proof_for_contract(encode_6bits)]
    fn c_encode_6bits() { encode_6bits(kani::any()); }

    // caller verified against the callee contracts only
    #[kani::proof]
    #[kani::stub_verified(decode_6bits)]
    #[kani::stub_verified(encode_6bits)]
    fn block_canonical_modular() {
        let enc: [u8; 4] = kani::any();
        let mut dec = [0u8; 3];
        let e = decode_3bytes(&enc, &mut dec);
        if e == 0 {
            let mut re = [0u8; 4];
            encode_3bytes(&dec, &mut re);
            assert!(re == enc);
        } else {
            assert!(!kani_spec::is_alpha(enc[0]) || !kani_spec::is_alpha(enc[1]) || !kani_spec::is_alpha(enc[2]) || !kani_spec::is_alpha(enc[3]));
        }
    }
}
#[cfg(kani)]
mod kani_fail_demo {
    use super::*;
    #[derive(kani::Arbitrary)]
    struct In { a: [u8; 4], k: u8 }
    #[kani::proof]
    fn demo_fail() {
        let i: In = kani::any();
        let mut dec = [0u8; 3];
        let e = decode_3bytes(&i.a, &mut dec);
        // deliberately false claim: padding char '=' is always rejected AND result never equals [1,2,3]
        assert!(e != 0 || dec != [1, 2, 3]);
    }
}
