//! MODEL of the `chacha20` crate: XChaCha20 keystream as a memoised uninterpreted pad per (key, nonce).
#![no_std]
use cipher::{KeyIvInit, KeySizeUser, IvSizeUser, StreamCipher, StreamCipherError, Key, Iv};
use cipher::consts::{U24, U32};
use cipher::inout::InOutBuf;

pub const PADCAP: usize = 8;
const SLOTS: usize = 4;
#[derive(Clone, Copy)]
struct Entry { used: bool, key: [u8; 32], iv: [u8; 24], pad: [u8; PADCAP] }
static mut TABLE: [Entry; SLOTS] = [Entry { used: false, key: [0; 32], iv: [0; 24], pad: [0; PADCAP] }; SLOTS];

#[cfg(kani)]
fn fresh() -> [u8; PADCAP] { kani::any() }
#[cfg(not(kani))]
fn fresh() -> [u8; PADCAP] { [0xa5; PADCAP] }

fn pad(key: &[u8; 32], iv: &[u8; 24]) -> [u8; PADCAP] {
    unsafe {
        let mut i = 0;
        while i < SLOTS {
            let e = &TABLE[i];
            if !e.used { let p = fresh(); TABLE[i] = Entry { used: true, key: *key, iv: *iv, pad: p }; return p; }
            if e.key == *key && e.iv == *iv { return e.pad; }
            i += 1;
        }
        panic!("model chacha20: memo table exhausted");
    }
}

pub struct XChaCha20 { pad: [u8; PADCAP], pos: usize }
impl KeySizeUser for XChaCha20 { type KeySize = U32; }
impl IvSizeUser for XChaCha20 { type IvSize = U24; }
impl KeyIvInit for XChaCha20 {
    fn new(key: &Key<Self>, iv: &Iv<Self>) -> Self {
        let mut k = [0u8; 32]; k.copy_from_slice(key);
        let mut n = [0u8; 24]; n.copy_from_slice(iv);
        XChaCha20 { pad: pad(&k, &n), pos: 0 }
    }
}
impl StreamCipher for XChaCha20 {
    fn try_apply_keystream_inout(&mut self, mut buf: InOutBuf<'_, '_, u8>) -> Result<(), StreamCipherError> {
        let n = buf.len();
        assert!(self.pos + n <= PADCAP, "model chacha20: data longer than model capacity");
        let (inp, out) = (buf.get_in().as_ptr(), buf.get_out().as_mut_ptr());
        let mut i = 0;
        while i < n {
            unsafe { *out.add(i) = *inp.add(i) ^ self.pad[self.pos + i]; }
            i += 1;
        }
        self.pos += n;
        Ok(())
    }
}
