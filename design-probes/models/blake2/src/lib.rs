//! MODEL of the `blake2` crate: keyed/unkeyed BLAKE2b as a memoised uninterpreted function.
#![no_std]
use core::marker::PhantomData;
use digest::generic_array::{ArrayLength, GenericArray};
use digest::{FixedOutput, HashMarker, MacMarker, Output, OutputSizeUser, Update, InvalidLength, KeyInit, Key};
use digest::crypto_common::KeySizeUser;
use digest::typenum::{U64, IsLessOrEqual, LeEq, NonZero};

pub const CAP: usize = 104;
const SLOTS: usize = 8;

#[derive(Clone, Copy)]
struct Entry { used: bool, klen: usize, key: [u8; 64], mlen: usize, msg: [u8; CAP], olen: usize, out: [u8; 64] }
static mut TABLE: [Entry; SLOTS] = [Entry { used: false, klen: 0, key: [0; 64], mlen: 0, msg: [0; CAP], olen: 0, out: [0; 64] }; SLOTS];

#[cfg(kani)]
fn fresh() -> [u8; 64] { kani::any() }
#[cfg(not(kani))]
fn fresh() -> [u8; 64] { [0x5a; 64] }

fn oracle(klen: usize, key: &[u8; 64], mlen: usize, msg: &[u8; CAP], olen: usize) -> [u8; 64] {
    unsafe {
        let mut i = 0;
        while i < SLOTS {
            let e = &TABLE[i];
            if !e.used {
                let out = fresh();
                // ideal-MAC assumption: a fresh output differs from every earlier output somewhere in its used width
                #[cfg(kani)]
                {
                    let mut j = 0;
                    while j < i {
                        let p = &TABLE[j];
                        if p.olen == olen { kani::assume(p.out[..olen] != out[..olen]); }
                        j += 1;
                    }
                }
                TABLE[i] = Entry { used: true, klen, key: *key, mlen, msg: *msg, olen, out };
                return out;
            }
            if e.klen == klen && e.mlen == mlen && e.olen == olen && e.key == *key && e.msg == *msg {
                return e.out;
            }
            i += 1;
        }
        panic!("model blake2: memo table exhausted");
    }
}

#[derive(Clone)]
struct St { klen: usize, key: [u8; 64], mlen: usize, msg: [u8; CAP] }
impl St {
    fn new(key: &[u8]) -> Self {
        let mut k = [0u8; 64];
        k[..key.len()].copy_from_slice(key);
        St { klen: key.len(), key: k, mlen: 0, msg: [0; CAP] }
    }
    fn update(&mut self, data: &[u8]) {
        assert!(self.mlen + data.len() <= CAP, "model blake2: message longer than model capacity");
        self.msg[self.mlen..self.mlen + data.len()].copy_from_slice(data);
        self.mlen += data.len();
    }
}

#[derive(Clone)]
pub struct Blake2bMac<O>(St, PhantomData<O>);
impl<O> KeySizeUser for Blake2bMac<O> { type KeySize = U64; }
impl<O> KeyInit for Blake2bMac<O> {
    fn new(key: &Key<Self>) -> Self { Blake2bMac(St::new(key), PhantomData) }
    fn new_from_slice(key: &[u8]) -> Result<Self, InvalidLength> {
        if key.len() > 64 { return Err(InvalidLength); }
        Ok(Blake2bMac(St::new(key), PhantomData))
    }
}
impl<O> MacMarker for Blake2bMac<O> {}
impl<O> Update for Blake2bMac<O> { fn update(&mut self, d: &[u8]) { self.0.update(d) } }
impl<O: ArrayLength<u8> + IsLessOrEqual<U64>> OutputSizeUser for Blake2bMac<O> where LeEq<O, U64>: NonZero { type OutputSize = O; }
impl<O: ArrayLength<u8> + IsLessOrEqual<U64>> FixedOutput for Blake2bMac<O> where LeEq<O, U64>: NonZero {
    fn finalize_into(self, out: &mut Output<Self>) {
        let n = O::USIZE;
        // keyed: klen+1 distinguishes keyed from unkeyed domain
        let r = oracle(self.0.klen + 1, &self.0.key, self.0.mlen, &self.0.msg, n);
        out.copy_from_slice(&r[..n]);
    }
}

#[derive(Clone)]
pub struct Blake2b<O>(St, PhantomData<O>);
impl<O> Default for Blake2b<O> { fn default() -> Self { Blake2b(St::new(&[]), PhantomData) } }
impl<O> HashMarker for Blake2b<O> {}
impl<O> Update for Blake2b<O> { fn update(&mut self, d: &[u8]) { self.0.update(d) } }
impl<O: ArrayLength<u8>> OutputSizeUser for Blake2b<O> { type OutputSize = O; }
impl<O: ArrayLength<u8>> FixedOutput for Blake2b<O> {
    fn finalize_into(self, out: &mut GenericArray<u8, O>) {
        let n = O::USIZE;
        let r = oracle(0, &self.0.key, self.0.mlen, &self.0.msg, n);
        out.copy_from_slice(&r[..n]);
    }
}
