// U2 — paseto-core/src/base64.rs. Appended verbatim (under #[cfg(kani)]) to the scratch copy of that file,
// so the harnesses see the private functions. Nothing in the file above this line is altered.

/// Spec functions (RFC 4648 section 5 alphabet, unpadded) — the oracle, written from the RFC / PASETO spec, not from the code.
pub(crate) mod vspec {
    pub fn alpha(i: u8) -> u8 {
        match i {
            0..=25 => b'A' + i,
            26..=51 => b'a' + (i - 26),
            52..=61 => b'0' + (i - 52),
            62 => b'-',
            _ => b'_',
        }
    }
    pub fn is_alpha(c: u8) -> bool {
        (b'A' <= c && c <= b'Z') || (b'a' <= c && c <= b'z') || (b'0' <= c && c <= b'9') || c == b'-' || c == b'_'
    }
    /// value of an alphabet character (only meaningful when is_alpha(c))
    pub fn val(c: u8) -> u8 {
        if b'A' <= c && c <= b'Z' { c - b'A' }
        else if b'a' <= c && c <= b'z' { c - b'a' + 26 }
        else if b'0' <= c && c <= b'9' { c - b'0' + 52 }
        else if c == b'-' { 62 } else { 63 }
    }
    /// the four sextets of a 3-byte group
    pub fn sextets(b: &[u8; 3]) -> [u8; 4] {
        [b[0] >> 2, ((b[0] & 3) << 4) | (b[1] >> 4), ((b[1] & 15) << 2) | (b[2] >> 6), b[2] & 63]
    }
    /// floor(3n/4) in 128-bit arithmetic (cannot overflow for any usize)
    pub fn dlen(n: usize) -> usize { ((n as u128 * 3) / 4) as usize }
    /// encoded length of n bytes, unpadded
    pub fn elen(n: usize) -> usize { (n / 3) * 4 + match n % 3 { 0 => 0, 1 => 2, _ => 3 } }
    /// spec encoder: b64(bytes[..n]) into out, returns length. CAP bounds are the harness's, not the spec's.
    pub fn b64<const NB: usize, const NS: usize>(bytes: &[u8; NB], out: &mut [u8; NS]) -> usize {
        let mut i = 0; let mut o = 0;
        while i + 3 <= NB {
            let s = sextets(&[bytes[i], bytes[i + 1], bytes[i + 2]]);
            out[o] = alpha(s[0]); out[o + 1] = alpha(s[1]); out[o + 2] = alpha(s[2]); out[o + 3] = alpha(s[3]);
            i += 3; o += 4;
        }
        if NB - i == 1 {
            let s = sextets(&[bytes[i], 0, 0]);
            out[o] = alpha(s[0]); out[o + 1] = alpha(s[1]); o += 2;
        } else if NB - i == 2 {
            let s = sextets(&[bytes[i], bytes[i + 1], 0]);
            out[o] = alpha(s[0]); out[o + 1] = alpha(s[1]); out[o + 2] = alpha(s[2]); o += 3;
        }
        o
    }
}

mod vharness {
    // Kani's assert! override does not reach #![no_std] crates (messages become a placeholder): use kani::assert directly.
    macro_rules! vassert { ($c:expr) => { kani::assert($c, stringify!($c)) }; ($c:expr, $m:literal) => { kani::assert($c, $m) }; }
    use super::vspec::*;
    use super::*;

    // ---------------------------------------------------------------- function contracts (proof_for_contract)
    #[kani::proof_for_contract(decode_6bits)]
    fn c_decode_6bits() { decode_6bits(kani::any()); }

    #[kani::proof_for_contract(encode_6bits)]
    fn c_encode_6bits() { encode_6bits(kani::any()); }

    // decode_3bytes / encode_3bytes: postconditions proved for the full domain (loop-free => complete).
    // (Kani's `modifies` write-set machinery made proof_for_contract on the &mut [u8; N] versions intractable — >300 s —
    //  so these two are harness-level contracts; their callees decode_6bits/encode_6bits are replaced by their contracts.)
    #[kani::proof]
    #[kani::stub_verified(decode_6bits)]
    fn c_decode_3bytes() {
        let src: [u8; 4] = kani::any();
        let mut dst: [u8; 3] = kani::any();
        let r = decode_3bytes(&src, &mut dst);
        let ok = is_alpha(src[0]) && is_alpha(src[1]) && is_alpha(src[2]) && is_alpha(src[3]);
        vassert!(r == 0 || r == 1, "[C09] decode_3bytes error flag is 0 or 1");
        vassert!((r == 0) == ok, "[C09] decode_3bytes accepts exactly the four-alphabet-character blocks");
        if r == 0 {
            let s = sextets(&dst);
            vassert!(s[0] == val(src[0]) && s[1] == val(src[1]) && s[2] == val(src[2]) && s[3] == val(src[3]),
                "[C09] decode_3bytes packs the four sextets big-endian");
        }
        kani::cover!(r == 0); kani::cover!(r == 1);
    }

    #[kani::proof]
    #[kani::stub_verified(encode_6bits)]
    fn c_encode_3bytes() {
        let src: [u8; 3] = kani::any();
        let mut dst: [u8; 4] = kani::any();
        encode_3bytes(&src, &mut dst);
        let s = sextets(&src);
        vassert!(dst[0] == alpha(s[0]) && dst[1] == alpha(s[1]) && dst[2] == alpha(s[2]) && dst[3] == alpha(s[3]),
            "[C09] encode_3bytes emits alpha(sextet) for each of the four sextets");
        vassert!(dst[0] < 0x80 && dst[1] < 0x80 && dst[2] < 0x80 && dst[3] < 0x80,
            "[C04] encode_3bytes output is ASCII (precondition of from_utf8_unchecked in write_to_fmt)");
    }

    #[kani::proof_for_contract(decoded_len)]
    fn c_decoded_len() { decoded_len(kani::any()); }

    // block functions are mutually inverse (lemma over the two block contracts; callee bodies replaced by contracts)
    #[kani::proof]
    #[kani::stub_verified(decode_6bits)]
    #[kani::stub_verified(encode_6bits)]
    fn block_inverse_modular() {
        let enc: [u8; 4] = kani::any();
        let mut dec = [0u8; 3];
        let e = decode_3bytes(&enc, &mut dec);
        if e == 0 {
            let mut re = [0u8; 4];
            encode_3bytes(&dec, &mut re);
            vassert!(re == enc, "[C09] decode_3bytes then encode_3bytes is the identity on accepted blocks");
        }
        let b: [u8; 3] = kani::any();
        let mut s = [0u8; 4];
        encode_3bytes(&b, &mut s);
        let mut back = [0u8; 3];
        let e2 = decode_3bytes(&s, &mut back);
        vassert!(e2 == 0 && back == b, "[C09] encode_3bytes then decode_3bytes is the identity");
        kani::cover!(e == 0, "an accepted block exists");
        kani::cover!(e != 0, "a rejected block exists");
    }

    // encode_last for every tail length 0..=3 (loop-free, full domain)
    #[kani::proof]
    fn encode_last_spec() {
        let b: [u8; 3] = kani::any();
        let n: usize = kani::any();
        kani::assume(n <= 3);
        let mut dst = [0u8; 4];
        let out = encode_last(&b[..n], &mut dst);
        let s = sextets(&[if n > 0 { b[0] } else { 0 }, if n > 1 { b[1] } else { 0 }, if n > 2 { b[2] } else { 0 }]);
        vassert!(out.len() == elen(n), "[C09] encode_last length is 0,2,3,4 for 0,1,2,3 bytes");
        let mut i = 0;
        while i < out.len() { vassert!(out[i] == alpha(s[i]), "[C09] encode_last emits the spec sextets"); i += 1; }
        kani::cover!(n == 1); kani::cover!(n == 2); kani::cover!(n == 3); kani::cover!(n == 0);
    }

    // ---------------------------------------------------------------- whole-string obligations
    fn as_str(b: &[u8]) -> &str {
        // bytes are arbitrary (a superset of what a &str can hold); decode only looks at as_bytes()
        unsafe { core::str::from_utf8_unchecked(b) }
    }

    /// decode(s) for every string of exactly NS bytes into an exact-size buffer; NB = dlen(NS), NG = NB + 2 (guarded buffer).
    fn decode_sound<const NS: usize, const NB: usize, const NG: usize>() {
        let s: [u8; NS] = kani::any();
        let mut buf = [0u8; NB];
        match decode(as_str(&s), &mut buf) {
            Ok(v) => {
                vassert!(v.len() == NB, "[C09] decode output length is floor(3n/4)");
                vassert!(NS % 4 != 1, "[C09] a string of length 1 mod 4 is never accepted");
                let mut b = [0u8; NB];
                b.copy_from_slice(v);
                let mut re = [0u8; NS];
                let n = b64(&b, &mut re);
                vassert!(n == NS && re == s, "[C09] accepted string re-encodes to exactly itself (alphabet, no padding, canonical trailing bits)");
            }
            Err(e) => {
                vassert!(matches!(e, PasetoError::Base64DecodeError), "[C09] decode error kind");
                // completeness: a rejected string is not the encoding of any byte string
                let b: [u8; NB] = kani::any();
                let mut re = [0u8; NS];
                let n = b64(&b, &mut re);
                vassert!(!(n == NS && re == s), "[C09] every canonical encoding is accepted");
            }
        }
        // oversized destination: same verdict, same bytes, nothing written beyond the decoded length
        let mut big = [0xa5u8; NG];
        let r2 = decode(as_str(&s), &mut big).map(|x| x.len());
        let mut buf1 = [0u8; NB];
        let r1 = decode(as_str(&s), &mut buf1).map(|x| x.len());
        vassert!(r1.is_ok() == r2.is_ok(), "[C09] verdict does not depend on spare capacity");
        if r1.is_ok() { vassert!(big[..NB] == buf1[..], "[C09] bytes do not depend on spare capacity"); }
        vassert!(big[NG - 1] == 0xa5 && big[NG - 2] == 0xa5, "[C04] decode writes nothing beyond the decoded length");
    }

    /// decode_vec agrees with decode (same verdict, same bytes)
    fn decode_vec_agrees<const NS: usize, const NB: usize, const NG: usize>() {
        let s: [u8; NS] = kani::any();
        let mut buf = [0u8; NB];
        let r1 = decode(as_str(&s), &mut buf).map(|x| x.len());
        let r0 = decode_vec(as_str(&s));
        vassert!(r1.is_ok() == r0.is_ok(), "[C09] decode and decode_vec accept the same strings");
        if let Ok(v) = r0 {
            vassert!(v.len() == NB, "[C09] decode_vec output length is floor(3n/4)");
            vassert!(buf[..] == v[..], "[C09] decode and decode_vec produce the same bytes");
        }
    }

    /// decode(b64(b)) == b and write_to_fmt(b) == b64(b) for every byte string of exactly NB bytes; NS = elen(NB).
    fn encode_roundtrip<const NB: usize, const NS: usize, const NG: usize>() {
        let b: [u8; NB] = kani::any();
        let mut s = [0u8; NS];
        let n = b64(&b, &mut s);
        vassert!(n == NS);
        let mut back = [0u8; NB];
        let v = decode(as_str(&s), &mut back);
        vassert!(v.is_ok(), "[C09] the canonical encoding of every byte string decodes");
        vassert!(v.unwrap()[..] == b[..], "[C09] decode(b64(b)) == b");
        // the real encoder produces exactly b64(b)
        struct Sink<const NG: usize> { buf: [u8; NG], n: usize }
        impl<const NG: usize> fmt::Write for Sink<NG> {
            fn write_str(&mut self, x: &str) -> fmt::Result {
                let xb = x.as_bytes();
                if self.n + xb.len() > NG { return Err(fmt::Error); }
                self.buf[self.n..self.n + xb.len()].copy_from_slice(xb);
                self.n += xb.len();
                Ok(())
            }
        }
        struct D<'a>(&'a [u8]);
        impl fmt::Display for D<'_> {
            fn fmt(&self, f: &mut fmt::Formatter<'_>) -> fmt::Result { write_to_fmt(self.0, f) }
        }
        let mut sink = Sink::<NG> { buf: [0; NG], n: 0 };
        let r = fmt::write(&mut sink, format_args!("{}", D(&b)));
        vassert!(r.is_ok(), "[C09] write_to_fmt does not fail on an infallible sink");
        vassert!(sink.n == NS && sink.buf[..NS] == s[..], "[C09] write_to_fmt(b) == b64(b)");
    }

    /// a destination shorter than the decoded length is refused, never overrun
    fn decode_short_buffer<const NS: usize, const NB: usize, const NG: usize>() {
        let s: [u8; NS] = kani::any();
        let mut guard = [0x5au8; NB];
        let short: usize = kani::any();
        kani::assume(short < NB);
        let r = decode(as_str(&s), &mut guard[..short]);
        vassert!(r.is_err(), "[C04] decode into a too-short buffer is an error");
        vassert!(guard[NB - 1] == 0x5a, "[C04] nothing written past the offered buffer");
    }

    macro_rules! per_len {
        ($($name:ident: $f:ident<$a:literal, $b:literal, $g:literal> unwind $u:literal;)*) => { $(
            #[kani::proof] #[kani::unwind($u)]
            fn $name() { $f::<$a, $b, $g>(); kani::cover!(true, "harness end reachable"); }
        )* };
    }
    per_len! {
        decode_sound_0: decode_sound<0, 0, 2> unwind 4; decode_sound_1: decode_sound<1, 0, 2> unwind 5; decode_sound_2: decode_sound<2, 1, 3> unwind 6;
        decode_sound_3: decode_sound<3, 2, 4> unwind 7; decode_sound_4: decode_sound<4, 3, 5> unwind 8; decode_sound_5: decode_sound<5, 3, 5> unwind 9;
        decode_sound_6: decode_sound<6, 4, 6> unwind 10; decode_sound_7: decode_sound<7, 5, 7> unwind 11; decode_sound_8: decode_sound<8, 6, 8> unwind 12;
        decode_sound_9: decode_sound<9, 6, 8> unwind 13; decode_sound_10: decode_sound<10, 7, 9> unwind 14; decode_sound_11: decode_sound<11, 8, 10> unwind 15;
        decode_sound_12: decode_sound<12, 9, 11> unwind 16; decode_sound_13: decode_sound<13, 9, 11> unwind 17;
        decode_vec_agrees_0: decode_vec_agrees<0, 0, 0> unwind 4; decode_vec_agrees_1: decode_vec_agrees<1, 0, 0> unwind 5;
        decode_vec_agrees_3: decode_vec_agrees<3, 2, 0> unwind 7; decode_vec_agrees_6: decode_vec_agrees<6, 4, 0> unwind 10;
        decode_vec_agrees_8: decode_vec_agrees<8, 6, 0> unwind 12;
        encode_roundtrip_0: encode_roundtrip<0, 0, 2> unwind 4; encode_roundtrip_1: encode_roundtrip<1, 2, 4> unwind 6; encode_roundtrip_2: encode_roundtrip<2, 3, 5> unwind 7;
        encode_roundtrip_3: encode_roundtrip<3, 4, 6> unwind 8; encode_roundtrip_4: encode_roundtrip<4, 6, 8> unwind 10; encode_roundtrip_5: encode_roundtrip<5, 7, 9> unwind 11;
        encode_roundtrip_6: encode_roundtrip<6, 8, 10> unwind 12; encode_roundtrip_7: encode_roundtrip<7, 10, 12> unwind 14; encode_roundtrip_8: encode_roundtrip<8, 11, 13> unwind 15;
        encode_roundtrip_9: encode_roundtrip<9, 12, 14> unwind 16;
        decode_short_buffer_4: decode_short_buffer<4, 3, 0> unwind 8; decode_short_buffer_7: decode_short_buffer<7, 5, 0> unwind 11;
        decode_short_buffer_2: decode_short_buffer<2, 1, 0> unwind 6;
    }

    // the same whole-string statement with the block functions replaced by their contracts (modular route)
    #[kani::proof] #[kani::unwind(11)]
    #[kani::stub_verified(decode_6bits)]
    #[kani::stub_verified(encode_6bits)]
    fn decode_sound_7_modular() { decode_sound::<7, 5, 7>(); kani::cover!(true, "harness end reachable"); }

    // ---------------------------------------------------------------- canary: a false claim that MUST fail (vacuity guard)
    #[kani::proof] #[kani::unwind(8)]
    fn canary_padding_accepted() {
        let s: [u8; 4] = kani::any();
        kani::assume(s[3] == b'B');
        // false: "no 4-char string ending in 'B' decodes" — "AAAB" does
        let mut buf = [0u8; 3];
        vassert!(decode(as_str(&s), &mut buf).is_err(), "canary: must fail");
    }
    // @@PLAYBACK@@
}
