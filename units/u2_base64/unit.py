from vrf.core import Unit, Harness

FILE = "paseto-core/src/base64.rs"
FNS = ["decode", "decode_vec", "decode_inner", "validate_last_block", "decoded_len", "decode_3bytes", "decode_6bits",
       "encode_3bytes", "encode_6bits", "encode_last", "write_to_fmt"]


def unit():
    hs = []
    for n, fn in [("c_decode_6bits", "decode_6bits"), ("c_encode_6bits", "encode_6bits"), ("c_decode_3bytes", "decode_3bytes"),
                  ("c_encode_3bytes", "encode_3bytes"), ("c_decoded_len", "decoded_len")]:
        hs.append(Harness(n, ["C09", "C04"], functions=[f"{FILE}::{fn}"], timeout=300,
                          desc=f"function contract of {fn} proved for its full input domain (loop-free)"))
    hs.append(Harness("block_inverse_modular", ["C09"], functions=[f"{FILE}::decode_3bytes", f"{FILE}::encode_3bytes"], timeout=300,
                      desc="block encode/decode mutually inverse, callee bodies replaced by their verified contracts"))
    hs.append(Harness("encode_last_spec", ["C09", "C04"], functions=[f"{FILE}::encode_last"], timeout=300,
                      desc="encode_last for every tail of 0..=3 bytes"))
    for n in range(0, 14):
        hs.append(Harness(f"decode_sound_{n}", ["C09", "C04"], tier="quick" if n in (1, 2, 3, 5, 8, 9) else "thorough", complete=False,
                          bound=f"string length == {n} (all 256^{n} contents)", timeout=900,
                          functions=[f"{FILE}::{f}" for f in ("decode", "decode_vec", "decode_inner", "validate_last_block")],
                          desc="accepted => re-encodes to itself; rejected => not a canonical encoding; decode == decode_vec; no overrun"))
    for n in range(0, 10):
        hs.append(Harness(f"encode_roundtrip_{n}", ["C09", "C04"], tier="quick" if n in (1, 2, 4, 6) else "thorough", complete=False,
                          bound=f"byte length == {n} (all contents)", timeout=900,
                          functions=[f"{FILE}::write_to_fmt", f"{FILE}::encode_last", f"{FILE}::decode_vec"],
                          desc="decode(b64(b)) == b and write_to_fmt(b) == b64(b)"))
    for n in (0, 1, 3, 6, 8):
        hs.append(Harness(f"decode_vec_agrees_{n}", ["C09", "C04"], complete=False, tier="quick" if n in (0, 3) else "thorough", bound=f"string length == {n}", timeout=600,
                          functions=[f"{FILE}::decode_vec", f"{FILE}::decode"], desc="decode_vec and decode give the same verdict and bytes"))
    for n in (2, 4, 7):
        hs.append(Harness(f"decode_short_buffer_{n}", ["C04"], complete=False, tier="quick" if n == 4 else "thorough", bound=f"string length == {n}", timeout=300,
                          functions=[f"{FILE}::decode"], desc="decode into a too-short buffer is Err"))
    hs.append(Harness("decode_sound_7_modular", ["C09"], complete=False, bound="string length == 7", timeout=900,
                      functions=[f"{FILE}::decode_inner"], desc="whole-string statement against the block contracts only (stub_verified)"))
    hs.append(Harness("canary_padding_accepted", ["C09", "C04"], expect="fail", timeout=300, desc="vacuity canary: false claim must fail"))
    return Unit(
        name="u2_base64",
        members=["paseto-core"],
        package="paseto-core",
        inject=[(FILE, "units/u2_base64/harness.rs")],
        contracts="units/u2_base64/contracts.json",
        quick_cap=26, harness_path="base64::verif::vharness", allow_unsafe=True,
        kani_flags=["-Z", "function-contracts", "-Z", "stubbing", "--no-assertion-reach-checks"],
        harnesses=hs,
        assumptions=["bytes offered as &str are arbitrary (superset of valid UTF-8); decode only reads as_bytes()"],
        trusted=["core::fmt::write / Formatter plumbing as compiled by Kani", "alloc::vec"],
    )
