// U4 — orchestration in paseto-core/src/tokens.rs (seal / dangerous_seal_with_nonce / unseal and the six aliases),
// verified against the TRAIT CONTRACTS: instantiated at `AbsV`, the most general implementation of the version traits
// (every method returns any result its signature allows and records its arguments in ghost state), `AbsM: Payload`,
// `AbsF: Footer`, `AbsVal: Validate` (count invocations, nondeterministic verdicts). Loop-free => complete for every backend.
use alloc::boxed::Box;
use alloc::vec::Vec;
use core::error::Error;
use crate::encodings::WriteBytes;
use crate::key::HasKey;
use crate::version::{SealingVersion, UnsealingVersion, Version};
use crate::PasetoError as PE;

macro_rules! vassert { ($c:expr, $m:literal) => { kani::assert($c, $m) }; }
macro_rules! vcheck_all {
    ($( ($c:expr, $m:literal) ),+ $(,)?) => {{
        let conds = [$($c),+];
        let sel: u8 = kani::any();
        let mut k = 0u8;
        $( if sel == k { kani::assert(conds[k as usize], $m); } k += 1; )+
        let _ = k;
    }};
}

#[derive(Clone, Copy)]
struct Ghost {
    unseal_calls: u8, unseal_key: u8, unseal_payload: (usize, usize), unseal_footer: (usize, usize), unseal_aad: (usize, usize),
    unseal_outcome: u8, unseal_ret: (usize, usize),
    decode_calls: u8, decode_arg: (usize, usize), decode_ok: bool, decode_id: u8,
    validate_calls: u8, validate_arg: u8, validate_outcome: u8,
    nonce_calls: u8, nonce_outcome: u8, nonce_len: usize, nonce: [u8; 2],
    enc_calls: u8, enc_ok: bool, enc_len: usize, enc: [u8; 2],
    fenc_calls: u8, fenc_ok: bool, fenc_len: usize, fenc: [u8; 2],
    seal_calls: u8, seal_key: u8, seal_payload_len: usize, seal_payload: [u8; 4], seal_footer_len: usize, seal_footer: [u8; 2],
    seal_aad: (usize, usize), seal_outcome: u8, seal_ret_len: usize, seal_ret: [u8; 3],
    order: [u8; 8], order_n: usize,
}
static mut G: Ghost = Ghost {
    unseal_calls: 0, unseal_key: 0, unseal_payload: (0, 0), unseal_footer: (0, 0), unseal_aad: (0, 0), unseal_outcome: 0, unseal_ret: (0, 0),
    decode_calls: 0, decode_arg: (0, 0), decode_ok: false, decode_id: 0, validate_calls: 0, validate_arg: 0, validate_outcome: 0,
    nonce_calls: 0, nonce_outcome: 0, nonce_len: 0, nonce: [0; 2], enc_calls: 0, enc_ok: false, enc_len: 0, enc: [0; 2],
    fenc_calls: 0, fenc_ok: false, fenc_len: 0, fenc: [0; 2],
    seal_calls: 0, seal_key: 0, seal_payload_len: 0, seal_payload: [0; 4], seal_footer_len: 0, seal_footer: [0; 2], seal_aad: (0, 0),
    seal_outcome: 0, seal_ret_len: 0, seal_ret: [0; 3], order: [0; 8], order_n: 0,
};
fn ev(e: u8) { unsafe { if G.order_n < 8 { G.order[G.order_n] = e; } G.order_n += 1; } }
const EV_UNSEAL: u8 = 1; const EV_DECODE: u8 = 2; const EV_VALIDATE: u8 = 3; const EV_NONCE: u8 = 4; const EV_ENC: u8 = 5; const EV_FENC: u8 = 6; const EV_SEAL: u8 = 7;
fn id(s: &[u8]) -> (usize, usize) { (s.as_ptr() as usize, s.len()) }

/// any PasetoError except PayloadError (k in 0..5); PayloadError is produced by the framework code under test only
fn err_of(k: u8) -> PE {
    match k { 0 => PE::Base64DecodeError, 1 => PE::InvalidKey, 2 => PE::InvalidToken, 3 => PE::CryptoError, _ => PE::ClaimsError }
}
fn kind_of(e: &PE) -> u8 {
    match e { PE::Base64DecodeError => 0, PE::InvalidKey => 1, PE::InvalidToken => 2, PE::CryptoError => 3, PE::ClaimsError => 4, PE::PayloadError(_) => 5 }
}
#[derive(Debug)]
struct AnErr;
impl core::fmt::Display for AnErr { fn fmt(&self, f: &mut core::fmt::Formatter<'_>) -> core::fmt::Result { f.write_str("e") } }
impl Error for AnErr {}

pub struct AbsV;
pub struct AKey(u8);
impl Version for AbsV { const HEADER: &'static str = "vA"; const PASERK_HEADER: &'static str = "kA"; }
macro_rules! haskey { ($($k:ty),*) => { $(
    impl HasKey<$k> for AbsV {
        type Key = AKey;
        fn encode(key: &AKey) -> Box<[u8]> { Box::new([key.0]) }
        fn decode(bytes: &[u8]) -> Result<AKey, PE> { if bytes.len() == 1 { Ok(AKey(bytes[0])) } else { Err(PE::InvalidKey) } }
    }
)* }; }
haskey!(Local, Public, crate::version::Secret);

fn abs_unseal<'a>(key: &AKey, payload: &'a mut [u8], footer: &[u8], aad: &[u8]) -> Result<&'a [u8], PE> {
    ev(EV_UNSEAL);
    let outcome: u8 = kani::any();
    kani::assume(outcome <= 5);
    unsafe {
        G.unseal_calls += 1; G.unseal_key = key.0; G.unseal_payload = id(payload); G.unseal_footer = id(footer); G.unseal_aad = id(aad);
        G.unseal_outcome = outcome;
    }
    if outcome < 5 { return Err(err_of(outcome)); }
    // success: any sub-slice of the payload (the contract: "returns the cleartext, a part of the buffer it was given")
    let a: usize = kani::any(); let b: usize = kani::any();
    kani::assume(a <= b && b <= payload.len());
    if b > a { payload[a] = kani::any(); } // may rewrite the buffer (decryption in place)
    let r = &payload[a..b];
    unsafe { G.unseal_ret = id(r); }
    Ok(r)
}
fn abs_seal(key: &AKey, payload: Vec<u8>, footer: &[u8], aad: &[u8]) -> Result<Vec<u8>, PE> {
    ev(EV_SEAL);
    let outcome: u8 = kani::any();
    kani::assume(outcome <= 5);
    unsafe {
        G.seal_calls += 1; G.seal_key = key.0; G.seal_payload_len = payload.len();
        let mut i = 0; while i < 4 { if i < payload.len() { G.seal_payload[i] = payload[i]; } i += 1; }
        G.seal_footer_len = footer.len();
        let mut i = 0; while i < 2 { if i < footer.len() { G.seal_footer[i] = footer[i]; } i += 1; }
        G.seal_aad = id(aad); G.seal_outcome = outcome;
    }
    if outcome < 5 { return Err(err_of(outcome)); }
    let n: usize = kani::any(); kani::assume(n <= 3);
    let bytes: [u8; 3] = kani::any();
    unsafe { G.seal_ret_len = n; G.seal_ret = bytes; }
    let mut v = Vec::new();
    v.extend_from_slice(&bytes[..n]);
    Ok(v)
}
fn abs_nonce() -> Result<Vec<u8>, PE> {
    ev(EV_NONCE);
    let outcome: u8 = kani::any();
    kani::assume(outcome <= 5);
    unsafe { G.nonce_calls += 1; G.nonce_outcome = outcome; }
    if outcome < 5 { return Err(err_of(outcome)); }
    let n: usize = kani::any(); kani::assume(n <= 2);
    let bytes: [u8; 2] = kani::any();
    unsafe { G.nonce_len = n; G.nonce = bytes; }
    let mut v = Vec::new();
    v.extend_from_slice(&bytes[..n]);
    Ok(v)
}
macro_rules! purposes { ($($p:ty),*) => { $(
    impl UnsealingVersion<$p> for AbsV {
        fn unseal<'a>(key: &AKey, _encoding: &'static str, payload: &'a mut [u8], footer: &[u8], aad: &[u8]) -> Result<&'a [u8], PE> {
            abs_unseal(key, payload, footer, aad)
        }
    }
    impl SealingVersion<$p> for AbsV {
        fn unsealing_key(key: &AKey) -> AKey { AKey(key.0) }
        fn random() -> Result<AKey, PE> { let o: u8 = kani::any(); if o < 5 { Err(err_of(o)) } else { Ok(AKey(kani::any())) } }
        fn nonce() -> Result<Vec<u8>, PE> { abs_nonce() }
        fn dangerous_seal_with_nonce(key: &AKey, _encoding: &'static str, payload: Vec<u8>, footer: &[u8], aad: &[u8]) -> Result<Vec<u8>, PE> {
            abs_seal(key, payload, footer, aad)
        }
    }
)* }; }
purposes!(Local, Public);

pub struct AbsM(u8);
impl Payload for AbsM {
    const SUFFIX: &'static str = "";
    fn encode(self, mut writer: impl WriteBytes) -> Result<(), Box<dyn Error + Send + Sync>> {
        ev(EV_ENC);
        let ok: bool = kani::any();
        let n: usize = kani::any(); kani::assume(n <= 2);
        let bytes: [u8; 2] = kani::any();
        unsafe { G.enc_calls += 1; G.enc_ok = ok; G.enc_len = n; G.enc = bytes; }
        writer.write(&bytes[..n]); // may have written before failing
        if ok { Ok(()) } else { Err(Box::new(AnErr)) }
    }
    fn decode(payload: &[u8]) -> Result<Self, Box<dyn Error + Send + Sync>> {
        ev(EV_DECODE);
        let ok: bool = kani::any();
        let mid: u8 = kani::any();
        unsafe { G.decode_calls += 1; G.decode_arg = id(payload); G.decode_ok = ok; G.decode_id = mid; }
        if ok { Ok(AbsM(mid)) } else { Err(Box::new(AnErr)) }
    }
}
pub struct AbsF(u8);
impl Footer for AbsF {
    fn encode(&self, mut writer: impl WriteBytes) -> Result<(), Box<dyn Error + Send + Sync>> {
        ev(EV_FENC);
        let ok: bool = kani::any();
        let n: usize = kani::any(); kani::assume(n <= 2);
        let bytes: [u8; 2] = kani::any();
        unsafe { G.fenc_calls += 1; G.fenc_ok = ok; G.fenc_len = n; G.fenc = bytes; }
        writer.write(&bytes[..n]);
        if ok { Ok(()) } else { Err(Box::new(AnErr)) }
    }
    fn decode(_footer: &[u8]) -> Result<Self, Box<dyn Error + Send + Sync>> { Ok(AbsF(kani::any())) }
}
pub struct AbsVal;
impl Validate for AbsVal {
    type Claims = AbsM;
    fn validate(&self, claims: &AbsM) -> Result<(), PE> {
        ev(EV_VALIDATE);
        let outcome: u8 = kani::any();
        kani::assume(outcome <= 5);
        unsafe { G.validate_calls += 1; G.validate_arg = claims.0; G.validate_outcome = outcome; }
        if outcome < 5 { Err(err_of(outcome)) } else { Ok(()) }
    }
}

fn sealed_token<P: version::Purpose>(footer_id: u8) -> SealedToken<AbsV, P, AbsM, AbsF> {
    let pb: [u8; 4] = kani::any(); let fb: [u8; 2] = kani::any();
    let pl: usize = kani::any(); let fl: usize = kani::any();
    kani::assume(pl <= 4 && fl <= 2);
    SealedToken { payload: pb[..pl].to_vec().into_boxed_slice(), encoded_footer: fb[..fl].to_vec().into_boxed_slice(), footer: AbsF(footer_id),
        _version: PhantomData, _purpose: PhantomData, _message: PhantomData }
}

/// [C12]/[C11] SealedToken::unseal for every behaviour of the version, payload decoder and validator
fn unseal_contract<P: version::Purpose>(which: u8) where AbsV: UnsealingVersion<P> + HasKey<P, Key = AKey> {
    let fid: u8 = kani::any();
    let tok = sealed_token::<P>(fid);
    let (p_id, f_id) = (id(&tok.payload), id(&tok.encoded_footer));
    let key = Key::<AbsV, P>(AKey(kani::any()));
    let kid = key.0 .0;
    let aadb: [u8; 2] = kani::any(); let al: usize = kani::any(); kani::assume(al <= 2);
    let aad = &aadb[..al];
    let r = match which {
        0 => tok.unseal(&key, aad, &AbsVal),
        _ => tok.unseal(&key, aad, &AbsVal),
    };
    let g = unsafe { G };
    let auth_ok = g.unseal_outcome == 5;
    let (res_ok, res_kind, claims_id, footer_id) = match &r { Ok(t) => (true, 9, t.claims.0, t.footer.0), Err(e) => (false, kind_of(e), 0, 0) };
    vcheck_all!(
        (g.unseal_calls == 1 && g.order[0] == EV_UNSEAL, "[C12] authentication (V::unseal) is the first thing that happens, exactly once"),
        (g.unseal_key == kid && g.unseal_payload == p_id && g.unseal_footer == f_id && g.unseal_aad == id(aad), "[C02] V::unseal receives exactly the token's payload and footer bytes, the caller's key and the caller's assertion"),
        (auth_ok || (g.decode_calls == 0 && g.validate_calls == 0), "[C12] a token that fails authentication is never decoded and never validated"),
        (auth_ok || (!res_ok && res_kind == g.unseal_outcome), "[C12] the error of a failed authentication is returned unchanged (its kind does not depend on the payload)"),
        (!auth_ok || (g.decode_calls == 1 && g.decode_arg == g.unseal_ret), "[C12] the decoder runs once, on exactly the authenticated cleartext"),
        (!(auth_ok && !g.decode_ok) || (!res_ok && res_kind == 5 && g.validate_calls == 0), "[C11] an undecodable payload is a PayloadError and is not validated"),
        (!(auth_ok && g.decode_ok) || (g.validate_calls == 1 && g.validate_arg == g.decode_id), "[C11] the validator runs exactly once, on the decoded claims"),
        (!(auth_ok && g.decode_ok && g.validate_outcome != 5) || (!res_ok && res_kind == g.validate_outcome), "[C11] claims a validator rejects are never returned; the validator's error is"),
        (res_ok == (auth_ok && g.decode_ok && g.validate_outcome == 5), "[C11] claims are released iff authentication, decoding and validation all succeed"),
        (!res_ok || (claims_id == g.decode_id && footer_id == fid), "[C01] the unsealed token carries the decoded claims and the token's footer"),
        (g.order_n <= 3 && (g.order_n < 2 || g.order[1] == EV_DECODE) && (g.order_n < 3 || g.order[2] == EV_VALIDATE), "[C12] order: authenticate, then decode, then validate"),
    );
    kani::cover!(res_ok, "an accepted token exists");
    kani::cover!(!auth_ok, "a token failing authentication exists");
}

/// [C01]/[C16] UnsealedToken::seal / dangerous_seal_with_nonce for every behaviour of the version, encoder and footer
fn seal_contract<P: version::Purpose>(own_nonce: bool) where AbsV: SealingVersion<P> + HasKey<P::SealingKey, Key = AKey> {
    let mid: u8 = kani::any(); let fid: u8 = kani::any();
    let tok = UnsealedToken::<AbsV, P, AbsM, ()>::new(AbsM(mid)).with_footer(AbsF(fid));
    let key = Key::<AbsV, P::SealingKey>(AKey(kani::any()));
    let kid = key.0 .0;
    let aadb: [u8; 2] = kani::any(); let al: usize = kani::any(); kani::assume(al <= 2);
    let aad = &aadb[..al];
    let given: [u8; 2] = kani::any(); let gl: usize = kani::any(); kani::assume(gl <= 2);
    let r = if own_nonce { tok.seal(&key, aad) } else { tok.dangerous_seal_with_nonce(&key, aad, given[..gl].to_vec()) };
    let g = unsafe { G };
    let (nonce_ok, nl, nb) = if own_nonce { (g.nonce_outcome == 5, g.nonce_len, g.nonce) } else { (true, gl, given) };
    let (res_ok, res_kind) = match &r { Ok(_) => (true, 9), Err(e) => (false, kind_of(e)) };
    let mut exp = [0u8; 4];
    let mut i = 0; while i < 2 { if i < nl { exp[i] = nb[i]; } i += 1; }
    let mut i = 0; while i < 2 { if i < g.enc_len { exp[nl + i] = g.enc[i]; } i += 1; }
    let payload_ok = g.seal_payload_len == nl + g.enc_len && g.seal_payload == exp;
    let footer_ok = g.seal_footer_len == g.fenc_len && (g.fenc_len < 1 || g.seal_footer[0] == g.fenc[0]) && (g.fenc_len < 2 || g.seal_footer[1] == g.fenc[1]);
    let (out_payload_ok, out_footer_ok, out_fid) = match &r {
        Ok(t) => (t.payload.len() == g.seal_ret_len && t.payload[..] == g.seal_ret[..g.seal_ret_len], t.encoded_footer.len() == g.fenc_len && t.encoded_footer[..] == g.fenc[..g.fenc_len], t.footer.0),
        Err(_) => (false, false, 0),
    };
    vcheck_all!(
        (g.nonce_calls == own_nonce as u8, "[C16] seal draws exactly one nonce from the version; dangerous_seal_with_nonce draws none"),
        (nonce_ok || (!res_ok && res_kind == g.nonce_outcome && g.seal_calls == 0), "[C16] a failing nonce source makes seal fail with that error and nothing is sealed"),
        (g.fenc_calls <= 1 && g.enc_calls <= 1, "[C01] footer and claims are each encoded at most once"),
        (!(g.fenc_calls == 1 && !g.fenc_ok) || (!res_ok && res_kind == 5 && g.seal_calls == 0), "[C01] a footer that cannot be encoded is a PayloadError and nothing is sealed"),
        (!(g.enc_calls == 1 && !g.enc_ok) || (!res_ok && res_kind == 5 && g.seal_calls == 0), "[C01] claims that cannot be encoded are a PayloadError and nothing is sealed"),
        (!(nonce_ok && g.fenc_calls == 1 && g.fenc_ok && g.enc_calls == 1 && g.enc_ok) || (g.seal_calls == 1 && g.seal_key == kid && payload_ok), "[C01] the version seals exactly nonce || encoded claims under the caller's key"),
        (!(g.seal_calls == 1) || (g.fenc_calls == 1 && g.fenc_ok && g.enc_calls == 1 && g.enc_ok && footer_ok && g.seal_aad == id(aad)), "[C02] the version is called only after both encodings succeeded and receives exactly the encoded footer and the caller's assertion"),
        (!(g.seal_calls == 1 && g.seal_outcome != 5) || (!res_ok && res_kind == g.seal_outcome), "[C01] a sealing error is returned unchanged"),
        (res_ok == (nonce_ok && g.fenc_calls == 1 && g.fenc_ok && g.enc_calls == 1 && g.enc_ok && g.seal_calls == 1 && g.seal_outcome == 5), "[C01] a sealed token is produced iff nonce, encodings and the version's seal all succeed"),
        (!res_ok || (out_payload_ok && out_footer_ok && out_fid == fid), "[C01] the sealed token holds exactly the version's output, the encoded footer and the footer value"),
    );
    kani::cover!(res_ok, "a successful seal exists");
    kani::cover!(!nonce_ok || !own_nonce, "a failing nonce source exists");
}

/// the six aliases pass an empty assertion / forward unchanged
fn alias_contract(which: u8) {
    let fid: u8 = kani::any();
    let mid: u8 = kani::any();
    let aadb: [u8; 2] = kani::any();
    let aad = &aadb[..];
    let key_l = Key::<AbsV, Local>(AKey(kani::any()));
    let key_p = Key::<AbsV, Public>(AKey(kani::any()));
    let key_s = Key::<AbsV, crate::version::Secret>(AKey(kani::any()));
    let res_ok = match which {
        0 => sealed_token::<Local>(fid).decrypt(&key_l, &AbsVal).is_ok(),
        1 => sealed_token::<Local>(fid).decrypt_with_aad(&key_l, aad, &AbsVal).is_ok(),
        2 => sealed_token::<Public>(fid).verify(&key_p, &AbsVal).is_ok(),
        3 => sealed_token::<Public>(fid).verify_with_aad(&key_p, aad, &AbsVal).is_ok(),
        4 => UnsealedToken::<AbsV, Local, AbsM, ()>::new(AbsM(mid)).with_footer(AbsF(fid)).encrypt(&key_l).is_ok(),
        5 => UnsealedToken::<AbsV, Local, AbsM, ()>::new(AbsM(mid)).with_footer(AbsF(fid)).encrypt_with_aad(&key_l, aad).is_ok(),
        6 => UnsealedToken::<AbsV, Public, AbsM, ()>::new(AbsM(mid)).with_footer(AbsF(fid)).sign(&key_s).is_ok(),
        _ => UnsealedToken::<AbsV, Public, AbsM, ()>::new(AbsM(mid)).with_footer(AbsF(fid)).sign_with_aad(&key_s, aad).is_ok(),
    };
    let g = unsafe { G };
    let with_aad = which % 2 == 1;
    let seen = if which < 4 { g.unseal_aad } else { g.seal_aad };
    let reached = if which < 4 { g.unseal_calls == 1 } else { g.seal_calls == 1 || !res_ok };
    let called = if which < 4 { g.unseal_calls == 1 } else { g.seal_calls == 1 };
    vcheck_all!(
        (which >= 4 || g.unseal_calls == 1, "[C02] decrypt/verify call the version's unseal exactly once"),
        (!called || if with_aad { seen == id(aad) } else { seen.1 == 0 }, "[C02] the *_with_aad forms pass the caller's assertion, the short forms an empty assertion"),
        (reached, "[C01] encrypt/sign reach the version's seal unless an earlier step failed"),
    );
}

macro_rules! inst { ($($name:ident = $e:expr;)*) => { $(
    #[kani::proof] #[kani::unwind(8)]
    pub fn $name() { $e; kani::cover!(true, "harness end reachable"); }
)* }; }
inst! {
    unseal_contract_local = unseal_contract::<Local>(0);
    unseal_contract_public = unseal_contract::<Public>(0);
    seal_contract_local_own_nonce = seal_contract::<Local>(true);
    seal_contract_public_own_nonce = seal_contract::<Public>(true);
    seal_contract_local_given_nonce = seal_contract::<Local>(false);
    alias_decrypt = alias_contract(0); alias_decrypt_with_aad = alias_contract(1); alias_verify = alias_contract(2); alias_verify_with_aad = alias_contract(3);
    alias_encrypt = alias_contract(4); alias_encrypt_with_aad = alias_contract(5); alias_sign = alias_contract(6); alias_sign_with_aad = alias_contract(7);
}
#[kani::proof] #[kani::unwind(8)]
pub fn canary_tokens() {
    let fid: u8 = kani::any();
    let tok = sealed_token::<Local>(fid);
    let key = Key::<AbsV, Local>(AKey(kani::any()));
    let r = tok.unseal(&key, &[], &AbsVal);
    vassert!(r.is_err(), "canary: must fail (some token is accepted by the abstract version)");
}
// @@PLAYBACK@@
