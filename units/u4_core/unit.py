from vrf.core import Unit, Harness

T = "paseto-core/src/tokens.rs"
V = "paseto-core/src/validation.rs"


def units():
    ft = [f"{T}::{f}" for f in ("unseal", "seal", "dangerous_seal_with_nonce", "decrypt", "decrypt_with_aad", "verify", "verify_with_aad", "encrypt", "encrypt_with_aad", "sign", "sign_with_aad")]
    ht = [
        Harness("unseal_contract_local", ["C12", "C11", "C02", "C01"], functions=ft, desc="SealedToken::unseal vs every behaviour of V::unseal / M::decode / validator (Local)"),
        Harness("unseal_contract_public", ["C12", "C11", "C02", "C01"], functions=ft, desc="same, Public"),
        Harness("seal_contract_local_own_nonce", ["C01", "C16", "C02"], functions=ft),
        Harness("seal_contract_public_own_nonce", ["C01", "C16", "C02"], functions=ft),
        Harness("seal_contract_local_given_nonce", ["C01", "C16", "C02"], functions=ft),
    ] + [Harness(f"alias_{n}", ["C02", "C01"], functions=ft) for n in ("decrypt", "decrypt_with_aad", "verify", "verify_with_aad", "encrypt", "encrypt_with_aad", "sign", "sign_with_aad")] + [
        Harness("canary_tokens", ["C12", "C11", "C01"], expect="fail"),
    ]
    fv = [f"{V}::{f}" for f in ("ValidateThen::validate", "Map::validate", "<[T]>::validate", "Vec<T>::validate", "Box<T>::validate", "Rc<T>::validate", "Arc<T>::validate", "NoValidation::validate", "and_then", "map")]
    hv = [
        Harness("and_then_exact", ["C11"], functions=fv),
        Harness("slice_and_vec_exact", ["C11"], complete=False, bound="slices of 0..=4 members (verdicts symbolic)", functions=fv),
        Harness("vec_exact", ["C11"], complete=False, bound="Vec of 3 members and the empty Vec", functions=fv),
        Harness("smart_pointers_transparent", ["C11"], functions=fv),
        Harness("map_projects", ["C11"], functions=fv),
        Harness("no_validation_accepts", ["C11"], functions=fv),
        Harness("depth3_expression", ["C11"], functions=fv),
        Harness("canary_validation", ["C11"], expect="fail"),
    ]
    common = dict(members=["paseto-core"], package="paseto-core", kani_flags=["--no-assertion-reach-checks"],
                  trusted=["alloc (Vec, Box, Rc, Arc) as compiled by Kani"])
    return [
        Unit(name="u4_tokens", inject=[(T, "units/u4_core/tokens.rs")], quick_cap=10, harness_path="tokens::verif", allow_unsafe=True, harnesses=ht,
             assumptions=["trait contracts: a version/payload/footer/validator implementation may return any result its signature allows (the abstract instance AbsV/AbsM/AbsF/AbsVal covers every backend)"],
             **common),
        Unit(name="u4_validation", inject=[(V, "units/u4_core/validation.rs")], quick_cap=10, harness_path="validation::verif", allow_unsafe=True, harnesses=hv,
             assumptions=["leaf validators are arbitrary (symbolic verdicts)"], **common),
    ]
