// U4 — validator combinators of paseto-core/src/validation.rs against leaf validators with symbolic verdicts that count
// their invocations. Oracle: Boolean algebra from the property statement (C11).
macro_rules! vassert { ($c:expr, $m:literal) => { kani::assert($c, $m) }; }
macro_rules! vcheck_all {
    ($( ($c:expr, $m:literal) ),+ $(,)?) => {{
        let conds = [$($c),+];
        let sel: u8 = kani::any();
        let mut k = 0u8;
        $( if sel == k { kani::assert(conds[k as usize], $m); } k += 1; )+
        let _ = k;
    }};
}
static mut CALLS: [u8; 6] = [0; 6];
static mut SEEN: [usize; 6] = [0; 6];
struct Claims { inner: Inner, tag: u8 }
struct Inner { v: u8 }
struct Leaf { id: usize, accept: bool }
impl Validate for Leaf {
    type Claims = Claims;
    fn validate(&self, c: &Claims) -> Result<(), PasetoError> {
        unsafe { CALLS[self.id] += 1; SEEN[self.id] = c as *const Claims as usize; }
        if self.accept { Ok(()) } else { Err(PasetoError::ClaimsError) }
    }
}
struct InnerLeaf { id: usize, accept: bool }
impl Validate for InnerLeaf {
    type Claims = Inner;
    fn validate(&self, c: &Inner) -> Result<(), PasetoError> {
        unsafe { CALLS[self.id] += 1; SEEN[self.id] = c as *const Inner as usize; }
        if self.accept { Ok(()) } else { Err(PasetoError::ClaimsError) }
    }
}
fn calls(i: usize) -> u8 { unsafe { CALLS[i] } }
fn seen(i: usize) -> usize { unsafe { SEEN[i] } }
fn claims() -> Claims { Claims { inner: Inner { v: kani::any() }, tag: kani::any() } }

#[kani::proof] #[kani::unwind(8)]
pub fn and_then_exact() {
    let (a, b): (bool, bool) = (kani::any(), kani::any());
    let c = claims();
    let v = Leaf { id: 0, accept: a }.and_then(Leaf { id: 1, accept: b });
    let r = v.validate(&c);
    vcheck_all!(
        (r.is_ok() == (a && b), "[C11] and_then accepts iff both validators accept"),
        (calls(0) == 1 && calls(1) == a as u8, "[C11] and_then runs the first validator once and the second only if the first accepted"),
        (seen(0) == &c as *const Claims as usize && (!a || seen(1) == seen(0)), "[C11] and_then validates the same claims with both"),
        (r.is_ok() || matches!(r, Err(PasetoError::ClaimsError)), "[C11] a rejecting member's claims error is returned"),
    );
}

#[kani::proof] #[kani::unwind(8)]
pub fn slice_and_vec_exact() {
    let acc: [bool; 4] = kani::any();
    let n: usize = kani::any();
    kani::assume(n <= 4);
    let c = claims();
    let all = [Leaf { id: 0, accept: acc[0] }, Leaf { id: 1, accept: acc[1] }, Leaf { id: 2, accept: acc[2] }, Leaf { id: 3, accept: acc[3] }];
    let r = all[..n].validate(&c);
    let mut expect = true; let mut i = 0;
    while i < 4 { if i < n { expect &= acc[i]; } i += 1; }
    // members after the first rejection are not consulted; members before are consulted exactly once
    let mut order_ok = true; let mut alive = true; let mut i = 0;
    while i < 4 { if i < n { order_ok &= calls(i) == alive as u8; alive &= acc[i]; } else { order_ok &= calls(i) == 0; } i += 1; }
    vcheck_all!(
        (r.is_ok() == expect, "[C11] a slice of validators accepts iff every member accepts (the empty slice accepts)"),
        (order_ok, "[C11] slice members run in order, each at most once, stopping at the first rejection"),
    );
    kani::cover!(n == 0); kani::cover!(n == 4 && expect);
}

#[kani::proof] #[kani::unwind(8)]
pub fn vec_exact() {
    let acc: [bool; 3] = kani::any();
    let c = claims();
    let v = alloc::vec![Leaf { id: 0, accept: acc[0] }, Leaf { id: 1, accept: acc[1] }, Leaf { id: 2, accept: acc[2] }];
    let r = v.validate(&c);
    let e: Vec<Leaf> = Vec::new();
    let re = e.validate(&c);
    vcheck_all!(
        (r.is_ok() == (acc[0] && acc[1] && acc[2]), "[C11] a Vec of validators accepts iff every member accepts"),
        (re.is_ok(), "[C11] the empty Vec accepts"),
    );
}

#[kani::proof] #[kani::unwind(8)]
pub fn smart_pointers_transparent() {
    let acc: [bool; 3] = kani::any();
    let c = claims();
    let b: Box<Leaf> = Box::new(Leaf { id: 0, accept: acc[0] });
    let rc: Rc<Leaf> = Rc::new(Leaf { id: 1, accept: acc[1] });
    let arc: Arc<Leaf> = Arc::new(Leaf { id: 2, accept: acc[2] });
    let (r0, r1, r2) = (b.validate(&c), rc.validate(&c), arc.validate(&c));
    let d: Box<dyn Validate<Claims = Claims>> = Box::new(Leaf { id: 3, accept: acc[0] });
    let r3 = d.validate(&c);
    vcheck_all!(
        (r0.is_ok() == acc[0] && calls(0) == 1, "[C11] Box<T> is transparent"),
        (r1.is_ok() == acc[1] && calls(1) == 1, "[C11] Rc<T> is transparent"),
        (r2.is_ok() == acc[2] && calls(2) == 1, "[C11] Arc<T> is transparent"),
        (r3.is_ok() == acc[0] && calls(3) == 1, "[C11] Box<dyn Validate> is transparent"),
    );
}

#[kani::proof] #[kani::unwind(8)]
pub fn map_projects() {
    let a: bool = kani::any();
    let c = claims();
    let v = InnerLeaf { id: 0, accept: a }.map(|x: &Claims| &x.inner);
    let r = v.validate(&c);
    vcheck_all!(
        (r.is_ok() == a && calls(0) == 1, "[C11] map accepts iff the inner validator accepts the projected value"),
        (seen(0) == &c.inner as *const Inner as usize, "[C11] map validates exactly the projection of the claims"),
    );
}

#[kani::proof] #[kani::unwind(8)]
pub fn no_validation_accepts() {
    let c = claims();
    let r = NoValidation::<Claims>::dangerous_no_validation().validate(&c);
    vassert!(r.is_ok(), "[C11] the no-validation validator accepts everything");
}

/// a depth-3 expression: ((a and_then [b, c]) and_then Box(d)) mapped through a projection
#[kani::proof] #[kani::unwind(8)]
pub fn depth3_expression() {
    struct Outer { c: Claims }
    let acc: [bool; 4] = kani::any();
    let o = Outer { c: claims() };
    let inner = Leaf { id: 0, accept: acc[0] }
        .and_then(alloc::vec![Leaf { id: 1, accept: acc[1] }, Leaf { id: 2, accept: acc[2] }])
        .and_then(Box::new(Leaf { id: 3, accept: acc[3] }));
    let v = inner.map(|x: &Outer| &x.c);
    let r = v.validate(&o);
    vassert!(r.is_ok() == (acc[0] && acc[1] && acc[2] && acc[3]), "[C11] a depth-3 combinator expression accepts iff every leaf accepts");
}

#[kani::proof] #[kani::unwind(8)]
pub fn canary_validation() {
    let a: bool = kani::any();
    let c = claims();
    let r = Leaf { id: 0, accept: a }.and_then(Leaf { id: 1, accept: true }).validate(&c);
    vassert!(r.is_err(), "canary: must fail");
}
// @@PLAYBACK@@
