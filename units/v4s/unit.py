"""Units for paseto-v4-sodium (PASETO v4 / PASERK k4 on libsodium-rs). Same structure, obligations and oracle (vspec::v4) as
units/v4; the single third-party dependency is swapped for models/libsodium-rs. See units/v4s/NOTES.md."""
from vrf.core import Unit, Harness

MODELS = {"libsodium-rs": "models/libsodium-rs"}
PKG = "paseto-v4-sodium"
DEPS = {f"{PKG}/Cargo.toml": ['vspec = { path = "../verif-models/vspec" }', 'vmodel-core = { path = "../verif-models/vmodel-core" }']}
TRUSTED = ["zerocopy (real crate, compiled by Kani)", "std / alloc (Vec, slice splitting) as compiled by Kani"]
FLAGS = ["-Z", "stubbing", "--no-assertion-reach-checks"]

A_HASH = "BLAKE2b (crypto_generichash, keyed and unkeyed) is a deterministic collision-free uninterpreted function of (key, message, output length) [ideal MAC/hash] — the same function as models/blake2"
A_STREAM = "XChaCha20 (crypto_stream_xchacha20_xor) is XOR with a deterministic uninterpreted keystream of (key, nonce, position) — the same function as models/chacha20"
A_RNG = ("libsodium randombytes is infallible by API: every draw fills the buffer with arbitrary bytes; a failing OS source aborts the process "
         "inside libsodium (sodium_misuse), so the 'RNG failed => Err' branch does not exist for this backend")
A_CMP = "utils::compare is the literal sodium_compare over min(|a|,|b|) bytes (0 iff those bytes are equal)"
A_PAE = "pre_auth_encode is replaced by its contract (proved in unit u1_pae)"
A_SIG = ("Ed25519: seed expansion and public-key derivation are injective uninterpreted functions; signing is a deterministic collision-free "
         "uninterpreted function of (public key, hash prefix, message); IDEAL SIGNATURE: verify(pk, M, sig) holds iff sig was produced by the "
         "signing function for exactly (pk, M); a signature made with a public half that does not belong to the seed verifies under no key; "
         "crypto_sign::{PublicKey,SecretKey}::from_bytes check the length only (as the real wrapper)")
A_X = ("Ed25519->X25519 conversion is an injective uninterpreted function defined on valid points (uninterpreted validity predicate, true for every "
       "derived public key); X25519 is a commutative uninterpreted function of the two public points; crypto_scalarmult rejects exactly "
       "libsodium's 7 small-order encodings; crypto_box key generation clamps as X25519 does")
A_PW = "Argon2id (crypto_pwhash) is a collision-free uninterpreted function of (password, salt, floor(mem/1024) KiB, ops, 1 lane) after libsodium's argument checks; cost is not modelled"

L = f"{PKG}/src/core/local.rs"
M = f"{PKG}/src/core/mod.rs"


def mk(name, file, srcs, hs, assume, hpath):
    return Unit(
        name=name, members=["paseto-core", PKG], package=PKG,
        inject=[(file, ["units/common/pae_stub.rs"] + srcs)],
        patches=MODELS, harness_path=hpath, kani_flags=FLAGS,
        dev_deps=DEPS, harnesses=hs, assumptions=assume, trusted=TRUSTED,
    )


def unit_local():
    fl = [f"{L}::{f}" for f in ("dangerous_seal_with_nonce", "unseal", "keys", "preauth_local", "nonce")] + [f"{M}::kdf"]
    hs = [
        Harness("seal_is_spec_0_0_0", ["C03", "C01"], complete=False, bound="|m|=0,|f|=0,|a|=0; contents symbolic", functions=fl),
        Harness("seal_is_spec_1_0_0", ["C03", "C01"], complete=False, bound="|m|=1,|f|=0,|a|=0; contents symbolic", functions=fl),
        Harness("seal_is_spec_3_2_1", ["C03", "C01"], complete=False, bound="|m|=3,|f|=2,|a|=1; contents symbolic", functions=fl),
        Harness("unseal_accepts_spec_0_0_0", ["C03", "C01"], complete=False, bound="|m|=0,|f|=0,|a|=0", functions=fl),
        Harness("unseal_accepts_spec_3_2_1", ["C03", "C01"], complete=False, bound="|m|=3,|f|=2,|a|=1", functions=fl),
        Harness("roundtrip_own_nonce_1_1_1", ["C01", "C16"], complete=False, bound="|m|=1,|f|=1,|a|=1", functions=fl),
        Harness("roundtrip_own_nonce_0_0_0", ["C01", "C16"], complete=False, bound="|m|=0,|f|=0,|a|=0", functions=fl),
        Harness("unseal_rejects_tamper_0_0_0", ["C02", "C12"], complete=False, bound="|m|=0,|f|=0,|a|=0; flip position and bit symbolic", functions=fl, timeout=1800),
        Harness("unseal_rejects_tamper_1_1_1", ["C02", "C12"], complete=False, bound="|m|=1,|f|=1,|a|=1; flip position and bit symbolic", functions=fl, timeout=1800),
        Harness("unseal_rejects_boundary_shift_1", ["C02"], complete=False, bound="|m|=1, footer+assertion 2 bytes", functions=fl),
        Harness("canary_wrong_aad_1", ["C01", "C02", "C03", "C12"], expect="fail"),
        Harness("local_key_codec_h", ["C08", "C10", "C04"], complete=False, bound="key byte strings of length 0..=40", functions=[f"{L}::decode", f"{L}::encode"]),
        Harness("local_key_random_h", ["C16"], functions=[f"{L}::random"]),
        Harness("nonce_fail_closed_h", ["C16"], functions=[f"{L}::nonce"]),
    ]
    for n in (0, 31, 63, 64, 66):
        hs.append(Harness(f"unseal_short_{n}", ["C04", "C12"], complete=False, bound=f"payload length {n}", functions=[f"{L}::unseal"]))
    return mk("v4s_local", L, ["units/v4s/local.rs"], hs, [A_HASH, A_STREAM, A_RNG, A_CMP, A_PAE], "core::local::verif")


P = f"{PKG}/src/core/public.rs"


def unit_public():
    fp = [f"{P}::{f}" for f in ("dangerous_seal_with_nonce", "unseal", "preauth_public", "nonce", "unsealing_key")]
    fk = [f"{P}::{f}" for f in ("decode", "encode", "unsealing_key", "random")]
    b = "contents symbolic; "
    hs = [
        Harness("sign_is_spec_0_0_0", ["C03", "C01"], complete=False, bound=b + "|m|=0,|f|=0,|a|=0", functions=fp),
        Harness("sign_is_spec_3_2_1", ["C03", "C01"], complete=False, bound=b + "|m|=3,|f|=2,|a|=1", functions=fp),
        Harness("verify_accepts_spec_0_0_0", ["C03", "C01", "C08"], complete=False, bound=b + "|m|=0,|f|=0,|a|=0", functions=fp),
        Harness("verify_accepts_spec_3_2_1", ["C03", "C01", "C08"], complete=False, bound=b + "|m|=3,|f|=2,|a|=1", functions=fp),
        Harness("roundtrip_own_nonce_1_1_1", ["C01"], complete=False, bound=b + "|m|=1,|f|=1,|a|=1", functions=fp),
        Harness("verify_rejects_tamper_0_0_0", ["C02", "C12"], complete=False, bound=b + "|m|=0,|f|=0,|a|=0; flip position/bit symbolic", functions=fp, timeout=1800),
        Harness("verify_rejects_tamper_1_1_1", ["C02", "C12"], complete=False, bound=b + "|m|=1,|f|=1,|a|=1; flip position/bit symbolic", functions=fp, timeout=1800),
        Harness("verify_rejects_boundary_shift_1", ["C02"], complete=False, bound="|m|=1, footer+assertion 2 bytes", functions=fp),
        Harness("canary_inputs_1", ["C01", "C02", "C03", "C08", "C12"], expect="fail"),
        Harness("public_key_codec_h", ["C08", "C10", "C04"], complete=False, bound="key byte strings of length 0..=40", functions=fk),
        Harness("public_key_valid_point_h", ["C08"], functions=fk, desc="off-curve encodings are rejected / valid points accepted (uninterpreted validity predicate shared with the sibling)"),
        Harness("secret_key_codec_h", ["C08", "C10", "C04"], complete=False, bound="key byte strings of length 0..=66", functions=fk),
        Harness("secret_key_signs_verifiably_1", ["C08", "C01"], complete=False, bound="every 64-byte string offered as a secret key; |m|=1", functions=fk + fp),
        Harness("secret_key_random_h", ["C16", "C08"], functions=fk),
    ]
    for n in (0, 63, 64, 66):
        hs.append(Harness(f"verify_short_{n}", ["C04", "C12"], complete=False, bound=f"payload length {n}", functions=[f"{P}::unseal"]))
    return mk("v4s_public", P, ["units/v4s/public.rs"], hs, [A_SIG, A_RNG, A_PAE], "core::public::verif")


PIE = f"{PKG}/src/core/pie_wrap.rs"


def unit_pie():
    fw = [f"{PIE}::{f}" for f in ("pie_wrap_key", "pie_unwrap_key", "wrap_keys", "auth")] + [f"{M}::kdf"]
    b = "contents symbolic; "
    hs = [
        Harness("wrap_is_spec_32", ["C07", "C05", "C16"], complete=False, bound=b + "header .local-wrap.pie., 32-byte key", functions=fw),
        Harness("wrap_is_spec_64", ["C07", "C05", "C16"], complete=False, bound=b + "header .secret-wrap.pie., 64-byte key", functions=fw),
        Harness("unwrap_accepts_spec_32", ["C07", "C05"], complete=False, bound=b + "header .local-wrap.pie., 32-byte key", functions=fw),
        Harness("unwrap_accepts_spec_64", ["C07", "C05"], complete=False, bound=b + "header .secret-wrap.pie., 64-byte key", functions=fw),
        Harness("roundtrip_32", ["C05", "C16"], complete=False, bound=b + "header .local-wrap.pie., 32-byte key", functions=fw),
        Harness("roundtrip_64", ["C05", "C16"], complete=False, bound=b + "header .secret-wrap.pie., 64-byte key", functions=fw),
        Harness("unwrap_rejects_tamper_32", ["C06", "C10"], complete=False, bound=b + "32-byte key; flip position/bit symbolic over the whole blob; other key; relabel", functions=fw, timeout=1800),
        Harness("unwrap_rejects_tamper_64", ["C06", "C10"], complete=False, bound=b + "64-byte key; flip position/bit symbolic over the whole blob; other key; relabel", functions=fw, timeout=1800),
        Harness("wrap_fail_closed_h", ["C16"], functions=fw),
        Harness("canary_inputs_h", ["C05", "C06", "C07", "C16"], expect="fail"),
    ]
    for n in (0, 31, 63, 64, 66):
        hs.append(Harness(f"unwrap_short_{n}", ["C04"], complete=False, bound=f"blob length {n}", functions=[f"{PIE}::pie_unwrap_key"]))
    return mk("v4s_pie", PIE, ["units/v4s/pie.rs"], hs, [A_HASH, A_STREAM, A_RNG, A_CMP], "core::pie_wrap::verif")


PW = f"{PKG}/src/core/pw_wrap.rs"


def unit_pbkw():
    fn = [f"{PW}::{f}" for f in ("pw_wrap_key", "pw_unwrap_key", "get_params", "wrap_keys", "kdf", "auth")]
    byc = " (wrap_keys by its contract, proved in wrap_keys_contract_h)"
    hs = [Harness("wrap_keys_contract_h", ["C07", "C04"], complete=False, bound="ALL parameter blocks, salts, 2-byte passwords", functions=[f"{PW}::wrap_keys", f"{PW}::kdf"],
                  desc="the REAL wrap_keys: acceptance set, error kinds, key derivation == specification"),
          Harness("params_acceptance_is_spec_h", ["C07", "C05"], complete=False, bound="ALL parameter blocks, salts, 2-byte passwords", functions=[f"{PW}::wrap_keys"],
                  desc="the REAL wrap_keys accepts exactly the specification-valid parameter blocks (same rule as the sibling's pbkdf_contract_h)"),
          Harness("wrap_is_spec_32_default", ["C07", "C05", "C16"], complete=False, bound="local key, default parameters (64 MiB, 2, 1), 2-byte password" + byc, functions=fn),
          Harness("wrap_is_spec_64_custom", ["C07", "C05", "C16"], complete=False, bound="secret key, mem=8MiB,time=3,para=1, 1-byte password" + byc, functions=fn),
          Harness("wrap_is_spec_32_memfloor", ["C07", "C05"], complete=False, bound="local key, mem=8MiB+1023 bytes,time=2,para=1" + byc, functions=fn,
                  desc="memory cost that is not a multiple of 1024 bytes: floor(mem/1024) KiB as in the specification's Argon2id call"),
          Harness("unwrap_accepts_spec_32_memfloor", ["C07", "C05"], complete=False, bound="local key, mem=8MiB+1023 bytes,time=2,para=1; salt, nonce symbolic" + byc, functions=fn)]
    for k in (32, 64):
        b = f"wrapped key length {k}; contents, salt, nonce symbolic" + byc
        hs += [Harness(f"unwrap_accepts_spec_{k}", ["C07", "C05"], complete=False, bound=b, functions=fn),
               Harness(f"roundtrip_{k}", ["C05"], complete=False, bound=b, functions=fn),
               Harness(f"unwrap_rejects_tamper_{k}", ["C06", "C10"], complete=False, bound=b + "; flip position/bit symbolic", functions=fn, timeout=1800)]
    for n in (0, 55, 56, 87):
        hs.append(Harness(f"unwrap_short_{n}", ["C04", "C06"], complete=False, bound=f"blob length {n}, all parameter blocks", functions=fn))
    for n in (88, 121):
        hs.append(Harness(f"unwrap_len_{n}", ["C04", "C06"], complete=False, bound=f"blob length {n}, all ACCEPTED parameter blocks" + byc, functions=fn))
    hs += [Harness("wrap_fail_closed_h", ["C16"], functions=fn), Harness("canary_inputs_h", ["C05", "C06", "C07"], expect="fail")]
    return mk("v4s_pbkw", PW, ["units/v4s/pbkw.rs"], hs, [A_PW, A_HASH, A_STREAM, A_RNG, A_CMP], "core::pw_wrap::verif")


PKE = f"{PKG}/src/core/pke.rs"


def unit_pke():
    fn = [f"{PKE}::{f}" for f in ("seal_key", "unseal_key", "encode", "decode")]
    hs = [Harness("seal_is_spec_h", ["C07", "C05", "C16"], functions=fn), Harness("unseal_accepts_spec_h", ["C07", "C05"], functions=fn),
          Harness("roundtrip_h", ["C05", "C16"], functions=fn), Harness("unseal_rejects_tamper_h", ["C06"], functions=fn, timeout=1800),
          Harness("any_accepted_key_is_usable_h", ["C04"], functions=fn, desc="sealing to every public key the decoder accepts (any 32 bytes): blob or CryptoError, no panic"),
          Harness("any_accepted_secret_key_is_usable_h", ["C04"], functions=fn, desc="unsealing any 96-byte blob with every secret key the decoder accepts (any 64 bytes): key or CryptoError, no panic"),
          Harness("seal_fail_closed_h", ["C16"], functions=fn), Harness("pke_key_codec_h", ["C08", "C10"], functions=fn),
          Harness("canary_inputs_h", ["C05", "C06", "C07"], expect="fail")]
    for n in (0, 31, 64, 95, 96, 97):
        hs.append(Harness(f"unseal_len_{n}", ["C04", "C06"], complete=False, bound=f"blob length {n}", functions=fn))
    return mk("v4s_pke", PKE, ["units/v4s/pke.rs"], hs, [A_X, A_SIG, A_HASH, A_STREAM, A_RNG, A_CMP], "core::pke::verif")


def unit_id():
    fn = [f"{M}::hash_key"]
    hs = [Harness("id_is_spec_10", ["C13"], complete=False, bound="PASERK text of 10 bytes", functions=fn),
          Harness("id_is_spec_1", ["C13"], complete=False, bound="PASERK text of 1 byte", functions=fn),
          Harness("id_domain_separated_h", ["C13"], complete=False, bound="PASERK text of 10 bytes", functions=fn),
          Harness("canary_inputs_h", ["C13"], expect="fail")]
    return mk("v4s_id", M, ["units/v4s/id.rs"], hs, [A_HASH], "core::verif")


def units():
    return [unit_local(), unit_public(), unit_pie(), unit_pbkw(), unit_pke(), unit_id()]
