// U8 (v4-sodium, PASERK k4 PIE wrap) — appended to paseto-v4-sodium/src/core/pie_wrap.rs. Real crate; libsodium-rs replaced by the
// assumed-contract model models/libsodium-rs. Oracle: vspec::v4::pie_wrap (paserk operations/Wrap/pie.md), the same function the
// RustCrypto sibling is checked against. Headers are the two values paseto-core passes (SealingKey::PIE_WRAP_HEADER); wrapped key
// lengths are the two that exist (32-byte local key, 64-byte secret key).
use paseto_core::PasetoError as PE;

const HL: &str = ".local-wrap.pie.";
const HS: &str = ".secret-wrap.pie.";
fn hdr(secret: bool) -> &'static str { if secret { HS } else { HL } }

/// over-allocated buffers, sliced to the concrete length of the instance (no zero-sized objects)
const KX: usize = 64;
const BX: usize = 64 + KX;

/// [C07] wrap == spec blob for the nonce this call drew, [C05] fixed length, [C16] the nonce is this call's single draw
pub fn wrap_is_spec(secret: bool, K: usize) {
    let B = 64 + K;
    let wk: [u8; 32] = kani::any();
    let kb: [u8; KX] = kani::any();
    let ptk = &kb[..K];
    vmodel_core::rng_may_fail(false);
    let r = <V4 as PieWrapVersion>::pie_wrap_key(hdr(secret), &LocalKey(wk), ptk.to_vec());
    let ok = r.is_ok();
    let out = r.unwrap_or_default();
    let d = vmodel_core::rng_draw(0);
    let one_draw = vmodel_core::rng_draws() == 1 && d.len == 32;
    let mut n = [0u8; 32];
    n.copy_from_slice(&d.bytes[..32]);
    let mut specb = [0u8; BX];
    let spec = &mut specb[..B];
    vspec::v4::pie_wrap(hdr(secret).as_bytes(), &wk, &n, ptk, spec);
    vcheck_all!(
        (ok, "[C05] PIE-wrapping a key always succeeds"),
        (!ok || out.len() == B, "[C05] a PIE-wrapped key is tag(32) + nonce(32) + |key| bytes long"),
        (one_draw, "[C16] one 32-byte RNG draw per wrap"),
        (!ok || out.len() != B || out[32..64] == n[..], "[C16] the blob carries exactly this call's drawn nonce"),
        (!ok || out[..] == spec[..], "[C07] the PIE-wrapped key equals the specification's blob for the drawn nonce"),
    );
}

/// [C07]/[C05] unwrap accepts the specification's blob and returns exactly the wrapped key
pub fn unwrap_accepts_spec(secret: bool, K: usize) {
    let B = 64 + K;
    let wk: [u8; 32] = kani::any();
    let n: [u8; 32] = kani::any();
    let kb: [u8; KX] = kani::any();
    let ptk = &kb[..K];
    let mut blobb = [0u8; BX];
    let blob = &mut blobb[..B];
    vspec::v4::pie_wrap(hdr(secret).as_bytes(), &wk, &n, ptk, blob);
    let r = <V4 as PieWrapVersion>::pie_unwrap_key(hdr(secret), &LocalKey(wk), blob);
    let ok = r.is_ok();
    let same = match r { Ok(k) => k == ptk, Err(_) => false };
    vcheck_all!(
        (ok, "[C07] every specification-conforming PIE blob is accepted"),
        (!ok || same, "[C05] unwrap returns exactly the wrapped key bytes"),
    );
}

/// [C05]/[C16] wrap with the library's own nonce, then unwrap: identity; the blob carries this call's draw
pub fn roundtrip(secret: bool, K: usize) {
    let B = 64 + K;
    let wk: [u8; 32] = kani::any();
    let kb: [u8; KX] = kani::any();
    let ptk = &kb[..K];
    vmodel_core::rng_may_fail(false);
    let r = <V4 as PieWrapVersion>::pie_wrap_key(hdr(secret), &LocalKey(wk), ptk.to_vec());
    let ok = r.is_ok();
    let mut out = r.unwrap_or_default();
    let d = vmodel_core::rng_draw(0);
    let fresh = vmodel_core::rng_draws() == 1 && d.len == 32 && out.len() == B && out[32..64] == d.bytes[..32];
    let u = <V4 as PieWrapVersion>::pie_unwrap_key(hdr(secret), &LocalKey(wk), &mut out);
    let same = match u { Ok(k) => k == ptk, Err(_) => false };
    vcheck_all!(
        (ok, "[C05] PIE-wrapping a key always succeeds"),
        (!ok || fresh, "[C16] the blob carries exactly this call's single 32-byte RNG draw as nonce"),
        (!ok || same, "[C05] wrap, then unwrap with the same wrapping key and header, returns the original key"),
    );
}

/// [C06] any single flipped bit of the blob (tag, nonce, ciphertext), another wrapping key, header relabel local<->secret => Err,
/// reported as CryptoError, and nothing is decrypted before authentication (buffer untouched)
pub fn unwrap_rejects_tamper(secret: bool, K: usize) {
    let B = 64 + K;
    let wk: [u8; 32] = kani::any();
    let n: [u8; 32] = kani::any();
    let kb: [u8; KX] = kani::any();
    let ptk = &kb[..K];
    let mut blobb = [0u8; BX];
    let blob = &mut blobb[..B];
    vspec::v4::pie_wrap(hdr(secret).as_bytes(), &wk, &n, ptk, blob);
    let mut wk2 = wk;
    let which: u8 = kani::any();
    let idx: usize = kani::any();
    let bit: u8 = kani::any();
    kani::assume(bit < 8);
    kani::assume(which < 3);
    let mut relabel = false;
    match which {
        0 => { kani::assume(idx < B); blob[idx] ^= 1 << bit; }
        1 => { kani::assume(idx < 32); wk2[idx] ^= 1 << bit; }
        _ => { relabel = true; }
    }
    let mut beforeb = [0u8; BX];
    beforeb[..B].copy_from_slice(blob);
    let h2 = if relabel { hdr(!secret) } else { hdr(secret) };
    let r = <V4 as PieWrapVersion>::pie_unwrap_key(h2, &LocalKey(wk2), blob);
    let rejected = r.is_err();
    let kind_ok = matches!(r, Err(PE::CryptoError));
    let untouched = blob[..] == beforeb[..B];
    vcheck_all!(
        (rejected, "[C06] a PIE blob with any single flipped bit, another wrapping key or a relabelled header (local<->secret) is rejected"),
        (!rejected || kind_ok, "[C06] an authentication failure is reported as CryptoError"),
        (!rejected || untouched, "[C06] nothing is decrypted before authentication succeeds (blob untouched on failure)"),
    );
    kani::cover!(which == 0, "blob bit flip explored");
    kani::cover!(which == 1, "other wrapping key explored");
    kani::cover!(which == 2, "header relabel explored");
}

/// [C04] every blob length around the minimum: no panic; shorter than tag+nonce => InvalidKey
pub fn unwrap_short(L: usize) {
    let wk: [u8; 32] = kani::any();
    let mut pb: [u8; BX] = kani::any();
    let r = <V4 as PieWrapVersion>::pie_unwrap_key(HL, &LocalKey(wk), &mut pb[..L]);
    if L < 64 {
        vassert!(matches!(r, Err(PE::InvalidKey)), "[C04] a too-short PIE blob is InvalidKey, independent of its bytes");
    } else {
        vassert!(matches!(r, Err(PE::CryptoError)) || r.is_ok(), "[C04] error kind for a full-length PIE blob is CryptoError");
    }
}

/// [C16] libsodium's randombytes is infallible by API (a failing OS source aborts inside libsodium; the model terminates the path):
/// whenever wrap returns, the draw succeeded and the blob carries exactly the drawn nonce — no default / partially filled nonce
pub fn wrap_fail_closed() {
    let wk: [u8; 32] = kani::any();
    let kb: [u8; 32] = kani::any();
    vmodel_core::rng_may_fail(true);
    let r = <V4 as PieWrapVersion>::pie_wrap_key(HL, &LocalKey(wk), kb.to_vec());
    let all_ok = vmodel_core::rng_all_ok();
    let d = vmodel_core::rng_draw(0);
    let ok = r.is_ok();
    let out = r.unwrap_or_default();
    vcheck_all!(
        (all_ok, "[C16] PIE wrap returns only when every RNG draw succeeded"),
        (!ok || (vmodel_core::rng_draws() == 1 && d.len == 32 && out.len() == 96 && out[32..64] == d.bytes[..32]), "[C16] a returned blob carries exactly this call's drawn nonce"),
    );
    kani::cover!(all_ok && ok);
}

/// canary (vacuity guard): a false claim about the symbolic inputs after a full spec wrap + real wrap + real unwrap
pub fn canary_inputs() {
    let wk: [u8; 32] = kani::any();
    let n: [u8; 32] = kani::any();
    let kb: [u8; 32] = kani::any();
    let mut blob = [0u8; 96];
    vspec::v4::pie_wrap(HL.as_bytes(), &wk, &n, &kb, &mut blob);
    vmodel_core::rng_may_fail(false);
    let _ = <V4 as PieWrapVersion>::pie_wrap_key(HL, &LocalKey(wk), kb.to_vec());
    let _ = <V4 as PieWrapVersion>::pie_unwrap_key(HL, &LocalKey(wk), &mut blob);
    vassert!(wk[0] != 0x5a || n[31] != 0xa5, "canary: must fail (false claim about the symbolic inputs)");
}

macro_rules! inst {
    ($($name:ident = $f:ident($($g:literal),*);)*) => { $(
        #[kani::proof] #[kani::unwind(180)]
        pub fn $name() { $f($($g),*); kani::cover!(true, "harness end reachable"); }
    )* };
}
inst! {
    wrap_is_spec_32 = wrap_is_spec(false, 32);
    wrap_is_spec_64 = wrap_is_spec(true, 64);
    unwrap_accepts_spec_32 = unwrap_accepts_spec(false, 32);
    unwrap_accepts_spec_64 = unwrap_accepts_spec(true, 64);
    roundtrip_32 = roundtrip(false, 32);
    roundtrip_64 = roundtrip(true, 64);
    unwrap_rejects_tamper_32 = unwrap_rejects_tamper(false, 32);
    unwrap_rejects_tamper_64 = unwrap_rejects_tamper(true, 64);
    unwrap_short_0 = unwrap_short(0); unwrap_short_31 = unwrap_short(31); unwrap_short_63 = unwrap_short(63);
    unwrap_short_64 = unwrap_short(64); unwrap_short_66 = unwrap_short(66);
    wrap_fail_closed_h = wrap_fail_closed();
    canary_inputs_h = canary_inputs();
}
// @@PLAYBACK@@
