// U7 (v4-sodium, local purpose) — appended to paseto-v4-sodium/src/core/local.rs. Real crate; libsodium-rs replaced by the
// assumed-contract model models/libsodium-rs (-> vmodel-core), pre_auth_encode replaced by its contract.
// Same obligations and the same oracle (vspec::v4) as units/v4/local.rs: agreement with the RustCrypto sibling is a corollary.
use paseto_core::version::{SealingVersion, UnsealingVersion};
use paseto_core::PasetoError as PE;

const TAG: usize = 32;
const NONCE: usize = 32;

/// Lengths are *concrete* per harness instance (literals), contents symbolic. Buffers are over-allocated and sliced so that
/// no zero-sized object is ever created (CBMC loses constant lengths behind pointers to zero-sized objects).
const MX: usize = 4;
const TX: usize = NONCE + MX + TAG;

fn payload_of(nonce: &[u8], msg: &[u8]) -> Vec<u8> {
    let mut p = Vec::with_capacity(NONCE + msg.len() + TAG);
    p.extend_from_slice(nonce);
    p.extend_from_slice(msg);
    p
}

/// [C03] dangerous_seal_with_nonce == spec token byte for byte; [C01] length
pub fn seal_is_spec(M: usize, F: usize, A: usize) {
    let T = NONCE + M + TAG;
    let key: [u8; 32] = kani::any();
    let nonce: [u8; 32] = kani::any();
    let msgb: [u8; MX] = kani::any();
    let msg = &msgb[..M];
    let fb: [u8; MX] = kani::any();
    let f = &fb[..F];
    let ab: [u8; MX] = kani::any();
    let a = &ab[..A];
    let mut specb = [0u8; TX];
    let spec = &mut specb[..T];
    vspec::v4::local_encrypt(&key, &nonce, msg, b"", f, a, spec);
    let r = <V4 as SealingVersion<Local>>::dangerous_seal_with_nonce(&LocalKey(key), "", payload_of(&nonce, msg), f, a);
    let ok = r.is_ok();
    let out = r.unwrap_or_default();
    vcheck_all!(
        (ok, "[C01] sealing with a 32-byte nonce always succeeds"),
        (!ok || out.len() == T, "[C01] sealed payload length is |nonce| + |message| + |tag|"),
        (!ok || out[..] == spec[..], "[C03] v4.local seal output equals the specification's token for this nonce"),
    );
}

/// [C03]/[C01] unseal accepts the specification's token and returns exactly the message
pub fn unseal_accepts_spec(M: usize, F: usize, A: usize) {
    let T = NONCE + M + TAG;
    let key: [u8; 32] = kani::any();
    let nonce: [u8; 32] = kani::any();
    let msgb: [u8; MX] = kani::any();
    let msg = &msgb[..M];
    let fb: [u8; MX] = kani::any();
    let f = &fb[..F];
    let ab: [u8; MX] = kani::any();
    let a = &ab[..A];
    let mut tokb = [0u8; TX];
    let tok = &mut tokb[..T];
    vspec::v4::local_encrypt(&key, &nonce, msg, b"", f, a, tok);
    let r = <V4 as UnsealingVersion<Local>>::unseal(&LocalKey(key), "", tok, f, a);
    let ok = r.is_ok();
    let same = match r { Ok(m) => m == msg, Err(_) => false };
    vcheck_all!(
        (ok, "[C03] every specification-conforming v4.local token is accepted"),
        (!ok || same, "[C01] unseal returns exactly the sealed message"),
    );
}

/// [C01]/[C16] the library's own nonce(): seal . unseal == id; the token carries exactly this call's draw
pub fn roundtrip_own_nonce(M: usize, F: usize, A: usize) {
    let key: [u8; 32] = kani::any();
    let msgb: [u8; MX] = kani::any();
    let msg = &msgb[..M];
    let fb: [u8; MX] = kani::any();
    let f = &fb[..F];
    let ab: [u8; MX] = kani::any();
    let a = &ab[..A];
    vmodel_core::rng_may_fail(false);
    let n = <V4 as SealingVersion<Local>>::nonce();
    let n_ok = n.is_ok();
    let mut p = n.unwrap_or_default();
    let d = vmodel_core::rng_draw(0);
    let plen = p.len();
    let fresh = vmodel_core::rng_draws() == 1 && d.len == plen && plen <= vmodel_core::DRAW_CAP && p[..] == d.bytes[..plen];
    p.extend_from_slice(msg);
    let sealed = <V4 as SealingVersion<Local>>::dangerous_seal_with_nonce(&LocalKey(key), "", p, f, a);
    let s_ok = sealed.is_ok();
    let mut tok = sealed.unwrap_or_default();
    let nonce_kept = tok.len() >= plen && plen <= vmodel_core::DRAW_CAP && tok[..plen] == d.bytes[..plen];
    let r = <V4 as UnsealingVersion<Local>>::unseal(&LocalKey(key), "", &mut tok, f, a);
    let same = match r { Ok(m) => m == msg, Err(_) => false };
    vcheck_all!(
        (n_ok, "[C16] nonce() succeeds when every RNG draw succeeds"),
        (fresh, "[C16] the nonce is exactly the bytes of this call's single RNG draw"),
        (s_ok, "[C01] sealing with the library's own nonce succeeds"),
        (!s_ok || nonce_kept, "[C16] the token carries this call's nonce"),
        (!s_ok || same, "[C01] seal with the library's own nonce, then unseal, returns the original message"),
    );
}

/// [C16] libsodium's randombytes is infallible by API: a failing OS source aborts the process inside libsodium (the model
/// terminates the path). Decided here: nonce() has no error path, and whenever it returns, every draw succeeded and the nonce is
/// exactly this call's single 32-byte draw (no default / partially filled / cached nonce).
pub fn nonce_fail_closed() {
    vmodel_core::rng_may_fail(true);
    let n = <V4 as SealingVersion<Local>>::nonce();
    let all_ok = vmodel_core::rng_all_ok();
    let draws = vmodel_core::rng_draws();
    let d = vmodel_core::rng_draw(0);
    let n_ok = n.is_ok();
    let p = n.unwrap_or_default();
    let exact = p.len() == 32 && d.len == 32 && p[..] == d.bytes[..32];
    vcheck_all!(
        (all_ok, "[C16] nonce() returns only when every RNG draw succeeded (no default / partially filled nonce)"),
        (n_ok, "[C16] nonce() has no error path for this backend (RNG failure aborts inside libsodium)"),
        (draws == 1 && exact, "[C16] the nonce is exactly the 32 bytes of this call's single RNG draw"),
    );
    kani::cover!(all_ok);
}

/// [C02]/[C12] any single-bit flip of the token, any change of footer / assertion, any other key => Err, payload untouched
pub fn unseal_rejects_tamper(M: usize, F: usize, A: usize) {
    let T = NONCE + M + TAG;
    let key: [u8; 32] = kani::any();
    let nonce: [u8; 32] = kani::any();
    let msgb: [u8; MX] = kani::any();
    let msg = &msgb[..M];
    let fb: [u8; MX] = kani::any();
    let f = &fb[..F];
    let ab: [u8; MX] = kani::any();
    let a = &ab[..A];
    let mut tokb = [0u8; TX];
    let tok = &mut tokb[..T];
    vspec::v4::local_encrypt(&key, &nonce, msg, b"", f, a, tok);
    let mut key2 = key;
    let mut f2b = fb;
    let mut a2b = ab;
    let which: u8 = kani::any();
    let idx: usize = kani::any();
    let bit: u8 = kani::any();
    kani::assume(bit < 8);
    match which {
        0 => { kani::assume(idx < T); tok[idx] ^= 1 << bit; }
        1 => { kani::assume(idx < 32); key2[idx] ^= 1 << bit; }
        2 => { kani::assume(idx < F); f2b[idx] ^= 1 << bit; }
        _ => { kani::assume(idx < A); a2b[idx] ^= 1 << bit; }
    }
    let mut beforeb = [0u8; TX];
    beforeb[..T].copy_from_slice(tok);
    let r = <V4 as UnsealingVersion<Local>>::unseal(&LocalKey(key2), "", tok, &f2b[..F], &a2b[..A]);
    let rejected = r.is_err();
    let kind_ok = matches!(r, Err(PE::CryptoError));
    let untouched = tok[..] == beforeb[..T];
    vcheck_all!(
        (rejected, "[C02][C12] a token with any single flipped bit, changed footer/assertion or another key is rejected"),
        (!rejected || kind_ok, "[C12] an authentication failure is reported as CryptoError, whatever the payload bytes"),
        (!rejected || untouched, "[C12] nothing is decrypted before authentication succeeds (payload buffer untouched on failure)"),
    );
    kani::cover!(which == 0, "token bit flip explored");
    kani::cover!(which == 1, "other key explored");
}

/// [C02] moving bytes across the footer/assertion boundary, or truncating/extending them, is rejected
pub fn unseal_rejects_boundary_shift(M: usize) {
    let T = NONCE + M + TAG;
    let key: [u8; 32] = kani::any();
    let nonce: [u8; 32] = kani::any();
    let msgb: [u8; MX] = kani::any();
    let msg = &msgb[..M];
    let fa: [u8; 2] = kani::any();
    let mut tokb = [0u8; TX];
    let tok = &mut tokb[..T];
    // sealed with footer = fa[..1], assertion = fa[1..]
    vspec::v4::local_encrypt(&key, &nonce, msg, b"", &fa[..1], &fa[1..], tok);
    let split: usize = kani::any();
    kani::assume(split <= 2 && split != 1);
    let r = <V4 as UnsealingVersion<Local>>::unseal(&LocalKey(key), "", tok, &fa[..split], &fa[split..]);
    vassert!(r.is_err(), "[C02] bytes moved across the footer/assertion boundary are rejected");
}

/// [C04]/[C12] every payload shorter than nonce+tag (+2): no panic; too short => InvalidToken
pub fn unseal_short(L: usize) {
    let key: [u8; 32] = kani::any();
    let mut pb: [u8; TX] = kani::any();
    let f: [u8; 1] = kani::any();
    let r = <V4 as UnsealingVersion<Local>>::unseal(&LocalKey(key), "", &mut pb[..L], &f, &[]);
    if L < NONCE + TAG {
        vassert!(matches!(r, Err(PE::InvalidToken)), "[C12] a too-short payload is InvalidToken, independent of its bytes");
    } else {
        vassert!(matches!(r, Err(PE::CryptoError)) || r.is_ok(), "[C12] error kind for a full-length payload is CryptoError");
    }
}

/// [C08]/[C10] local keys: exact length, byte-identical round trip, clone, unsealing_key, From<[u8;32]>
pub fn local_key_codec() {
    let b: [u8; 40] = kani::any();
    let n: usize = kani::any();
    kani::assume(n <= 40);
    let r = <V4 as HasKey<Local>>::decode(&b[..n]);
    match r {
        Ok(k) => {
            let e = <V4 as HasKey<Local>>::encode(&k);
            let c = k.clone();
            let u = <V4 as SealingVersion<Local>>::unsealing_key(&k);
            vcheck_all!(
                (n == 32, "[C10] only exactly 32 bytes are accepted as a local key"),
                (e.len() == n && e[..] == b[..n], "[C08] decode then encode is the identity on local keys"),
                (c.0 == k.0 && u.0 == k.0, "[C08] clone / unsealing_key of a local key have identical bytes"),
            );
        }
        Err(e) => {
            vcheck_all!(
                (n != 32, "[C08] every 32-byte string is a valid local key"),
                (matches!(e, PE::InvalidKey), "[C10] wrong-length key bytes are InvalidKey"),
            );
        }
    }
    kani::cover!(n == 32);
    kani::cover!(n == 33);
}

/// [C16] key generation: returns only when the draw succeeded (see nonce_fail_closed); the key is exactly the drawn bytes
pub fn local_key_random() {
    vmodel_core::rng_may_fail(true);
    let r = <V4 as SealingVersion<Local>>::random();
    let all_ok = vmodel_core::rng_all_ok();
    let d = vmodel_core::rng_draw(0);
    match r {
        Ok(k) => vcheck_all!(
            (all_ok, "[C16] key generation returns only when every RNG draw succeeded"),
            (vmodel_core::rng_draws() == 1 && d.len == 32 && k.0[..] == d.bytes[..32], "[C16] the generated local key is exactly this call's 32 drawn bytes"),
        ),
        Err(e) => vassert!(false, "[C16] local key generation has no error path for this backend"),
    }
    kani::cover!(all_ok);
}

/// canary: a false claim about the *inputs*, placed after every model assumption of a full seal + unseal has been made.
/// It must FAIL whatever the code does; if it verifies, the assumptions are contradictory (vacuity guard).
pub fn canary_wrong_aad(M: usize) {
    let T = NONCE + M + TAG;
    let key: [u8; 32] = kani::any();
    let nonce: [u8; 32] = kani::any();
    let msgb: [u8; MX] = kani::any();
    let msg = &msgb[..M];
    let mut tokb = [0u8; TX];
    let tok = &mut tokb[..T];
    vspec::v4::local_encrypt(&key, &nonce, msg, b"", &[], &[7], tok);
    let _ = <V4 as SealingVersion<Local>>::dangerous_seal_with_nonce(&LocalKey(key), "", payload_of(&nonce, msg), &[], &[7]);
    // the call whose outcome is symbolic (accept/reject) must be the LAST model-calling operation: after it the number of
    // memo-table entries would differ between paths and every later table access would be symbolic
    let _ = <V4 as UnsealingVersion<Local>>::unseal(&LocalKey(key), "", tok, &[], &[7]);
    vassert!(key[0] != 0x5a || nonce[31] != 0xa5, "canary: must fail (false claim about the symbolic inputs)");
}

macro_rules! inst {
    ($($name:ident = $f:ident($($g:literal),*);)*) => { $(
        #[kani::proof] #[kani::unwind(180)]
        #[kani::stub(paseto_core::pae::pre_auth_encode, pae_contract)]
        pub fn $name() { $f($($g),*); kani::cover!(true, "harness end reachable"); }
    )* };
}
inst! {
    seal_is_spec_0_0_0 = seal_is_spec(0, 0, 0);
    seal_is_spec_3_2_1 = seal_is_spec(3, 2, 1);
    seal_is_spec_1_0_0 = seal_is_spec(1, 0, 0);
    unseal_accepts_spec_0_0_0 = unseal_accepts_spec(0, 0, 0);
    unseal_accepts_spec_3_2_1 = unseal_accepts_spec(3, 2, 1);
    roundtrip_own_nonce_1_1_1 = roundtrip_own_nonce(1, 1, 1);
    roundtrip_own_nonce_0_0_0 = roundtrip_own_nonce(0, 0, 0);
    unseal_rejects_tamper_1_1_1 = unseal_rejects_tamper(1, 1, 1);
    unseal_rejects_tamper_0_0_0 = unseal_rejects_tamper(0, 0, 0);
    unseal_rejects_boundary_shift_1 = unseal_rejects_boundary_shift(1);
    unseal_short_0 = unseal_short(0); unseal_short_31 = unseal_short(31); unseal_short_63 = unseal_short(63);
    unseal_short_64 = unseal_short(64); unseal_short_66 = unseal_short(66);
    canary_wrong_aad_1 = canary_wrong_aad(1);
}
#[kani::proof] #[kani::unwind(50)]
pub fn local_key_codec_h() { local_key_codec(); }
#[kani::proof] #[kani::unwind(50)]
pub fn local_key_random_h() { local_key_random(); }
#[kani::proof] #[kani::unwind(50)]
pub fn nonce_fail_closed_h() { nonce_fail_closed(); }
// @@PLAYBACK@@
