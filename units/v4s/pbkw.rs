// U8 (v4-sodium, PASERK k4 PBKW password wrap) — appended to paseto-v4-sodium/src/core/pw_wrap.rs. Real crate; libsodium-rs replaced
// by the assumed-contract model models/libsodium-rs. Same obligations and oracle (vspec::v4::pbkw_wrap) as units/v4/pbkw.rs.
// Differences forced by the backend: (1) default parameters are libsodium's INTERACTIVE pair (64 MiB, 2 passes, 1 lane);
// (2) randombytes cannot fail (aborts), so wrap_fail_closed decides "returns only if every draw succeeded";
// (3) extra instances probe the parameter acceptance the design flagged: para = 2 (*_para2: the PASERK format carries a
//     parallelism field) and a memory cost that is not a multiple of 1024 (*_memfloor).
use paseto_core::PasetoError as PE;
const KX: usize = 64;
const BX: usize = 56 + KX + 32;
const PWX: usize = 4;

fn header(KL: usize) -> &'static str { if KL == 32 { ".local-pw." } else { ".secret-pw." } }
fn other_header(KL: usize) -> &'static str { if KL == 32 { ".secret-pw." } else { ".local-pw." } }
fn params(mem: u64, time: u32, para: u32) -> Params {
    Params { mem: big_endian::U64::new(mem), time: big_endian::U32::new(time), para: big_endian::U32::new(para) }
}

/// Specification-level validity of a PBKW parameter block — the same rule units/v4/pbkw.rs uses for the RustCrypto sibling
/// (PASERK PBKW.md + Argon2 RFC 9106 ranges): memory is a whole number of KiB that fits 32 bits, >= 8 KiB and >= 8*parallelism KiB,
/// time >= 1, 1 <= parallelism <= 2^24-1.
fn params_valid(mem: u64, time: u32, para: u32) -> bool {
    let m = mem / 1024;
    mem % 1024 == 0 && m <= u32::MAX as u64 && m >= 8 && m >= 8 * (para as u64) && time >= 1 && para >= 1 && para <= 0xFF_FFFF
}
/// The parameter blocks this backend's `wrap_keys` accepts (DESCRIPTION of the code, proved exact by `wrap_keys_contract_h`):
/// exactly one lane, at least one pass, 8 KiB <= mem <= 4 TiB - 1 KiB (libsodium's crypto_pwhash ranges), any byte count.
fn sodium_accepts(mem: u64, time: u32, para: u32) -> bool {
    para == 1 && time >= 1 && mem >= 8192 && mem <= 4_398_046_510_080
}
/// unkeyed BLAKE2b-256 of the concatenation, same uninterpreted function as vspec::v4 (whose helper is private)
fn spec_blake2b32(parts: &[&[u8]]) -> [u8; 32] {
    let mut o = [0u8; 32];
    vmodel_core::uf(vmodel_core::alg::BLAKE2B, true, &[], vspec::cat(parts).as_slice(), &mut o);
    o
}
/// PBKW key derivation of the specification (PBKW.md v2/v4 steps 2-4): k = Argon2id(pw, salt, mem, time, para);
/// Ek = BLAKE2b-256(0xFF || k); Ak = BLAKE2b-256(0xFE || k)
fn spec_keys(pw: &[u8], salt: &[u8; 16], mem: u64, time: u32, para: u32) -> ([u8; 32], [u8; 32]) {
    let k = vspec::v4::argon2id(pw, salt, mem, time, para);
    (spec_blake2b32(&[&[0xFF], &k]), spec_blake2b32(&[&[0xFE], &k]))
}

/// Contract of the private `wrap_keys` (proved by `wrap_keys_contract_h` for ALL parameter blocks, salts, passwords of the
/// instance's length): Ok((Ek, BLAKE2b-MAC state keyed with Ak, 32-byte output, nothing absorbed)) iff sodium_accepts, else Err.
/// The flow harnesses use it in its *assume-accepted* form: they are checked against the callee's contract under the precondition
/// that the embedded parameters are accepted (the rejected case ends in the contract's Err, covered by the contract harness).
/// Needed because CBMC does not constant-fold parameters read back through zerocopy from a >64-byte buffer, and the symbolic early
/// return `para != 1` in front of three model calls would leave a symbolic call count behind (units/README.md rule 3b).
///
/// The parameters are decoded from the prefix bytes with plain shifts, not with zerocopy's `U32::get()`: in harnesses that enable
/// RNG failure (`vmodel_core::rng_may_fail(true)`) Kani 0.68 / CBMC 6.11 evaluated `big_endian::U32::get()` inside this function to
/// the byte-swapped value (bytes [0,0,0,1] read as 0x01000000 while `u32::from_be_bytes` of the same four bytes gave 1), which made
/// the assumption below unsatisfiable; the vacuity guard caught it (units/v4s/NOTES.md, "tool anomaly").
fn wrap_keys_assume_accepted(pass: &[u8], prefix: &Prefix) -> Result<(crypto_stream::Key, crypto_generichash::State), PasetoError> {
    let b = prefix.as_bytes();
    let mut mem: u64 = 0;
    let mut i = 16;
    while i < 24 { mem = (mem << 8) | b[i] as u64; i += 1; }
    let time = ((b[24] as u32) << 24) | ((b[25] as u32) << 16) | ((b[26] as u32) << 8) | (b[27] as u32);
    let para = ((b[28] as u32) << 24) | ((b[29] as u32) << 16) | ((b[30] as u32) << 8) | (b[31] as u32);
    kani::assume(sodium_accepts(mem, time, para));
    let (ek, ak) = spec_keys(pass, &prefix.salt, mem, time, para);
    Ok((crypto_stream::Key::from(ek), crypto_generichash::State::new(Some(&ak), 32).expect("32-byte key and output are valid")))
}

/// [C07]/[C04] the REAL wrap_keys, for every parameter block: accepted exactly on `sodium_accepts`; on acceptance the keys are the
/// specification's derivation; rejected blocks are InvalidKey (lane count) or CryptoError (libsodium range), never a panic
pub fn wrap_keys_contract(PL: usize) {
    let pwb: [u8; PWX] = kani::any();
    let pw = &pwb[..PL];
    let salt: [u8; 16] = kani::any();
    let nonce: [u8; 24] = kani::any();
    let mem: u64 = kani::any();
    let time: u32 = kani::any();
    let para: u32 = kani::any();
    let prefix = Prefix { salt, params: params(mem, time, para), nonce };
    let acc = sodium_accepts(mem, time, para);
    // expected values BEFORE the call whose outcome is symbolic
    let (ek, ak) = spec_keys(pw, &salt, mem, time, para);
    let r = wrap_keys(pw, &prefix);
    match r {
        Ok((k, mac)) => {
            let mac_ok = match mac.model_key() { Some(x) => x == &ak[..], None => false } && mac.model_message().is_empty() && mac.model_output_len() == 32;
            vcheck_all!(
                (acc, "[C07] wrap_keys accepts only parameter blocks with one lane, >= 1 pass and 8 KiB <= mem <= 4 TiB - 1 KiB"),
                (k.as_bytes() == &ek[..], "[C07] the PBKW encryption key is BLAKE2b-256(0xFF || Argon2id(password, salt, mem, time, para))"),
                (mac_ok, "[C07] the PBKW authentication key is BLAKE2b-256(0xFE || Argon2id(password, salt, mem, time, para)), 32-byte tag, empty state"),
            );
        }
        Err(e) => vcheck_all!(
            (!acc, "[C07] wrap_keys accepts every parameter block with one lane, >= 1 pass and 8 KiB <= mem <= 4 TiB - 1 KiB"),
            (matches!(e, PE::InvalidKey) == (para != 1), "[C04] a lane count other than 1 is InvalidKey"),
            (matches!(e, PE::CryptoError) == (para == 1), "[C04] a pass count / memory size libsodium refuses is CryptoError"),
        ),
    }
    kani::cover!(acc); kani::cover!(!acc && para == 1); kani::cover!(para != 1);
}

/// [C07] "both backends of a version accept the same parameter blocks": the blocks the REAL wrap_keys accepts are exactly the
/// specification-valid ones (the rule the sibling is checked against in units/v4/pbkw.rs::pbkdf_contract)
pub fn params_acceptance_is_spec(PL: usize) {
    let pwb: [u8; PWX] = kani::any();
    let pw = &pwb[..PL];
    let salt: [u8; 16] = kani::any();
    let nonce: [u8; 24] = kani::any();
    let mem: u64 = kani::any();
    let time: u32 = kani::any();
    let para: u32 = kani::any();
    let prefix = Prefix { salt, params: params(mem, time, para), nonce };
    let valid = params_valid(mem, time, para);
    let ok = wrap_keys(pw, &prefix).is_ok();
    let whole_kib = mem % 1024 == 0;
    vcheck_all!(
        (!ok || valid || !whole_kib, "[C07] only valid PBKW parameter blocks are accepted (memory a whole number of KiB)"),
        (!ok || whole_kib, "[C07] a PBKW memory parameter that is not a whole number of KiB is rejected"),
        (ok || !valid || para != 1, "[C07][C05] every valid PBKW parameter block with parallelism 1 is accepted"),
        (ok || !valid || para == 1, "[C07] every valid PBKW parameter block with parallelism >= 2 is accepted"),
    );
    kani::cover!(ok && valid); kani::cover!(!ok && !valid);
}

/// [C07] pw_wrap_key == spec for the salt/nonce it drew and the given parameters; [C05] fixed length; [C16] two fresh draws
pub fn wrap_is_spec(KL: usize, PL: usize, mem: u64, time: u32, para: u32, default_params: bool) {
    let pwb: [u8; PWX] = kani::any();
    let pw = &pwb[..PL];
    let kb: [u8; KX] = kani::any();
    let ptk = &kb[..KL];
    vmodel_core::rng_may_fail(false);
    let d0 = vmodel_core::rng_preview_len(16);
    let d1 = vmodel_core::rng_preview_len(24);
    let mut salt = [0u8; 16];
    salt.copy_from_slice(&d0[..16]);
    let mut n = [0u8; 24];
    n.copy_from_slice(&d1[..24]);
    let mut specb = [0u8; BX];
    let spec = &mut specb[..88 + KL];
    vspec::v4::pbkw_wrap(header(KL).as_bytes(), pw, &salt, mem, time, para, &n, ptk, spec);
    let p = if default_params { Params::default() } else { params(mem, time, para) };
    let r = <V4 as PwWrapVersion>::pw_wrap_key(header(KL), pw, &p, ptk.to_vec());
    let ok = r.is_ok();
    let out = r.unwrap_or_default();
    vcheck_all!(
        (ok, "[C05] password wrapping with valid parameters always succeeds"),
        (!ok || out.len() == 88 + KL, "[C05] PBKW blob has the fixed length 16+8+4+4+24+|key|+32"),
        (vmodel_core::rng_draws() == 2 && vmodel_core::rng_has_len(16) && vmodel_core::rng_has_len(24), "[C16] PBKW draws a fresh 16-byte salt and a fresh 24-byte nonce"),
        (!ok || out[..] == spec[..], "[C07] PBKW output equals the PASERK specification's blob for the salt, nonce and parameters it embeds"),
    );
}

/// [C07]/[C05] pw_unwrap_key accepts the specification's blob (any salt, nonce) and returns the wrapped key; params() reads them back
pub fn unwrap_accepts_spec(KL: usize, PL: usize, mem: u64, time: u32, para: u32) {
    let pwb: [u8; PWX] = kani::any();
    let pw = &pwb[..PL];
    let kb: [u8; KX] = kani::any();
    let ptk = &kb[..KL];
    let salt: [u8; 16] = kani::any();
    let n: [u8; 24] = kani::any();
    let mut blobb = [0u8; BX];
    let blob = &mut blobb[..88 + KL];
    vspec::v4::pbkw_wrap(header(KL).as_bytes(), pw, &salt, mem, time, para, &n, ptk, blob);
    let gp = <V4 as PwWrapVersion>::get_params(blob);
    let params_ok = match gp { Ok(p) => p.mem.get() == mem && p.time.get() == time && p.para.get() == para, Err(_) => false };
    let r = <V4 as PwWrapVersion>::pw_unwrap_key(header(KL), pw, blob);
    let ok = r.is_ok();
    let same = match r { Ok(k) => k == ptk, Err(_) => false };
    vcheck_all!(
        (params_ok, "[C05] the parameters read back from a blob are those it was wrapped with"),
        (ok, "[C07] every specification-conforming PBKW blob unwraps with the right password"),
        (!ok || same, "[C05] unwrapping returns exactly the wrapped key bytes"),
    );
}

/// [C05] wrap with default parameters and the library's own randomness, then unwrap
pub fn roundtrip(KL: usize, PL: usize) {
    let pwb: [u8; PWX] = kani::any();
    let pw = &pwb[..PL];
    let kb: [u8; KX] = kani::any();
    let ptk = &kb[..KL];
    vmodel_core::rng_may_fail(false);
    let r = <V4 as PwWrapVersion>::pw_wrap_key(header(KL), pw, &Params::default(), ptk.to_vec());
    let ok = r.is_ok();
    let mut blob = r.unwrap_or_default();
    let r2 = <V4 as PwWrapVersion>::pw_unwrap_key(header(KL), pw, &mut blob);
    let same = match r2 { Ok(k) => k == ptk, Err(_) => false };
    vcheck_all!(
        (ok, "[C05] password wrapping always succeeds"),
        (!ok || same, "[C05] password wrap then unwrap returns the original key"),
    );
}

/// [C06] any flipped bit (salt, parameters, nonce, ciphertext, tag), another password, a relabelled header => Err
pub fn unwrap_rejects_tamper(KL: usize, PL: usize) {
    let pwb: [u8; PWX] = kani::any();
    let kb: [u8; KX] = kani::any();
    let ptk = &kb[..KL];
    let salt: [u8; 16] = kani::any();
    let n: [u8; 24] = kani::any();
    let mut blobb = [0u8; BX];
    let blob = &mut blobb[..88 + KL];
    vspec::v4::pbkw_wrap(header(KL).as_bytes(), &pwb[..PL], &salt, 8192 * 1024, 2, 1, &n, ptk, blob);
    let mut pw2 = pwb;
    let which: u8 = kani::any();
    let idx: usize = kani::any();
    let bit: u8 = kani::any();
    kani::assume(bit < 8);
    let mut h = header(KL);
    match which {
        0 => { kani::assume(idx < 88 + KL); blob[idx] ^= 1 << bit; }
        1 => { kani::assume(idx < PL); pw2[idx] ^= 1 << bit; }
        _ => { h = other_header(KL); }
    }
    let in_params = which == 0 && idx >= 16 && idx < 32;
    let mut beforeb = [0u8; BX];
    beforeb[..88 + KL].copy_from_slice(blob);
    let r = <V4 as PwWrapVersion>::pw_unwrap_key(h, &pw2[..PL], blob);
    let rejected = r.is_err();
    let kind_ok = matches!(r, Err(PE::CryptoError)) || (in_params && matches!(r, Err(PE::InvalidKey)));
    let untouched = blob[..] == beforeb[..88 + KL];
    vcheck_all!(
        (rejected, "[C06] a PBKW blob with any flipped bit, another password or a relabelled header is rejected"),
        (!rejected || kind_ok, "[C06] failure kinds: CryptoError (authentication) or InvalidKey (unusable parameters)"),
        (!rejected || untouched, "[C06] the wrapped key is not decrypted before authentication succeeds"),
    );
    kani::cover!(which == 0 && !in_params); kani::cover!(in_params); kani::cover!(which == 2);
}

/// [C04] every blob length class and every parameter block: no panic; shorter than the fixed part => InvalidKey
pub fn unwrap_short(L: usize) {
    let pw: [u8; 2] = kani::any();
    let mut b: [u8; BX] = kani::any();
    let gp = <V4 as PwWrapVersion>::get_params(&b[..L]);
    let r = <V4 as PwWrapVersion>::pw_unwrap_key(".local-pw.", &pw, &mut b[..L]);
    if L < 88 {
        vassert!(matches!(r, Err(PE::InvalidKey)), "[C04] a too-short PBKW blob is InvalidKey");
    } else {
        vassert!(matches!(r, Err(PE::CryptoError)) || matches!(r, Err(PE::InvalidKey)) || r.is_ok(), "[C06] a full-length PBKW blob fails only with CryptoError or InvalidKey");
    }
    vassert!(gp.is_ok() == (L >= 56), "[C04] parameters are readable exactly when the fixed prefix is present");
}

/// [C16] libsodium's randombytes is infallible by API (a failing OS source aborts inside libsodium; the model terminates the path):
/// whenever wrap returns, both draws succeeded and the blob carries exactly the drawn salt and nonce
pub fn wrap_fail_closed() {
    let pw: [u8; 2] = kani::any();
    let kb: [u8; 32] = kani::any();
    vmodel_core::rng_may_fail(true);
    let r = <V4 as PwWrapVersion>::pw_wrap_key(".local-pw.", &pw, &Params::default(), kb.to_vec());
    let all_ok = vmodel_core::rng_all_ok();
    let two = vmodel_core::rng_draws() == 2;
    let d0 = vmodel_core::rng_draw_of_len(16); // order of the two independent draws is not part of the property
    let d1 = vmodel_core::rng_draw_of_len(24);
    let ok = r.is_ok();
    let out = r.unwrap_or_default();
    vcheck_all!(
        (all_ok && two, "[C16] PBKW returns only when both RNG draws succeeded"),
        (ok, "[C16] PBKW with default parameters has no error path for this backend (RNG failure aborts inside libsodium)"),
        (!ok || (out.len() == 120 && d0.len == 16 && d1.len == 24 && out[..16] == d0.bytes[..16] && out[32..56] == d1.bytes[..24]), "[C16] a returned blob carries exactly this call's drawn salt and nonce"),
    );
    kani::cover!(all_ok && ok);
}

pub fn canary_inputs() {
    let pw: [u8; 2] = kani::any();
    let kb: [u8; 32] = kani::any();
    vmodel_core::rng_may_fail(false);
    let mut blob = <V4 as PwWrapVersion>::pw_wrap_key(".local-pw.", &pw, &Params::default(), kb.to_vec()).unwrap_or_default();
    let _ = <V4 as PwWrapVersion>::pw_unwrap_key(".local-pw.", &pw, &mut blob);
    vassert!(pw[0] != 0x5a || kb[31] != 0xa5, "canary: must fail (false claim about the symbolic inputs)");
}

macro_rules! inst {
    ($($name:ident = $f:ident($($g:literal),*);)*) => { $(
        #[kani::proof] #[kani::unwind(200)]
        #[kani::stub(wrap_keys, wrap_keys_assume_accepted)]
        pub fn $name() { $f($($g),*); kani::cover!(true, "harness end reachable"); }
    )* };
}
inst! {
    wrap_is_spec_32_default = wrap_is_spec(32, 2, 67108864, 2, 1, true);
    wrap_is_spec_64_custom = wrap_is_spec(64, 1, 8388608, 3, 1, false);
    wrap_is_spec_32_memfloor = wrap_is_spec(32, 2, 8389631, 2, 1, false);
    unwrap_accepts_spec_32 = unwrap_accepts_spec(32, 2, 67108864, 2, 1);
    unwrap_accepts_spec_64 = unwrap_accepts_spec(64, 1, 8388608, 3, 1);
    unwrap_accepts_spec_32_memfloor = unwrap_accepts_spec(32, 2, 8389631, 2, 1);
    roundtrip_32 = roundtrip(32, 2); roundtrip_64 = roundtrip(64, 1);
    unwrap_rejects_tamper_32 = unwrap_rejects_tamper(32, 2); unwrap_rejects_tamper_64 = unwrap_rejects_tamper(64, 1);
    unwrap_len_88 = unwrap_short(88); unwrap_len_121 = unwrap_short(121);
    wrap_fail_closed_h = wrap_fail_closed();
    canary_inputs_h = canary_inputs();
}
// harnesses that run the REAL wrap_keys
macro_rules! real {
    ($($name:ident = $f:ident($($g:literal),*);)*) => { $(
        #[kani::proof] #[kani::unwind(200)]
        pub fn $name() { $f($($g),*); kani::cover!(true, "harness end reachable"); }
    )* };
}
real! {
    wrap_keys_contract_h = wrap_keys_contract(2);
    params_acceptance_is_spec_h = params_acceptance_is_spec(2);
    unwrap_short_0 = unwrap_short(0); unwrap_short_55 = unwrap_short(55); unwrap_short_56 = unwrap_short(56); unwrap_short_87 = unwrap_short(87);
}
// @@PLAYBACK@@
