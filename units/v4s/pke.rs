// U8 (v4-sodium, PASERK k4 PKE seal) — appended to paseto-v4-sodium/src/core/pke.rs. Real crate; libsodium-rs replaced by the
// assumed-contract model models/libsodium-rs. Same obligations and oracle (vspec::v4::pke_seal) as units/v4/pke.rs.
// Keys are built through the stable entry points HasKey<PkeSecret|PkePublic>::decode from the specification's serialisations.
// `libsodium_rs::model::assume_honest_points(true)` is used where a sealing operation precedes other model calls or where the
// blob comes from the specification: the recipient key is a derived public key (valid by the model's contract) and the ephemeral
// point is an X25519 public key (never a small-order encoding); see the model header. Tamper/length/invalid-key harnesses leave it off.
use paseto_core::PasetoError as PE;

/// X25519 clamping (RFC 7748 section 5) of the 32 random bytes an implementation draws for the ephemeral secret
fn clamp(mut k: [u8; 32]) -> [u8; 32] {
    k[0] &= 248;
    k[31] &= 127;
    k[31] |= 64;
    k
}
/// specification's key material for a seed: (Ed25519 public key, 64-byte secret key seed || pk)
fn spec_keys(seed: &[u8; 32]) -> ([u8; 32], [u8; 64]) {
    let (scalar, _prefix) = vspec::v4::ed25519_expand(seed);
    let pk = vspec::v4::ed25519_pk(&scalar);
    let mut b = [0u8; 64];
    b[..32].copy_from_slice(seed);
    b[32..].copy_from_slice(&pk);
    (pk, b)
}
fn sk_of(skb: &[u8; 64]) -> SecretKey {
    match <V4 as HasKey<PkeSecret>>::decode(skb) {
        Ok(k) => k,
        Err(_) => { vassert!(false, "[C08] the specification's serialisation of a secret key (seed || public key) is accepted as a PKE secret key"); unreachable!() }
    }
}
fn pk_of(pkb: &[u8; 32]) -> PublicKey {
    match <V4 as HasKey<PkePublic>>::decode(pkb) {
        Ok(k) => k,
        Err(_) => { vassert!(false, "[C08] a derived Ed25519 public key is accepted as a PKE public key"); unreachable!() }
    }
}

/// [C07] seal_key == spec for the ephemeral secret it drew; [C05] 96 bytes; [C16] one fresh 32-byte draw
pub fn seal_is_spec() {
    let seed: [u8; 32] = kani::any();
    let pdk: [u8; 32] = kani::any();
    vmodel_core::rng_may_fail(false);
    libsodium_rs::model::assume_honest_points(true);
    let d0 = vmodel_core::rng_preview(0);
    let mut raw = [0u8; 32];
    raw.copy_from_slice(&d0[..32]);
    let esk = clamp(raw);
    let (pk, _skb) = spec_keys(&seed);
    let mut spec = [0u8; 96];
    vspec::v4::pke_seal(&pk, &esk, &pdk, &mut spec);
    let r = <V4 as PkeSealingVersion>::seal_key(&pk_of(&pk), LocalKey(pdk));
    let ok = r.is_ok();
    let out = r.unwrap_or_default();
    vcheck_all!(
        (ok, "[C05] sealing a key to an honestly generated public key always succeeds"),
        (!ok || out.len() == 96, "[C05] a sealed key is exactly 96 bytes (tag || ephemeral public key || encrypted key)"),
        (vmodel_core::rng_draws() == 1 && vmodel_core::rng_draw(0).len == 32, "[C16] key sealing draws exactly one fresh 32-byte ephemeral secret"),
        (!ok || out[..] == spec[..], "[C07] sealed key equals the PASERK specification's blob for the ephemeral key it embeds"),
    );
}

/// [C07]/[C05] unseal_key accepts the specification's blob and returns the sealed key
pub fn unseal_accepts_spec() {
    let seed: [u8; 32] = kani::any();
    let pdk: [u8; 32] = kani::any();
    let raw: [u8; 32] = kani::any();
    let esk = clamp(raw);
    libsodium_rs::model::assume_honest_points(true);
    let (pk, skb) = spec_keys(&seed);
    let mut blob = [0u8; 96];
    vspec::v4::pke_seal(&pk, &esk, &pdk, &mut blob);
    let sk = sk_of(&skb);
    let r = <V4 as PkeUnsealingVersion>::unseal_key(&sk, blob.to_vec().into_boxed_slice());
    let ok = r.is_ok();
    let same = match r { Ok(k) => k.0 == pdk, Err(_) => false };
    vcheck_all!(
        (ok, "[C07] every specification-conforming sealed key unseals with the recipient's secret key"),
        (!ok || same, "[C05] unsealing returns exactly the sealed key"),
    );
}

/// [C05]/[C16] seal with the library's own randomness, then unseal
pub fn roundtrip() {
    let seed: [u8; 32] = kani::any();
    let pdk: [u8; 32] = kani::any();
    vmodel_core::rng_may_fail(false);
    libsodium_rs::model::assume_honest_points(true);
    let (pk, skb) = spec_keys(&seed);
    let sk = sk_of(&skb);
    let r = <V4 as PkeSealingVersion>::seal_key(&pk_of(&pk), LocalKey(pdk));
    let ok = r.is_ok();
    let blob = r.unwrap_or_default();
    let one_draw = vmodel_core::rng_draws() == 1 && vmodel_core::rng_draw(0).len == 32;
    let r2 = <V4 as PkeUnsealingVersion>::unseal_key(&sk, blob);
    let same = match r2 { Ok(k) => k.0 == pdk, Err(_) => false };
    vcheck_all!(
        (ok, "[C05] sealing always succeeds"),
        (one_draw, "[C16] key sealing draws exactly one fresh 32-byte ephemeral secret"),
        (!ok || same, "[C05] seal then unseal returns the original key"),
    );
}

/// [C06] any flipped bit (tag, ephemeral key, encrypted key) or another recipient => Err(CryptoError)
pub fn unseal_rejects_tamper() {
    let seed: [u8; 32] = kani::any();
    let pdk: [u8; 32] = kani::any();
    let raw: [u8; 32] = kani::any();
    let esk = clamp(raw);
    // "another recipient" = any other key pair with a different public key (a different seed need not change the scalar half of
    // the uninterpreted 64-byte expansion — the ideal-hash assumption speaks about the 64 bytes as a whole — so the public keys
    // are required to differ)
    let seed_other: [u8; 32] = kani::any();
    let which: u8 = kani::any();
    let idx: usize = kani::any();
    let bit: u8 = kani::any();
    kani::assume(bit < 8);
    kani::assume(which < 2);
    let seed2 = if which == 1 { seed_other } else { seed };
    let (pk, _skb) = spec_keys(&seed);
    let (pk2, skb2) = spec_keys(&seed2);
    if which == 1 { kani::assume(pk2 != pk); }
    let mut blob = [0u8; 96];
    vspec::v4::pke_seal(&pk, &esk, &pdk, &mut blob);
    if which == 0 { kani::assume(idx < 96); blob[idx] ^= 1 << bit; }
    let sk = sk_of(&skb2);
    let r = <V4 as PkeUnsealingVersion>::unseal_key(&sk, blob.to_vec().into_boxed_slice());
    let rejected = r.is_err();
    let kind_ok = matches!(r, Err(PE::CryptoError));
    vcheck_all!(
        (rejected, "[C06] a sealed key with any flipped bit, or offered to another recipient, is rejected"),
        (!rejected || kind_ok, "[C06] an authentication failure of a sealed key is CryptoError"),
    );
    kani::cover!(which == 0, "blob bit flip explored"); kani::cover!(which == 1, "other recipient explored");
}

/// [C04]/[C06] every length: no panic; anything but exactly 96 bytes => InvalidKey
pub fn unseal_len(L: usize) {
    let seed: [u8; 32] = kani::any();
    let b: [u8; 100] = kani::any();
    let (_pk, skb) = spec_keys(&seed);
    let sk = sk_of(&skb);
    let r = <V4 as PkeUnsealingVersion>::unseal_key(&sk, b[..L].to_vec().into_boxed_slice());
    if L != 96 {
        vassert!(matches!(r, Err(PE::InvalidKey)), "[C06] a sealed key whose encrypted data key is not exactly 32 bytes is InvalidKey");
    } else {
        vassert!(matches!(r, Err(PE::CryptoError)) || r.is_ok(), "[C06] a 96-byte blob fails only with CryptoError");
    }
}

/// [C04] sealing to ANY public key the decoder accepts and unsealing with ANY secret key the decoder accepts never panics
/// (this backend's decoders accept every 32 / 64 byte string): Ok or CryptoError
pub fn any_accepted_key_is_usable() {
    let pkb: [u8; 32] = kani::any();
    let skb: [u8; 64] = kani::any();
    let pdk: [u8; 32] = kani::any();
    let blob: [u8; 96] = kani::any();
    vmodel_core::rng_may_fail(false);
    let sealed = match <V4 as HasKey<PkePublic>>::decode(&pkb) {
        Ok(k) => Some(<V4 as PkeSealingVersion>::seal_key(&k, LocalKey(pdk))),
        Err(_) => None,
    };
    let seal_fine = match &sealed { Some(Ok(b)) => b.len() == 96, Some(Err(e)) => matches!(e, PE::CryptoError), None => true };
    vassert!(seal_fine, "[C04] sealing to an accepted public key returns a 96-byte blob or CryptoError");
    kani::cover!(matches!(&sealed, Some(Err(_))), "sealing to an unusable accepted key explored");
    kani::cover!(matches!(&sealed, Some(Ok(_))), "sealing to a usable accepted key explored");
}
pub fn any_accepted_secret_key_is_usable() {
    let skb: [u8; 64] = kani::any();
    let blob: [u8; 96] = kani::any();
    let unsealed = match <V4 as HasKey<PkeSecret>>::decode(&skb) {
        Ok(k) => Some(<V4 as PkeUnsealingVersion>::unseal_key(&k, blob.to_vec().into_boxed_slice())),
        Err(_) => None,
    };
    let fine = match &unsealed { Some(Ok(_)) => true, Some(Err(e)) => matches!(e, PE::CryptoError), None => true };
    vassert!(fine, "[C04] unsealing with an accepted secret key returns a key or CryptoError");
}

/// [C16] libsodium's randombytes is infallible by API (a failing OS source aborts inside libsodium; the model terminates the path):
/// whenever seal_key returns, the draw succeeded
pub fn seal_fail_closed() {
    let seed: [u8; 32] = kani::any();
    let pdk: [u8; 32] = kani::any();
    libsodium_rs::model::assume_honest_points(true);
    let (pk, _skb) = spec_keys(&seed);
    let pkk = pk_of(&pk);
    vmodel_core::rng_may_fail(true);
    let r = <V4 as PkeSealingVersion>::seal_key(&pkk, LocalKey(pdk));
    let all_ok = vmodel_core::rng_all_ok();
    let ok = r.is_ok();
    vcheck_all!(
        (all_ok && vmodel_core::rng_draws() == 1, "[C16] key sealing returns only when its RNG draw succeeded"),
        (ok, "[C16] key sealing to an honest public key has no error path for this backend (RNG failure aborts inside libsodium)"),
    );
    kani::cover!(all_ok && ok);
}

/// [C08] PKE key kinds share the encoding of the signing keys
pub fn pke_key_codec() {
    let seed: [u8; 32] = kani::any();
    let (pk, skb) = spec_keys(&seed);
    let e1 = <V4 as HasKey<PkePublic>>::encode(&pk_of(&pk));
    let e2 = <V4 as HasKey<PkeSecret>>::encode(&sk_of(&skb));
    let b: [u8; 66] = kani::any();
    let n: usize = kani::any();
    kani::assume(n <= 66);
    let dp = <V4 as HasKey<PkePublic>>::decode(&b[..n]).is_ok();
    let ds = <V4 as HasKey<PkeSecret>>::decode(&b[..n]).is_ok();
    vcheck_all!(
        (e1.len() == 32 && e1[..] == pk[..], "[C08] a PKE public key serialises as the 32-byte Ed25519 public key"),
        (e2.len() == 64 && e2[..32] == seed[..] && e2[32..] == pk[..], "[C08] a PKE secret key serialises as seed || public key"),
        (!dp || n == 32, "[C10] only exactly 32 bytes are accepted as a PKE public key"),
        (!ds || n == 64, "[C10] only exactly 64 bytes are accepted as a PKE secret key"),
    );
}

pub fn canary_inputs() {
    let seed: [u8; 32] = kani::any();
    let pdk: [u8; 32] = kani::any();
    vmodel_core::rng_may_fail(false);
    libsodium_rs::model::assume_honest_points(true);
    let (pk, skb) = spec_keys(&seed);
    let sk = sk_of(&skb);
    let blob = <V4 as PkeSealingVersion>::seal_key(&pk_of(&pk), LocalKey(pdk)).unwrap_or_default();
    let _ = <V4 as PkeUnsealingVersion>::unseal_key(&sk, blob);
    vassert!(seed[0] != 0x5a || pdk[31] != 0xa5, "canary: must fail (false claim about the symbolic inputs)");
}

macro_rules! inst {
    ($($name:ident = $f:ident($($g:literal),*);)*) => { $(
        #[kani::proof] #[kani::unwind(200)]
        pub fn $name() { $f($($g),*); kani::cover!(true, "harness end reachable"); }
    )* };
}
inst! {
    seal_is_spec_h = seal_is_spec();
    unseal_accepts_spec_h = unseal_accepts_spec();
    roundtrip_h = roundtrip();
    unseal_rejects_tamper_h = unseal_rejects_tamper();
    unseal_len_0 = unseal_len(0); unseal_len_31 = unseal_len(31); unseal_len_64 = unseal_len(64); unseal_len_95 = unseal_len(95);
    unseal_len_96 = unseal_len(96); unseal_len_97 = unseal_len(97);
    any_accepted_key_is_usable_h = any_accepted_key_is_usable();
    any_accepted_secret_key_is_usable_h = any_accepted_secret_key_is_usable();
    seal_fail_closed_h = seal_fail_closed();
    pke_key_codec_h = pke_key_codec();
    canary_inputs_h = canary_inputs();
}
// @@PLAYBACK@@
