// U7 (v4-sodium, public purpose) — appended to paseto-v4-sodium/src/core/public.rs. Real crate; libsodium-rs replaced by the
// assumed-contract model models/libsodium-rs; pre_auth_encode replaced by its contract. Same obligations and oracle (vspec::v4)
// as units/v4/public.rs. Secret keys are built through the stable entry point HasKey<Secret>::decode from the specification's
// serialisation seed || Ed25519-public-key(seed).
use paseto_core::version::{SealingVersion, UnsealingVersion};
use paseto_core::PasetoError as PE;

const SIG: usize = 64;
const MX: usize = 4;
const TX: usize = MX + SIG;

/// the specification's 64-byte secret key seed || pk(seed)
fn sk_bytes(seed: &[u8; 32]) -> [u8; 64] {
    let (scalar, _prefix) = vspec::v4::ed25519_expand(seed);
    let pk = vspec::v4::ed25519_pk(&scalar);
    let mut b = [0u8; 64];
    b[..32].copy_from_slice(seed);
    b[32..].copy_from_slice(&pk);
    b
}
fn sk_of(seed: &[u8; 32]) -> SecretKey {
    match <V4 as HasKey<Secret>>::decode(&sk_bytes(seed)) {
        Ok(k) => k,
        Err(_) => { vassert!(false, "[C08] the specification's serialisation of a secret key (seed || public key) is accepted"); unreachable!() }
    }
}
/// uninterpreted validity predicate of a compressed Edwards point, as used by every model (vmodel_core::alg::ED25519_VALID)
fn spec_point_valid(b: &[u8; 32]) -> bool {
    let mut o = [0u8; 1];
    vmodel_core::uf(vmodel_core::alg::ED25519_VALID, false, b, &[], &mut o);
    o[0] & 1 == 1
}
fn payload_of(msg: &[u8]) -> Vec<u8> {
    let mut p = Vec::with_capacity(msg.len() + SIG);
    p.extend_from_slice(msg);
    p
}

/// [C03] sign == spec (Ed25519 is deterministic: byte-identical); [C01] length
pub fn sign_is_spec(M: usize, F: usize, A: usize) {
    let T = M + SIG;
    let seed: [u8; 32] = kani::any();
    let msgb: [u8; MX] = kani::any();
    let msg = &msgb[..M];
    let fb: [u8; MX] = kani::any();
    let f = &fb[..F];
    let ab: [u8; MX] = kani::any();
    let a = &ab[..A];
    let (scalar, prefix) = vspec::v4::ed25519_expand(&seed);
    let mut specb = [0u8; TX];
    let spec = &mut specb[..T];
    vspec::v4::public_sign(&scalar, &prefix, msg, b"", f, a, spec);
    let sk = sk_of(&seed);
    let r = <V4 as SealingVersion<Public>>::dangerous_seal_with_nonce(&sk, "", payload_of(msg), f, a);
    let ok = r.is_ok();
    let out = r.unwrap_or_default();
    vcheck_all!(
        (ok, "[C01] signing always succeeds"),
        (!ok || out.len() == T, "[C01] signed payload length is |message| + 64"),
        (!ok || out[..] == spec[..], "[C03] v4.public sign output equals the specification's token (message || Ed25519 signature over PAE)"),
    );
}

/// [C03]/[C01] verify accepts the specification's token and returns exactly the message
pub fn verify_accepts_spec(M: usize, F: usize, A: usize) {
    let T = M + SIG;
    let seed: [u8; 32] = kani::any();
    let msgb: [u8; MX] = kani::any();
    let msg = &msgb[..M];
    let fb: [u8; MX] = kani::any();
    let f = &fb[..F];
    let ab: [u8; MX] = kani::any();
    let a = &ab[..A];
    let (scalar, prefix) = vspec::v4::ed25519_expand(&seed);
    let mut tokb = [0u8; TX];
    let tok = &mut tokb[..T];
    vspec::v4::public_sign(&scalar, &prefix, msg, b"", f, a, tok);
    let pk = <V4 as SealingVersion<Public>>::unsealing_key(&sk_of(&seed));
    let pk_is_spec = pk.0.as_bytes() == &vspec::v4::ed25519_pk(&scalar);
    let r = <V4 as UnsealingVersion<Public>>::unseal(&pk, "", tok, f, a);
    let ok = r.is_ok();
    let same = match r { Ok(m) => m == msg, Err(_) => false };
    vcheck_all!(
        (pk_is_spec, "[C08] the public key derived from a secret key is the Ed25519 public key of its seed"),
        (ok, "[C03] every specification-conforming v4.public token is accepted under the derived public key"),
        (!ok || same, "[C01] verify returns exactly the signed message"),
    );
}

/// [C01] library's own nonce() (empty for public), sign, verify
pub fn roundtrip_own_nonce(M: usize, F: usize, A: usize) {
    let seed: [u8; 32] = kani::any();
    let msgb: [u8; MX] = kani::any();
    let msg = &msgb[..M];
    let fb: [u8; MX] = kani::any();
    let f = &fb[..F];
    let ab: [u8; MX] = kani::any();
    let a = &ab[..A];
    let n = <V4 as SealingVersion<Public>>::nonce();
    let n_ok = n.is_ok();
    let mut p = n.unwrap_or_default();
    let n_empty = p.is_empty() && vmodel_core::rng_draws() == 0;
    p.extend_from_slice(msg);
    let sk = sk_of(&seed);
    let pk = <V4 as SealingVersion<Public>>::unsealing_key(&sk);
    let sealed = <V4 as SealingVersion<Public>>::dangerous_seal_with_nonce(&sk, "", p, f, a);
    let s_ok = sealed.is_ok();
    let mut tok = sealed.unwrap_or_default();
    let r = <V4 as UnsealingVersion<Public>>::unseal(&pk, "", &mut tok, f, a);
    let same = match r { Ok(m) => m == msg, Err(_) => false };
    vcheck_all!(
        (n_ok && n_empty, "[C01] the public purpose uses an empty nonce prefix"),
        (s_ok, "[C01] signing with the library's own nonce succeeds"),
        (!s_ok || same, "[C01] sign, then verify with the derived public key, returns the original message"),
    );
}

/// [C02]/[C12] any single flipped bit of message or signature, any other public key, footer or assertion change => Err
pub fn verify_rejects_tamper(M: usize, F: usize, A: usize) {
    let T = M + SIG;
    let seed: [u8; 32] = kani::any();
    let msgb: [u8; MX] = kani::any();
    let msg = &msgb[..M];
    let fb: [u8; MX] = kani::any();
    let f = &fb[..F];
    let ab: [u8; MX] = kani::any();
    let a = &ab[..A];
    let (scalar, prefix) = vspec::v4::ed25519_expand(&seed);
    let mut tokb = [0u8; TX];
    let tok = &mut tokb[..T];
    vspec::v4::public_sign(&scalar, &prefix, msg, b"", f, a, tok);
    let mut pkb = vspec::v4::ed25519_pk(&scalar);
    let mut f2b = fb;
    let mut a2b = ab;
    let which: u8 = kani::any();
    let idx: usize = kani::any();
    let bit: u8 = kani::any();
    kani::assume(bit < 8);
    match which {
        0 => { kani::assume(idx < T); tok[idx] ^= 1 << bit; }
        1 => { kani::assume(idx < 32); pkb[idx] ^= 1 << bit; }
        2 => { kani::assume(idx < F); f2b[idx] ^= 1 << bit; }
        _ => { kani::assume(idx < A); a2b[idx] ^= 1 << bit; }
    }
    let pk = match <V4 as HasKey<Public>>::decode(&pkb) { Ok(k) => k, Err(_) => return };
    let mut beforeb = [0u8; TX];
    beforeb[..T].copy_from_slice(tok);
    let r = <V4 as UnsealingVersion<Public>>::unseal(&pk, "", tok, &f2b[..F], &a2b[..A]);
    let rejected = r.is_err();
    let kind_ok = matches!(r, Err(PE::CryptoError));
    let untouched = tok[..] == beforeb[..T];
    vcheck_all!(
        (rejected, "[C02][C12] a signed token with any single flipped bit, changed footer/assertion or another key is rejected"),
        (!rejected || kind_ok, "[C12] a signature failure is reported as CryptoError, whatever the payload bytes"),
        (untouched, "[C12] verification never modifies the payload"),
    );
    kani::cover!(which == 0, "token bit flip explored");
    kani::cover!(which == 1, "other key explored");
}

/// [C02] bytes moved across the footer/assertion boundary are rejected. Both shifted splits are tried one after the other with
/// concrete lengths (verification makes no model call that adds a memo-table entry, so the second call is as cheap as the first;
/// a symbolic split makes the slice lengths symbolic and cost 10 min of solver time).
pub fn verify_rejects_boundary_shift(M: usize) {
    let T = M + SIG;
    let seed: [u8; 32] = kani::any();
    let msgb: [u8; MX] = kani::any();
    let msg = &msgb[..M];
    let fa: [u8; 2] = kani::any();
    let (scalar, prefix) = vspec::v4::ed25519_expand(&seed);
    let mut tokb = [0u8; TX];
    // signed with footer = fa[..1], assertion = fa[1..]
    vspec::v4::public_sign(&scalar, &prefix, msg, b"", &fa[..1], &fa[1..], &mut tokb[..T]);
    let pk = <V4 as SealingVersion<Public>>::unsealing_key(&sk_of(&seed));
    let mut tok2b = tokb;
    let r0 = <V4 as UnsealingVersion<Public>>::unseal(&pk, "", &mut tokb[..T], &fa[..0], &fa[0..]).is_err();
    let r2 = <V4 as UnsealingVersion<Public>>::unseal(&pk, "", &mut tok2b[..T], &fa[..2], &fa[2..]).is_err();
    vcheck_all!(
        (r0, "[C02] bytes moved across the footer/assertion boundary are rejected (footer emptied into the assertion)"),
        (r2, "[C02] bytes moved across the footer/assertion boundary are rejected (assertion moved into the footer)"),
    );
}

/// [C04]/[C12] payloads around the minimum length: no panic, too short => InvalidToken
pub fn verify_short(L: usize) {
    let seed: [u8; 32] = kani::any();
    let pk = <V4 as SealingVersion<Public>>::unsealing_key(&sk_of(&seed));
    let mut pb: [u8; TX] = kani::any();
    let f: [u8; 1] = kani::any();
    let r = <V4 as UnsealingVersion<Public>>::unseal(&pk, "", &mut pb[..L], &f, &[]);
    if L < SIG {
        vassert!(matches!(r, Err(PE::InvalidToken)), "[C12] a too-short payload is InvalidToken, independent of its bytes");
    } else {
        vassert!(matches!(r, Err(PE::CryptoError)) || r.is_ok(), "[C12] error kind for a full-length payload is CryptoError");
    }
}

/// [C08]/[C10] public keys: exact length, decode/encode identity, clone
pub fn public_key_codec() {
    let b: [u8; 40] = kani::any();
    let n: usize = kani::any();
    kani::assume(n <= 40);
    let r = <V4 as HasKey<Public>>::decode(&b[..n]);
    match r {
        Ok(k) => {
            let e = <V4 as HasKey<Public>>::encode(&k);
            let c = k.clone();
            vcheck_all!(
                (n == 32, "[C10] only exactly 32 bytes are accepted as a v4 public key"),
                (e.len() == n && e[..] == b[..n], "[C08] decode then encode is the identity on public keys"),
                (c.0.as_bytes() == k.0.as_bytes(), "[C08] clone of a public key is equal"),
            );
        }
        Err(e) => vassert!(matches!(e, PE::InvalidKey), "[C10] rejected key bytes are InvalidKey"),
    }
    kani::cover!(n == 32);
}

/// [C08] "off-curve points are rejected": an accepted public key is a valid compressed Edwards point, and every valid one is accepted
/// (the sibling decides validity through the same uninterpreted predicate, so this also decides that both backends accept the same keys)
pub fn public_key_valid_point() {
    let b: [u8; 32] = kani::any();
    let valid = spec_point_valid(&b);
    let r = <V4 as HasKey<Public>>::decode(&b);
    let ok = r.is_ok();
    vcheck_all!(
        (!ok || valid, "[C08] a 32-byte string that is not a valid Ed25519 point (off-curve encoding) is rejected as a public key"),
        (ok || !valid, "[C08] every valid Ed25519 point is accepted as a public key"),
    );
    kani::cover!(ok);
}

/// [C08]/[C10] secret keys: 64 bytes = seed || public key of the seed; decode/encode identity; clone
pub fn secret_key_codec() {
    let b: [u8; 66] = kani::any();
    let n: usize = kani::any();
    kani::assume(n <= 66);
    let mut seed = [0u8; 32];
    seed.copy_from_slice(&b[..32]);
    let (scalar, _prefix) = vspec::v4::ed25519_expand(&seed);
    let pk = vspec::v4::ed25519_pk(&scalar);
    let consistent = n == 64 && b[32..64] == pk[..];
    let r = <V4 as HasKey<Secret>>::decode(&b[..n]);
    match r {
        Ok(k) => {
            let e = <V4 as HasKey<Secret>>::encode(&k);
            let c = k.clone();
            let u = <V4 as SealingVersion<Public>>::unsealing_key(&k);
            let ce = <V4 as HasKey<Secret>>::encode(&c);
            vcheck_all!(
                (n == 64, "[C10] only exactly 64 bytes are accepted as a v4 secret key"),
                (consistent, "[C08] a secret key is accepted only if its public half is the public key of its seed"),
                (e.len() == n && e[..] == b[..n], "[C08] decode then encode is the identity on secret keys"),
                (ce[..] == e[..], "[C08] clone of a secret key equals the original"),
                (e.len() == 64 && e[..32] == seed[..], "[C08] the decoded secret key carries the seed"),
                (u.0.as_bytes() == &pk, "[C08] unsealing_key(secret) is the Ed25519 public key of the seed"),
                (e.len() == 64 && u.0.as_bytes()[..] == e[32..], "[C08] unsealing_key(secret) is the public half of its serialisation"),
            );
        }
        Err(e) => vcheck_all!(
            (!consistent, "[C08] every consistent 64-byte seed||public-key string is accepted"),
            (matches!(e, PE::InvalidKey), "[C10] rejected key bytes are InvalidKey"),
        ),
    }
    kani::cover!(consistent);
    kani::cover!(n == 64 && !consistent);
}

/// [C08] "the public key derived from a secret key verifies everything that secret key signs", for every secret key the
/// decoder accepts (any 64 bytes offered as a key)
pub fn secret_key_signs_verifiably(M: usize) {
    let b: [u8; 64] = kani::any();
    let msgb: [u8; MX] = kani::any();
    let msg = &msgb[..M];
    let k = match <V4 as HasKey<Secret>>::decode(&b) { Ok(k) => k, Err(_) => return };
    let pk = <V4 as SealingVersion<Public>>::unsealing_key(&k);
    let sealed = <V4 as SealingVersion<Public>>::dangerous_seal_with_nonce(&k, "", payload_of(msg), &[], &[]);
    let s_ok = sealed.is_ok();
    let mut tok = sealed.unwrap_or_default();
    let r = <V4 as UnsealingVersion<Public>>::unseal(&pk, "", &mut tok, &[], &[]);
    let same = match r { Ok(m) => m == msg, Err(_) => false };
    vcheck_all!(
        (s_ok, "[C01] signing with an accepted secret key succeeds"),
        (!s_ok || same, "[C08] the public key derived from an accepted secret key verifies what that secret key signs"),
    );
}

/// [C16] secret key generation: libsodium's randombytes cannot fail (aborts); whenever random() returns, the seed is exactly the
/// drawn bytes and the key is the specification's seed || public key
pub fn secret_key_random() {
    vmodel_core::rng_may_fail(true);
    let r = <V4 as SealingVersion<Public>>::random();
    let all_ok = vmodel_core::rng_all_ok();
    let d = vmodel_core::rng_draw(0);
    match r {
        Ok(k) => {
            let mut seed = [0u8; 32];
            seed.copy_from_slice(&d.bytes[..32]);
            let want = sk_bytes(&seed);
            let e = <V4 as HasKey<Secret>>::encode(&k);
            vcheck_all!(
                (all_ok, "[C16] key generation returns only when every RNG draw succeeded"),
                (vmodel_core::rng_draws() == 1 && d.len == 32 && e.len() == 64 && e[..32] == seed[..], "[C16] the generated seed is exactly this call's 32 drawn bytes"),
                (e[..] == want[..], "[C08] a generated secret key is seed || Ed25519 public key of the seed"),
            );
        }
        Err(e) => vassert!(false, "[C16] secret key generation has no error path for this backend"),
    }
    kani::cover!(all_ok);
}

/// canary (vacuity guard): false claim about the symbolic inputs after a full sign + verify
pub fn canary_inputs(M: usize) {
    let seed: [u8; 32] = kani::any();
    let msgb: [u8; MX] = kani::any();
    let msg = &msgb[..M];
    let sk = sk_of(&seed);
    let pk = <V4 as SealingVersion<Public>>::unsealing_key(&sk);
    let mut tok = <V4 as SealingVersion<Public>>::dangerous_seal_with_nonce(&sk, "", payload_of(msg), &[], &[7]).unwrap_or_default();
    let _ = <V4 as UnsealingVersion<Public>>::unseal(&pk, "", &mut tok, &[], &[7]);
    vassert!(seed[0] != 0x5a || msgb[0] != 0xa5, "canary: must fail (false claim about the symbolic inputs)");
}

macro_rules! inst {
    ($($name:ident = $f:ident($($g:literal),*);)*) => { $(
        #[kani::proof] #[kani::unwind(180)]
        #[kani::stub(paseto_core::pae::pre_auth_encode, pae_contract)]
        pub fn $name() { $f($($g),*); kani::cover!(true, "harness end reachable"); }
    )* };
}
inst! {
    sign_is_spec_0_0_0 = sign_is_spec(0, 0, 0);
    sign_is_spec_3_2_1 = sign_is_spec(3, 2, 1);
    verify_accepts_spec_0_0_0 = verify_accepts_spec(0, 0, 0);
    verify_accepts_spec_3_2_1 = verify_accepts_spec(3, 2, 1);
    roundtrip_own_nonce_1_1_1 = roundtrip_own_nonce(1, 1, 1);
    verify_rejects_tamper_1_1_1 = verify_rejects_tamper(1, 1, 1);
    verify_rejects_tamper_0_0_0 = verify_rejects_tamper(0, 0, 0);
    verify_rejects_boundary_shift_1 = verify_rejects_boundary_shift(1);
    verify_short_0 = verify_short(0); verify_short_63 = verify_short(63); verify_short_64 = verify_short(64); verify_short_66 = verify_short(66);
    canary_inputs_1 = canary_inputs(1);
    public_key_codec_h = public_key_codec();
    public_key_valid_point_h = public_key_valid_point();
    secret_key_signs_verifiably_1 = secret_key_signs_verifiably(1);
    secret_key_codec_h = secret_key_codec();
    secret_key_random_h = secret_key_random();
}
// @@PLAYBACK@@
