//! Differential test of models/jiff against the real jiff 0.2.15 (native, not Kani): every operation of the model's
//! surface is evaluated with both crates on boundary values and pseudo-random values; results (including "panicked" and
//! "returned Err") must agree. This is evidence for the ASSUMED contract in the model's header, not a proof.
use std::panic::{catch_unwind, AssertUnwindSafe};
use std::time::Duration;

static mut FAILS: u64 = 0;
static mut CASES: u64 = 0;

fn catch<T>(f: impl FnOnce() -> T) -> Result<T, ()> {
    catch_unwind(AssertUnwindSafe(f)).map_err(|_| ())
}
fn check<T: PartialEq + std::fmt::Debug>(name: &str, input: &dyn std::fmt::Debug, a: Result<T, ()>, b: Result<T, ()>) {
    unsafe { CASES += 1 };
    if a != b {
        unsafe { FAILS += 1 };
        if unsafe { FAILS } < 40 {
            eprintln!("MISMATCH {name} on {input:?}: real = {a:?}, model = {b:?}");
        }
    }
}
/// evaluate `$body` (which names the crate as `j`) with the real crate and with the model, compare
macro_rules! cmp {
    ($name:expr, $input:expr, $body:expr) => {{
        let a = { use real as j; catch(|| $body) };
        let b = { use model as j; catch(|| $body) };
        check($name, &$input, a, b);
    }};
}

const MIN_S: i64 = -377705023201;
const MAX_S: i64 = 253402207200;

struct Rng(u64);
impl Rng {
    fn next(&mut self) -> u64 {
        self.0 ^= self.0 << 13;
        self.0 ^= self.0 >> 7;
        self.0 ^= self.0 << 17;
        self.0
    }
    /// mixes magnitudes: full range, small, near the boundaries
    fn i64(&mut self) -> i64 {
        let r = self.next();
        match r % 7 {
            0 => self.next() as i64,
            1 => (self.next() % 2001) as i64 - 1000,
            2 => MIN_S + (self.next() % 5) as i64 - 2,
            3 => MAX_S + (self.next() % 5) as i64 - 2,
            4 => (self.next() % (2 * MAX_S as u64)) as i64 - MAX_S,
            5 => [i64::MIN, i64::MIN + 1, i64::MAX, i64::MAX - 1, 0, 1, -1][(self.next() % 7) as usize],
            _ => (self.next() as i64) >> (self.next() % 64),
        }
    }
    fn i32n(&mut self) -> i32 {
        let r = self.next();
        match r % 5 {
            0 => self.next() as i32,
            1 => (self.next() % 1_999_999_999) as i32 - 999_999_999,
            2 => [0, 1, -1, 999_999_999, -999_999_999, 1_000_000_000, -1_000_000_000, i32::MIN, i32::MAX][(self.next() % 9) as usize],
            _ => (self.next() % 1_000_000_000) as i32,
        }
    }
    fn udur(&mut self) -> Duration {
        let s = match self.next() % 5 {
            0 => self.next(),
            1 => self.next() % 1000,
            2 => (MAX_S - MIN_S) as u64 + (self.next() % 5) - 2,
            3 => [u64::MAX, i64::MAX as u64, i64::MAX as u64 + 1, 1u64 << 63, (1u64 << 63) + 1, 0][(self.next() % 6) as usize],
            _ => self.next() % (MAX_S as u64 * 2),
        };
        Duration::new(s, (self.next() % 1_000_000_000) as u32)
    }
}

/// a valid timestamp, as (second, nanosecond) accepted by both `Timestamp::new`
fn ts_parts(r: &mut Rng) -> (i64, i32) {
    loop {
        let s = match r.next() % 4 {
            0 => MIN_S + (r.next() % 3) as i64,
            1 => MAX_S - (r.next() % 3) as i64,
            2 => (r.next() % 5) as i64 - 2,
            _ => (r.next() % (MAX_S - MIN_S) as u64) as i64 + MIN_S,
        };
        let n = match r.next() % 3 { 0 => 0, 1 => [1, -1, 999_999_999, -999_999_999][(r.next() % 4) as usize], _ => (r.next() % 1_999_999_999) as i32 - 999_999_999 };
        if real::Timestamp::new(s, n).is_ok() {
            return (s, n);
        }
    }
}

fn main() {
    std::panic::set_hook(Box::new(|_| {}));
    let mut r = Rng(0x9E3779B97F4A7C15);
    let n_iter = std::env::args().nth(1).and_then(|s| s.parse().ok()).unwrap_or(200_000u64);
    for _ in 0..n_iter {
        // ---- constructors
        let (s, n) = (r.i64(), r.i32n());
        cmp!("Timestamp::new", (s, n), j::Timestamp::new(s, n).ok().map(|t| t.as_nanosecond()));
        // `constant` is documented to panic where `new` fails, but release builds of the real crate do not check: compare on valid input only
        if real::Timestamp::new(s, n).is_ok() { cmp!("Timestamp::constant", (s, n), j::Timestamp::constant(s, n).as_nanosecond()); }
        cmp!("Timestamp::from_second", s, j::Timestamp::from_second(s).ok().map(|t| t.as_nanosecond()));
        cmp!("Timestamp::from_millisecond", s, j::Timestamp::from_millisecond(s).ok().map(|t| t.as_nanosecond()));
        cmp!("Timestamp::from_microsecond", s, j::Timestamp::from_microsecond(s).ok().map(|t| t.as_nanosecond()));
        let big = (s as i128) * (n as i128 % 5_000_000_000);
        cmp!("Timestamp::from_nanosecond", big, j::Timestamp::from_nanosecond(big).ok().map(|t| t.as_nanosecond()));
        // ---- SignedDuration
        cmp!("SD::new", (s, n), { let d = j::SignedDuration::new(s, n); (d.as_secs(), d.subsec_nanos(), d.as_nanos(), d.as_millis(), d.as_micros(), d.subsec_millis(), d.subsec_micros(), d.signum(), d.is_zero(), d.is_negative(), d.is_positive()) });
        cmp!("SD::from_secs", s, { let d = j::SignedDuration::from_secs(s); (d.as_secs(), d.subsec_nanos(), d.as_nanos()) });
        cmp!("SD::from_millis", s, { let d = j::SignedDuration::from_millis(s); (d.as_secs(), d.subsec_nanos(), d.as_nanos()) });
        cmp!("SD::from_micros", s, { let d = j::SignedDuration::from_micros(s); (d.as_secs(), d.subsec_nanos(), d.as_nanos()) });
        cmp!("SD::from_nanos", s, { let d = j::SignedDuration::from_nanos(s); (d.as_secs(), d.subsec_nanos(), d.as_nanos()) });
        cmp!("SD::from_mins", s, j::SignedDuration::from_mins(s).as_nanos());
        cmp!("SD::from_hours", s, j::SignedDuration::from_hours(s).as_nanos());
        let (s2, n2) = (r.i64(), r.i32n());
        if let (Ok(_), Ok(_)) = (catch(|| real::SignedDuration::new(s, n)), catch(|| real::SignedDuration::new(s2, n2))) {
            let inp = ((s, n), (s2, n2));
            cmp!("SD::checked_add", inp, j::SignedDuration::new(s, n).checked_add(j::SignedDuration::new(s2, n2)).map(|d| d.as_nanos()));
            cmp!("SD::checked_sub", inp, j::SignedDuration::new(s, n).checked_sub(j::SignedDuration::new(s2, n2)).map(|d| d.as_nanos()));
            cmp!("SD + SD", inp, (j::SignedDuration::new(s, n) + j::SignedDuration::new(s2, n2)).as_nanos());
            cmp!("SD - SD", inp, (j::SignedDuration::new(s, n) - j::SignedDuration::new(s2, n2)).as_nanos());
            cmp!("SD::checked_neg", (s, n), j::SignedDuration::new(s, n).checked_neg().map(|d| d.as_nanos()));
            cmp!("-SD", (s, n), (-j::SignedDuration::new(s, n)).as_nanos());
            cmp!("SD::unsigned_abs", (s, n), j::SignedDuration::new(s, n).unsigned_abs());
            cmp!("SD cmp", inp, j::SignedDuration::new(s, n).cmp(&j::SignedDuration::new(s2, n2)));
            cmp!("Duration::try_from(SD)", (s, n), Duration::try_from(j::SignedDuration::new(s, n)).ok());
            cmp!("Timestamp::from_duration", (s, n), j::Timestamp::from_duration(j::SignedDuration::new(s, n)).ok().map(|t| t.as_nanosecond()));
        }
        let u = r.udur();
        cmp!("SD::try_from(Duration)", u, j::SignedDuration::try_from(u).ok().map(|d| d.as_nanos()));
        // ---- timestamps: accessors, order, arithmetic
        let (a, an) = ts_parts(&mut r);
        let (b, bn) = ts_parts(&mut r);
        let inp = ((a, an), (b, bn));
        cmp!("accessors", (a, an), { let t = j::Timestamp::new(a, an).unwrap(); (t.as_second(), t.subsec_nanosecond(), t.as_millisecond(), t.as_microsecond(), t.as_nanosecond(), t.subsec_millisecond(), t.subsec_microsecond(), t.signum(), t.is_zero()) });
        cmp!("as_duration", (a, an), { let d = j::Timestamp::new(a, an).unwrap().as_duration(); (d.as_secs(), d.subsec_nanos()) });
        cmp!("cmp", inp, { let (x, y) = (j::Timestamp::new(a, an).unwrap(), j::Timestamp::new(b, bn).unwrap()); (x.cmp(&y), x < y, x <= y, x == y, x > y, x >= y) });
        cmp!("duration_since", inp, { let d = j::Timestamp::new(a, an).unwrap().duration_since(j::Timestamp::new(b, bn).unwrap()); (d.as_secs(), d.subsec_nanos()) });
        cmp!("duration_until", inp, { let d = j::Timestamp::new(a, an).unwrap().duration_until(j::Timestamp::new(b, bn).unwrap()); (d.as_secs(), d.subsec_nanos()) });
        // unsigned durations: random, and chosen to land near the range ends
        let span_to_max = Duration::new((MAX_S - a) as u64, 0);
        let span_to_min = Duration::new((a - MIN_S) as u64, 0);
        for (k, u) in [u, Duration::new(u.as_secs() % 100, u.subsec_nanos()), span_to_max, span_to_min, span_to_max + Duration::new(0, u.subsec_nanos()), span_to_min + Duration::new(0, u.subsec_nanos()),
                       span_to_max + Duration::new(1, 0), span_to_min + Duration::new(1, 0)].into_iter().enumerate() {
            let inp = ((a, an), u, k);
            cmp!("ts + Duration", inp, (j::Timestamp::new(a, an).unwrap() + u).as_nanosecond());
            cmp!("ts - Duration", inp, (j::Timestamp::new(a, an).unwrap() - u).as_nanosecond());
            cmp!("checked_add(Duration)", inp, j::Timestamp::new(a, an).unwrap().checked_add(u).ok().map(|t| t.as_nanosecond()));
            cmp!("checked_sub(Duration)", inp, j::Timestamp::new(a, an).unwrap().checked_sub(u).ok().map(|t| t.as_nanosecond()));
            cmp!("saturating_add(Duration)", inp, j::Timestamp::new(a, an).unwrap().saturating_add(u).ok().map(|t| t.as_nanosecond()));
            cmp!("saturating_sub(Duration)", inp, j::Timestamp::new(a, an).unwrap().saturating_sub(u).ok().map(|t| t.as_nanosecond()));
            cmp!("+= Duration", inp, { let mut t = j::Timestamp::new(a, an).unwrap(); t += u; t.as_nanosecond() });
            cmp!("-= Duration", inp, { let mut t = j::Timestamp::new(a, an).unwrap(); t -= u; t.as_nanosecond() });
        }
        // signed durations
        for (k, (ds, dn)) in [(s, n), (s % 100, n), (MAX_S - a, 0), (MIN_S - a, 0), (MAX_S - a, n % 1_000_000_000), (MIN_S - a, n % 1_000_000_000), (MAX_S - a + 1, 0), (MIN_S - a - 1, 0), (i64::MIN, 0), (i64::MIN, -999_999_999), (i64::MAX, 999_999_999)].into_iter().enumerate() {
            if catch(|| real::SignedDuration::new(ds, dn)).is_err() { continue; }
            let inp = ((a, an), (ds, dn), k);
            cmp!("ts + SD", inp, (j::Timestamp::new(a, an).unwrap() + j::SignedDuration::new(ds, dn)).as_nanosecond());
            cmp!("ts - SD", inp, (j::Timestamp::new(a, an).unwrap() - j::SignedDuration::new(ds, dn)).as_nanosecond());
            cmp!("checked_add(SD)", inp, j::Timestamp::new(a, an).unwrap().checked_add(j::SignedDuration::new(ds, dn)).ok().map(|t| t.as_nanosecond()));
            cmp!("checked_sub(SD)", inp, j::Timestamp::new(a, an).unwrap().checked_sub(j::SignedDuration::new(ds, dn)).ok().map(|t| t.as_nanosecond()));
            cmp!("saturating_add(SD)", inp, j::Timestamp::new(a, an).unwrap().saturating_add(j::SignedDuration::new(ds, dn)).ok().map(|t| t.as_nanosecond()));
            cmp!("saturating_sub(SD)", inp, j::Timestamp::new(a, an).unwrap().saturating_sub(j::SignedDuration::new(ds, dn)).ok().map(|t| t.as_nanosecond()));
            cmp!("checked_add(&SD)", inp, j::Timestamp::new(a, an).unwrap().checked_add(&j::SignedDuration::new(ds, dn)).ok().map(|t| t.as_nanosecond()));
        }
    }
    // constants
    cmp!("consts", (), (j::Timestamp::MIN.as_nanosecond(), j::Timestamp::MAX.as_nanosecond(), j::Timestamp::UNIX_EPOCH.as_nanosecond(), j::Timestamp::default().as_nanosecond(),
                       j::SignedDuration::ZERO.as_nanos(), j::SignedDuration::MIN.as_nanos(), j::SignedDuration::MAX.as_nanos(), j::SignedDuration::default().as_nanos()));
    let (cases, fails) = unsafe { (CASES, FAILS) };
    println!("jiffdiff: {cases} comparisons, {fails} mismatches");
    std::process::exit(if fails == 0 { 0 } else { 1 });
}
