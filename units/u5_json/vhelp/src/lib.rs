//! Harness-only helper (see Cargo.toml description). The only function: a `String` of exactly `n` bytes taken from `b`,
//! each constrained to ASCII (0x00..=0x7f, NUL included) by `kani::assume`. `n` must be a concrete value so that the
//! resulting length is a constant for CBMC (units/README.md rules 1-3).
extern crate alloc;
use alloc::string::String;
use alloc::vec::Vec;

pub const MAXLEN: usize = 4;

pub fn ascii_string(b: [u8; MAXLEN], n: usize) -> String {
    assert!(n <= MAXLEN, "[model] capacity: helper strings have at most 4 bytes");
    // never a zero-sized allocation (rule 2)
    let mut v: Vec<u8> = Vec::with_capacity(MAXLEN);
    let mut i = 0;
    while i < n {
        #[cfg(kani)]
        kani::assume(b[i] < 0x80);
        #[cfg(not(kani))]
        assert!(b[i] < 0x80);
        v.push(b[i]);
        i += 1;
    }
    // SAFETY: every byte is < 0x80, so the bytes are valid UTF-8 (ASCII)
    unsafe { String::from_utf8_unchecked(v) }
}
