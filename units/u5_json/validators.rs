// U5 — built-in claim validators of paseto-json/src/lib.rs (property C11) against the `jiff` CONTRACT MODEL (models/jiff).
// Oracle: i128 nanosecond arithmetic transcribed from the property statement:
//   time validity   accept <=> (exp absent or exp >= now) and (nbf absent or nbf <= now)
//   with leeway d   accept <=> (exp absent or exp >= now - d) and (nbf absent or nbf <= now + d)     [now -/+ d representable]
//   HasExpiry       accept <=> exp present
//   iss/sub/aud     accept <=> claim present and equal to the expected string
// No `unsafe` (the crate forbids it): all ghost state is plain locals.
use paseto_core::PasetoError;
use std::time::Duration;

macro_rules! vassert { ($c:expr, $m:literal) => { kani::assert($c, $m) }; }
macro_rules! vcheck_all {
    ($( ($c:expr, $m:literal) ),+ $(,)?) => {{
        let conds = [$($c),+];
        let sel: u8 = kani::any();
        let mut k = 0u8;
        $( if sel == k { kani::assert(conds[k as usize], $m); } k += 1; )+
        let _ = k;
    }};
}

// jiff's documented Timestamp range (jiff docs / util/t.rs UnixSeconds), written here independently of the model crate
const MIN_NS: i128 = -377705023201 * 1_000_000_000;
const MAX_NS: i128 = 253402207200 * 1_000_000_000 + 999_999_999;

/// any timestamp of jiff's range, together with its nanosecond count
fn any_ts() -> (jiff::Timestamp, i128) {
    let ns: i128 = kani::any();
    kani::assume(MIN_NS <= ns && ns <= MAX_NS);
    let t = jiff::Timestamp::model_from_nanos(ns);
    kani::assume(t.is_some());
    (t.unwrap(), ns)
}
/// absent or any timestamp
fn any_opt_ts() -> (Option<jiff::Timestamp>, Option<i128>) {
    let (t, ns) = any_ts();
    if kani::any() { (Some(t), Some(ns)) } else { (None, None) }
}
/// any std Duration (secs: all u64, nanos < 10^9) with its exact nanosecond count secs * 10^9 + nanos. The count is
/// taken from the model's memoised helper so that oracle and model share ONE 128-bit multiplier (two copies of the same
/// multiplier cost the SAT solver 100-500 s per query); the helper itself is checked against independent arithmetic in
/// `oracle_duration_nanos_exact`.
fn any_duration() -> (Duration, i128) {
    let secs: u64 = kani::any();
    let nanos: u32 = kani::any();
    kani::assume(nanos < 1_000_000_000);
    let d = Duration::new(secs, nanos);
    (d, jiff::model_duration_nanos(d))
}
/// a String of exactly `n` (concrete, <= 4) arbitrary ASCII bytes (NUL included). Built by the helper crate `vhelp`
/// (units/u5_json/vhelp): safe constructions (`String::push`, `from_utf8`) leave a symbolic length behind.
fn ascii(n: usize) -> String {
    vhelp::ascii_string(kani::any(), n)
}
/// presence is a CONCRETE parameter: merging Some(String)/None symbolically makes CBMC lose the string lengths (README rule 3)
fn opt_ascii(present: bool, n: usize) -> Option<String> {
    if present { Some(ascii(n)) } else { None }
}
/// claims whose timestamps are arbitrary (absent / anywhere in range) and whose strings are absent
fn time_claims() -> (RegisteredClaims, Option<i128>, Option<i128>) {
    let (exp, exp_ns) = any_opt_ts();
    let (nbf, nbf_ns) = any_opt_ts();
    let (iat, _) = any_opt_ts();
    (RegisteredClaims { iss: None, sub: None, aud: None, exp, nbf, iat, jti: None }, exp_ns, nbf_ns)
}
fn is_claims_error(r: &Result<(), PasetoError>) -> bool {
    matches!(r, Err(PasetoError::ClaimsError))
}
fn ts_eq(a: Option<jiff::Timestamp>, ns: Option<i128>) -> bool {
    match (a, ns) {
        (None, None) => true,
        (Some(t), Some(n)) => t.model_nanos() == n,
        _ => false,
    }
}

// ---------------------------------------------------------------------------------------------------------------------
#[kani::proof] #[kani::unwind(4)]
pub fn time_valid_at_exact() {
    let (now, now_ns) = any_ts();
    let (c, exp, nbf) = time_claims();
    let r = Time::valid_at(now).validate(&c);
    let expect = exp.map_or(true, |e| e >= now_ns) && nbf.map_or(true, |n| n <= now_ns);
    vcheck_all!(
        (r.is_ok() == expect, "[C11] Time::valid_at(now) accepts iff (no exp or exp >= now) and (no nbf or nbf <= now)"),
        (r.is_ok() || is_claims_error(&r), "[C11] a rejecting time validator returns exactly PasetoError::ClaimsError"),
    );
    kani::cover!(exp == Some(now_ns) && r.is_ok(), "exp == now is accepted");
    kani::cover!(exp == Some(now_ns - 1) && r.is_err(), "exp == now - 1ns is rejected");
    kani::cover!(nbf == Some(now_ns) && r.is_ok(), "nbf == now is accepted");
    kani::cover!(nbf == Some(now_ns + 1) && r.is_err(), "nbf == now + 1ns is rejected");
    kani::cover!(exp.is_none() && nbf.is_none() && r.is_ok(), "no time claims");
    kani::cover!(now_ns == MIN_NS && exp == Some(MAX_NS), "extremes of the range");
    kani::cover!(true, "harness end reachable");
}

/// `valid_now()` is `valid_at(t)` for the value `t` the clock returns (the model's clock is fixed to an arbitrary `t`)
#[kani::proof] #[kani::unwind(4)]
pub fn time_valid_now_uses_clock() {
    let (now, now_ns) = any_ts();
    jiff::model_set_clock(now);
    let (c, exp, nbf) = time_claims();
    let r = Time::valid_now().validate(&c);
    let expect = exp.map_or(true, |e| e >= now_ns) && nbf.map_or(true, |n| n <= now_ns);
    vcheck_all!(
        (r.is_ok() == expect, "[C11] Time::valid_now() accepts iff (no exp or exp >= clock) and (no nbf or nbf <= clock)"),
        (r.is_ok() || is_claims_error(&r), "[C11] a rejecting time validator returns exactly PasetoError::ClaimsError"),
    );
    kani::cover!(r.is_ok()); kani::cover!(r.is_err());
    kani::cover!(true, "harness end reachable");
}

#[kani::proof] #[kani::unwind(4)]
pub fn time_with_leeway_exact() {
    let (now, now_ns) = any_ts();
    let (d, d_ns) = any_duration();
    let (c, exp, nbf) = time_claims();
    // the property's precondition: now - d and now + d are representable
    let pre = MIN_NS <= now_ns - d_ns && now_ns + d_ns <= MAX_NS;
    kani::cover!(pre, "precondition (now -/+ leeway representable) is satisfiable");
    kani::cover!(pre && d_ns > 0 && now_ns - d_ns == MIN_NS, "precondition tight at the lower end");
    kani::cover!(pre && d_ns > 0 && now_ns + d_ns == MAX_NS, "precondition tight at the upper end");
    kani::cover!(!pre, "there are (now, leeway) outside the precondition");
    kani::assume(pre);
    let r = Time::valid_at(now).with_leeway(d).validate(&c);
    let expect = exp.map_or(true, |e| e >= now_ns - d_ns) && nbf.map_or(true, |n| n <= now_ns + d_ns);
    vcheck_all!(
        (r.is_ok() == expect, "[C11] valid_at(now).with_leeway(d) accepts iff (no exp or exp >= now - d) and (no nbf or nbf <= now + d)"),
        (r.is_ok() || is_claims_error(&r), "[C11] a rejecting leeway validator returns exactly PasetoError::ClaimsError"),
    );
    kani::cover!(d_ns > 0 && exp == Some(now_ns - d_ns) && r.is_ok(), "exp == now - d is accepted");
    kani::cover!(d_ns > 0 && exp == Some(now_ns - d_ns - 1) && r.is_err(), "exp == now - d - 1ns is rejected");
    kani::cover!(d_ns > 0 && nbf == Some(now_ns + d_ns) && r.is_ok(), "nbf == now + d is accepted");
    kani::cover!(d_ns > 0 && nbf == Some(now_ns + d_ns + 1) && r.is_err(), "nbf == now + d + 1ns is rejected");
    kani::cover!(d_ns > 0 && exp.is_some() && exp.unwrap() < now_ns && r.is_ok(), "leeway rescues an expired token");
    kani::cover!(d.subsec_nanos() != 0 && d.as_secs() > 1_000_000_000, "sub-second and large leeways");
    kani::cover!(true, "harness end reachable");
}

/// the oracle's "leeway in nanoseconds" (shared with the model, see `any_duration`) is secs * 10^9 + nanos
#[kani::proof] #[kani::unwind(4)]
pub fn oracle_duration_nanos_exact() {
    let secs: u64 = kani::any();
    let nanos: u32 = kani::any();
    kani::assume(nanos < 1_000_000_000);
    let v = jiff::model_duration_nanos(Duration::new(secs, nanos));
    // independent arithmetic: u128, no overflow possible (< 2^94)
    let w = (secs as u128).wrapping_mul(1_000_000_000u128) + nanos as u128;
    vassert!(v >= 0 && v as u128 == w, "[C11] oracle helper: a Duration of (secs, nanos) is secs * 10^9 + nanos nanoseconds");
    kani::cover!(secs == u64::MAX && nanos == 999_999_999, "largest Duration");
    kani::cover!(true, "harness end reachable");
}

/// zero leeway is the plain time validator
#[kani::proof] #[kani::unwind(4)]
pub fn time_with_zero_leeway_is_time() {
    let (now, _) = any_ts();
    let (c, _, _) = time_claims();
    let r0 = Time::valid_at(now).validate(&c);
    let r1 = Time::valid_at(now).with_leeway(Duration::ZERO).validate(&c);
    vassert!(r0.is_ok() == r1.is_ok(), "[C11] a leeway of zero widens nothing: same verdict as Time::valid_at(now)");
    kani::cover!(r0.is_ok()); kani::cover!(r0.is_err());
    kani::cover!(true, "harness end reachable");
}

/// BOUNDARY OF THE CONTRACT (not registered in unit.py; run by hand, see NOTES.md). Outside the precondition the
/// subtraction/addition inside `TimeWithLeeway::validate` panics (jiff's `-`/`+` panic on overflow): with an `exp` claim and
/// `now - d` below Timestamp::MIN the call never returns. Nothing is asserted about it: it is not a C11 violation.
#[kani::proof] #[kani::unwind(4)] #[kani::should_panic]
pub fn manual_time_with_leeway_outside_precondition_panics() {
    let (now, now_ns) = any_ts();
    let (d, d_ns) = any_duration();
    let (exp, _) = any_ts();
    kani::assume(now_ns - d_ns < MIN_NS);
    let c = RegisteredClaims { iss: None, sub: None, aud: None, exp: Some(exp), nbf: None, iat: None, jti: None };
    let _ = Time::valid_at(now).with_leeway(d).validate(&c);
    // reached only if validate returned: it never does (this check is reported SUCCESS = unreachable)
    kani::assert(false, "[boundary] TimeWithLeeway::validate returned although now - leeway is not representable");
}

#[kani::proof] #[kani::unwind(4)]
pub fn has_expiry_exact() {
    let (c, exp, _) = time_claims();
    let r = HasExpiry.validate(&c);
    vcheck_all!(
        (r.is_ok() == exp.is_some(), "[C11] HasExpiry accepts iff exp is present"),
        (r.is_ok() || is_claims_error(&r), "[C11] rejecting HasExpiry returns exactly PasetoError::ClaimsError"),
    );
    kani::cover!(r.is_ok()); kani::cover!(r.is_err());
    kani::cover!(true, "harness end reachable");
}

// ---------------------------------------------------------------------------------------------------------------------
// string validators: claim presence, claim length `a`, expected length `b` and the decoy configuration are concrete per call
// (README rules 1, 3); contents are arbitrary ASCII. Decoys: the three other string claims all hold the expected string
// (`decoy = true`: a validator that looks at the wrong claim accepts wrongly) or are all absent (`decoy = false`: it rejects wrongly).
fn str_eq(x: &str, y: &str) -> bool {
    let (x, y) = (x.as_bytes(), y.as_bytes());
    if x.len() != y.len() { return false; }
    let mut i = 0;
    let mut e = true;
    while i < x.len() { e &= x[i] == y[i]; i += 1; }
    e
}
macro_rules! string_validator {
    ($fname:ident, $V:ident, $field:ident, $o1:ident, $o2:ident, $o3:ident, $msg:literal, $emsg:literal) => {
        fn $fname(present: bool, a: usize, b: usize, decoy: bool) -> bool {
            let claim = opt_ascii(present, a);
            let want = ascii(b);
            let mut c = RegisteredClaims::default();
            if decoy {
                c.$o1 = Some(want.clone());
                c.$o2 = Some(want.clone());
                c.$o3 = Some(want.clone());
            }
            let expect = match &claim { Some(x) => str_eq(x, &want), None => false };
            c.$field = claim;
            let r1 = $V(want.as_str()).validate(&c);         // T = &str
            let r2 = $V(want.clone()).validate(&c);          // T = String
            vcheck_all!(
                (r1.is_ok() == expect, $msg),
                (r2.is_ok() == expect, $msg),
                ((r1.is_ok() || is_claims_error(&r1)) && (r2.is_ok() || is_claims_error(&r2)), $emsg),
            );
            r1.is_ok()
        }
    };
}
string_validator!(for_subject_case, ForSubject, sub, iss, aud, jti,
    "[C11] ForSubject(s) accepts iff sub is present and equal to s", "[C11] rejecting ForSubject returns exactly PasetoError::ClaimsError");
string_validator!(from_issuer_case, FromIssuer, iss, sub, aud, jti,
    "[C11] FromIssuer(s) accepts iff iss is present and equal to s", "[C11] rejecting FromIssuer returns exactly PasetoError::ClaimsError");
string_validator!(for_audience_case, ForAudience, aud, iss, sub, jti,
    "[C11] ForAudience(s) accepts iff aud is present and equal to s", "[C11] rejecting ForAudience returns exactly PasetoError::ClaimsError");

macro_rules! string_harnesses {
    ($case:ident: $($h:ident ($can_accept:literal) => [$(($p:literal, $a:literal, $b:literal, $d:literal)),+]),+ $(,)?) => {
        $( #[kani::proof] #[kani::unwind(6)] pub fn $h() {
            let (mut all_acc, mut all_rej) = (true, true);
            $( let ok = $case($p, $a, $b, $d); all_acc &= ok; if !($p && $a == 0 && $b == 0) { all_rej &= !ok; } )+
            if $can_accept { kani::cover!(all_acc, "equal strings are accepted (every case at once)"); }
            kani::cover!(all_rej, "absent / different strings are rejected (every case at once)");
            kani::cover!(true, "harness end reachable");
        } )+
    };
}
// present claim of equal length 0..=3 (the only cases that can accept), with and without decoys
// absent claim (decoys hold the expected string) and every length-mismatch class
string_harnesses!(for_subject_case:
    for_subject_len_eq (true) => [(true, 0, 0, true), (true, 1, 1, false), (true, 2, 2, true), (true, 3, 3, false), (true, 3, 3, true)],
    for_subject_absent_or_len_ne (false) => [(false, 0, 0, true), (false, 0, 2, true), (false, 0, 1, false), (true, 0, 1, true), (true, 1, 0, true), (true, 2, 3, true), (true, 3, 2, false), (true, 1, 3, true)]);
string_harnesses!(from_issuer_case:
    from_issuer_len_eq (true) => [(true, 0, 0, true), (true, 1, 1, false), (true, 2, 2, true), (true, 3, 3, false), (true, 3, 3, true)],
    from_issuer_absent_or_len_ne (false) => [(false, 0, 0, true), (false, 0, 2, true), (false, 0, 1, false), (true, 0, 1, true), (true, 1, 0, true), (true, 2, 3, true), (true, 3, 2, false), (true, 1, 3, true)]);
string_harnesses!(for_audience_case:
    for_audience_len_eq (true) => [(true, 0, 0, true), (true, 1, 1, false), (true, 2, 2, true), (true, 3, 3, false), (true, 3, 3, true)],
    for_audience_absent_or_len_ne (false) => [(false, 0, 0, true), (false, 0, 2, true), (false, 0, 1, false), (true, 0, 1, true), (true, 1, 0, true), (true, 2, 3, true), (true, 3, 2, false), (true, 1, 3, true)]);

// ---------------------------------------------------------------------------------------------------------------------
#[kani::proof] #[kani::unwind(8)]
pub fn registered_claims_new_exact() {
    let (now, now_ns) = any_ts();
    let (d, d_ns) = any_duration();
    let pre = now_ns + d_ns <= MAX_NS;
    kani::cover!(pre && d_ns > 0 && now_ns + d_ns == MAX_NS, "largest representable expiry");
    kani::assume(pre); // now + d representable (otherwise jiff's `+` panics: contract boundary)
    let c = RegisteredClaims::new(now, d);
    vcheck_all!(
        (ts_eq(c.exp, Some(now_ns + d_ns)), "[C11] RegisteredClaims::new(now, d): exp == now + d exactly"),
        (ts_eq(c.nbf, Some(now_ns)) && ts_eq(c.iat, Some(now_ns)), "[C11] RegisteredClaims::new(now, d): nbf == iat == now"),
        (c.iss.is_none() && c.sub.is_none() && c.aud.is_none() && c.jti.is_none(), "[C11] RegisteredClaims::new(now, d): iss, sub, aud, jti absent"),
    );
    // consequence: fresh claims are valid at `now` and HasExpiry holds
    let r = Time::valid_at(now).and_then(HasExpiry).validate(&c);
    vassert!(r.is_ok(), "[C11] claims made by RegisteredClaims::new(now, d) pass Time::valid_at(now) and HasExpiry");
    kani::cover!(true, "harness end reachable");
}

/// `RegisteredClaims::now(d)` is `new(t, d)` for the clock value `t`
#[kani::proof] #[kani::unwind(8)]
pub fn registered_claims_now_exact() {
    let (now, now_ns) = any_ts();
    let (d, d_ns) = any_duration();
    kani::assume(now_ns + d_ns <= MAX_NS);
    jiff::model_set_clock(now);
    let c = RegisteredClaims::now(d);
    vcheck_all!(
        (ts_eq(c.exp, Some(now_ns + d_ns)), "[C11] RegisteredClaims::now(d): exp == clock + d exactly"),
        (ts_eq(c.nbf, Some(now_ns)) && ts_eq(c.iat, Some(now_ns)), "[C11] RegisteredClaims::now(d): nbf == iat == clock"),
        (c.iss.is_none() && c.sub.is_none() && c.aud.is_none() && c.jti.is_none(), "[C11] RegisteredClaims::now(d): iss, sub, aud, jti absent"),
    );
    kani::cover!(true, "harness end reachable");
}

fn same_str(a: &Option<String>, b: &Option<String>) -> bool {
    match (a, b) { (None, None) => true, (Some(x), Some(y)) => str_eq(x, y), _ => false }
}
fn same_ts(a: Option<jiff::Timestamp>, b: Option<jiff::Timestamp>) -> bool {
    match (a, b) { (None, None) => true, (Some(x), Some(y)) => x.model_nanos() == y.model_nanos(), _ => false }
}
/// `which` (the builder method), the argument length `n`, and the previous contents (present with length `m` / absent) are concrete
fn builder_case(which: u8, n: usize, prev: bool, m: usize) {
    let (exp, _) = any_opt_ts();
    let (nbf, _) = any_opt_ts();
    let (iat, _) = any_opt_ts();
    let c0 = RegisteredClaims { iss: opt_ascii(prev, m), sub: opt_ascii(!prev, m), aud: opt_ascii(prev, m), exp, nbf, iat, jti: opt_ascii(!prev, m) };
    let s = ascii(n);
    let c1 = match which {
        0 => c0.clone().from_issuer(s.clone()),
        1 => c0.clone().for_subject(s.clone()),
        2 => c0.clone().for_audience(s.clone()),
        _ => c0.clone().with_token_id(s.clone()),
    };
    let want = Some(s);
    let iss_ok = if which == 0 { same_str(&c1.iss, &want) } else { same_str(&c1.iss, &c0.iss) };
    let sub_ok = if which == 1 { same_str(&c1.sub, &want) } else { same_str(&c1.sub, &c0.sub) };
    let aud_ok = if which == 2 { same_str(&c1.aud, &want) } else { same_str(&c1.aud, &c0.aud) };
    let jti_ok = if which == 3 { same_str(&c1.jti, &want) } else { same_str(&c1.jti, &c0.jti) };
    vcheck_all!(
        (iss_ok, "[C11] builder methods: iss is set by from_issuer to exactly the argument and untouched by the others"),
        (sub_ok, "[C11] builder methods: sub is set by for_subject to exactly the argument and untouched by the others"),
        (aud_ok, "[C11] builder methods: aud is set by for_audience to exactly the argument and untouched by the others"),
        (jti_ok, "[C11] builder methods: jti is set by with_token_id to exactly the argument and untouched by the others"),
        (same_ts(c1.exp, c0.exp) && same_ts(c1.nbf, c0.nbf) && same_ts(c1.iat, c0.iat), "[C11] builder methods leave exp, nbf, iat untouched"),
    );
}
#[kani::proof] #[kani::unwind(6)]
pub fn builders_set_exactly_their_field() {
    builder_case(0, 2, true, 1);
    builder_case(1, 3, true, 2);
    builder_case(2, 1, false, 3);
    builder_case(3, 2, false, 1);
    builder_case(0, 0, false, 2);
    builder_case(3, 3, true, 0);
    kani::cover!(true, "harness end reachable");
}

/// builder + validator agree: claims built for (iss, sub, aud) pass exactly the matching validators
#[kani::proof] #[kani::unwind(8)]
pub fn built_claims_pass_their_validators() {
    let (now, now_ns) = any_ts();
    kani::assume(now_ns + 60_000_000_000 <= MAX_NS);
    let (i, s, a) = (ascii(1), ascii(2), ascii(1));
    let c = RegisteredClaims::new(now, Duration::from_secs(60)).from_issuer(i.clone()).for_subject(s.clone()).for_audience(a.clone());
    let r = FromIssuer(i.as_str()).and_then(ForSubject(s.as_str())).and_then(ForAudience(a.as_str())).and_then(Time::valid_at(now)).validate(&c);
    let other = ascii(1);
    let r2 = FromIssuer(other.as_str()).validate(&c);
    vcheck_all!(
        (r.is_ok(), "[C11] claims built with from_issuer/for_subject/for_audience pass FromIssuer/ForSubject/ForAudience of the same strings"),
        (r2.is_ok() == str_eq(&other, &i), "[C11] FromIssuer of another string rejects them"),
    );
    kani::cover!(r2.is_err()); kani::cover!(r2.is_ok());
    kani::cover!(true, "harness end reachable");
}

fn composition_case(iss_present: bool) {
    let (now, now_ns) = any_ts();
    let (mut c, exp, nbf) = time_claims();
    c.iss = opt_ascii(iss_present, 1);
    c.sub = Some(String::from("a")); // a decoy: the issuer validator must not look here
    let iss_is_a = match &c.iss { Some(x) => x.as_bytes().len() == 1 && x.as_bytes()[0] == b'a', None => false };
    let r = Time::valid_at(now).and_then(HasExpiry).and_then(FromIssuer("a")).validate(&c);
    let t_ok = exp.map_or(true, |e| e >= now_ns) && nbf.map_or(true, |n| n <= now_ns);
    let expect = t_ok && exp.is_some() && iss_is_a;
    vcheck_all!(
        (r.is_ok() == expect, "[C11] Time::valid_at(now).and_then(HasExpiry).and_then(FromIssuer(\"a\")) accepts iff all three accept"),
        (r.is_ok() || is_claims_error(&r), "[C11] the composition rejects with exactly PasetoError::ClaimsError"),
    );
    if iss_present {
        kani::cover!(r.is_ok(), "all three accept");
        kani::cover!(t_ok && exp.is_some() && !iss_is_a, "only the issuer check rejects");
        kani::cover!(t_ok && exp.is_none() && iss_is_a, "only HasExpiry rejects");
        kani::cover!(!t_ok && exp.is_some() && iss_is_a, "only the time check rejects");
    }
}
#[kani::proof] #[kani::unwind(6)]
pub fn composition_time_expiry_issuer() {
    composition_case(true);
    composition_case(false);
    kani::cover!(true, "harness end reachable");
}

/// canary: a false claim about the symbolic inputs, placed after every assumption of the time harnesses
#[kani::proof] #[kani::unwind(8)]
pub fn canary_validators() {
    let (now, now_ns) = any_ts();
    let (d, d_ns) = any_duration();
    let (mut c, exp, nbf) = time_claims();
    c.sub = opt_ascii(true, 2);
    kani::assume(MIN_NS <= now_ns - d_ns && now_ns + d_ns <= MAX_NS);
    let r = Time::valid_at(now).with_leeway(d).validate(&c);
    let w = ascii(2);
    let r2 = ForSubject(w.as_str()).validate(&c);
    vassert!(r.is_err() || r2.is_ok(), "canary: must fail");
}
