from vrf.core import Unit, Harness

L = "paseto-json/src/lib.rs"

JIFF_ASSUMPTION = ("jiff 0.2.15 contract model (models/jiff): Timestamp is an instant at ns resolution in seconds -377705023201..=253402207200, "
                   "ordered chronologically; Timestamp +/- std Duration is exact and panics when the result is outside that range; "
                   "Timestamp::now() returns some timestamp of the range")
STR_BOUND = "claim / expected strings of 0..=3 arbitrary ASCII bytes (lengths enumerated per call, contents symbolic)"


def units():
    fv = [f"{L}::{f}" for f in ("Time::valid_now", "Time::valid_at", "Time::with_leeway", "<Time as Validate>::validate", "<TimeWithLeeway as Validate>::validate",
                                "<ForSubject as Validate>::validate", "<FromIssuer as Validate>::validate", "<ForAudience as Validate>::validate",
                                "<HasExpiry as Validate>::validate", "RegisteredClaims::new", "RegisteredClaims::now", "RegisteredClaims::from_issuer",
                                "RegisteredClaims::for_audience", "RegisteredClaims::for_subject", "RegisteredClaims::with_token_id")]
    hv = [
        Harness("time_valid_at_exact", ["C11"], functions=fv, desc="all now, exp, nbf (absent / anywhere in jiff's range): accept iff exp >= now and nbf <= now; ClaimsError otherwise"),
        Harness("time_valid_now_uses_clock", ["C11"], functions=fv, desc="valid_now() == valid_at(clock value)"),
        Harness("time_with_leeway_exact", ["C11"], functions=fv,
                desc="all now, all Durations d with now-d and now+d representable (precondition assumed, covered): accept iff exp >= now-d and nbf <= now+d"),
        Harness("time_with_zero_leeway_is_time", ["C11"], functions=fv),
        Harness("oracle_duration_nanos_exact", ["C11"], desc="oracle/model helper: Duration -> nanoseconds is secs*10^9+nanos for all Durations (one SAT multiplier-equivalence proof, ~100 s)"),
        Harness("has_expiry_exact", ["C11"], functions=fv),
    ]
    for v in ("for_subject", "from_issuer", "for_audience"):
        hv.append(Harness(f"{v}_len_eq", ["C11"], complete=False, bound=STR_BOUND + "; equal lengths 0,1,2,3", functions=fv))
        hv.append(Harness(f"{v}_absent_or_len_ne", ["C11"], complete=False, bound=STR_BOUND + "; claim absent, or length pairs (0,1),(1,0),(2,3),(3,2),(1,3)", functions=fv))
    hv += [
        Harness("registered_claims_new_exact", ["C11"], functions=fv, desc="all now, d with now+d representable: exp == now+d, nbf == iat == now, strings absent"),
        Harness("registered_claims_now_exact", ["C11"], functions=fv),
        Harness("builders_set_exactly_their_field", ["C11"], complete=False, bound="argument / previous strings of 0..=3 ASCII bytes (6 method x length configurations)", functions=fv),
        Harness("built_claims_pass_their_validators", ["C11"], complete=False, bound="strings of 1..=2 ASCII bytes", functions=fv),
        Harness("composition_time_expiry_issuer", ["C11"], complete=False, bound="iss of 1 ASCII byte (absent/present); timestamps unbounded", functions=fv,
                desc="Time::valid_at(now).and_then(HasExpiry).and_then(FromIssuer(\"a\")) accepts iff all three do"),
        Harness("canary_validators", ["C11"], expect="fail"),
    ]
    common = dict(members=["paseto-core", "paseto-json"], package="paseto-json", patches={"jiff": "models/jiff"},
                  kani_flags=["--no-assertion-reach-checks"], harness_path="verif",
                  # paseto-json forbids unsafe code: the one unsafe harness step (ASCII bytes -> String of concrete length) is in a helper crate
                  extra_files=[("verif-models/vhelp", "units/u5_json/vhelp")],
                  dev_deps={"paseto-json/Cargo.toml": ['vhelp = { path = "../verif-models/vhelp" }']})
    fs = [f"{L}::{f}" for f in ("<RegisteredClaims as Serialize>::serialize", "RegisteredClaimFieldVisitor::{visit_str,visit_bytes}", "<RegisteredClaimField as Deserialize>::deserialize",
                                "RegisteredClaimsVisitor::visit_map", "<RegisteredClaims as Deserialize>::deserialize", "<Writer as io::Write>::{write,flush}",
                                "<Json<T> as Footer>::decode (empty footer arm)")]
    masks = [f"p{m:03d}" for m in range(0, 128, 8)]
    MB = "string claims of 0..=3 arbitrary ASCII bytes (length fixed per presence pattern, contents symbolic); timestamps anywhere in jiff's range"
    hs = [Harness(f"serialize_exact_{m}", ["C14"], complete=False, bound=f"the 8 presence patterns {int(m[1:])}..{int(m[1:]) + 7} of the 128 (all 128 covered by the 16 harnesses); " + MB, functions=fs,
                  desc="recording Serializer: exactly the present claims, declaration order, registered names, no null, strings byte for byte, timestamps in their own serde form")
          for m in masks]
    hs += [Harness(f"roundtrip_p{m:03d}", ["C14"], complete=False, bound=f"the 4 presence patterns {m}..{m + 3} of the 128 (all 128 covered by the 32 harnesses); " + MB, functions=fs,
                   desc="deserialize(events emitted by serialize(c)) == c field by field") for m in range(0, 128, 4)]
    SB = "maps of exactly {n} members; keys symbolic over the 7 registered names and 5 unregistered ones (same length, prefix, extension, other case, empty), delivered as str or bytes; values symbolic: null / ASCII string of <= 3 bytes / timestamp (any i128) / number"
    for n in range(5):
        hs.append(Harness(f"deserialize_script_n{n}", ["C14"], complete=False, bound=SB.format(n=n), functions=fs, tier="quick" if n < 4 else "thorough", timeout=1800,
                          desc="scripted MapAccess: last-wins values, unknown members ignored but consumed, wrong type / repeated non-null claim = error (duplicate_field), MapAccess protocol"))
    hs += [
        Harness("deserialize_order_independent_n2", ["C14"], complete=False, bound="2 members with different keys, both orders", functions=fs),
        Harness("deserialize_order_independent_n3", ["C14"], complete=False, bound="3 members with pairwise different keys, all 6 orders (reversal + rotation)", functions=fs, timeout=2400, tier="thorough"),
        Harness("field_names_exact", ["C14"], complete=False, bound="one member; key = every ASCII string of length 0..=4", functions=fs),
        Harness("writer_forwards_every_byte", ["C14"], complete=False, bound="buffers of 0..=4 bytes", functions=fs),
        Harness("footer_empty_rejected", ["C14"], functions=fs),
        Harness("canary_serde", ["C14"], expect="fail"),
    ]
    return [
        Unit(name="u6_serde", inject=[(L, "units/u5_json/serde.rs")], harnesses=hs,
             assumptions=[JIFF_ASSUMPTION + "; Timestamp's Serialize/Deserialize are inverse on the range (model: one opaque serialize_i128/deserialize_i128 call)",
                          "THIRD-PARTY, ASSUMED: serde_json maps JSON text to serde data-model events and back (objects <-> struct/map events, strings byte for byte incl. escapes, null <-> none/unit, "
                          "exactly one value per key); jiff maps RFC 3339 text to Timestamp and back at ns resolution. Nothing about JSON or RFC 3339 TEXT is checked here",
                          "serde_core's own impls (Option<T>, String, IgnoredAny, PhantomData seeds) are compiled as they are"],
             trusted=["serde_core 1.0.221 (Deserialize for Option/String/IgnoredAny, forward_to_deserialize_any), alloc::string::String as compiled by Kani"],
             **common),
        Unit(name="u5_validators", inject=[(L, "units/u5_json/validators.rs")], harnesses=hv,
             assumptions=[JIFF_ASSUMPTION,
                          "precondition of the leeway validator (from the property): now - leeway and now + leeway are representable Timestamps; "
                          "outside it jiff's +/- panic inside TimeWithLeeway::validate (contract boundary, see units/u5_json/NOTES.md)",
                          "strings are ASCII (str equality is bytewise, so non-ASCII adds nothing but longer memcmp)"],
             trusted=["alloc::string::String / str equality (memcmp) as compiled by Kani", "paseto_core::validation::ValidateThen (unit u4_validation)"],
             **common),
    ]
