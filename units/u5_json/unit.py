from vrf.core import Unit, Harness

L = "paseto-json/src/lib.rs"

JIFF_ASSUMPTION = ("jiff 0.2.15 contract model (models/jiff): Timestamp is an instant at ns resolution in seconds -377705023201..=253402207200, "
                   "ordered chronologically; Timestamp +/- std Duration is exact and panics when the result is outside that range; "
                   "Timestamp::now() returns some timestamp of the range")
STR_BOUND = "claim / expected strings of 0..=3 arbitrary ASCII bytes (lengths enumerated per call, contents symbolic)"


def units():
    fv = [f"{L}::{f}" for f in ("Time::valid_now", "Time::valid_at", "Time::with_leeway", "<Time as Validate>::validate", "<TimeWithLeeway as Validate>::validate",
                                "<ForSubject as Validate>::validate", "<FromIssuer as Validate>::validate", "<ForAudience as Validate>::validate",
                                "<HasExpiry as Validate>::validate", "RegisteredClaims::new", "RegisteredClaims::now", "RegisteredClaims::from_issuer",
                                "RegisteredClaims::for_audience", "RegisteredClaims::for_subject", "RegisteredClaims::with_token_id")]
    hv = [
        Harness("time_valid_at_exact", ["C11"], functions=fv, desc="all now, exp, nbf (absent / anywhere in jiff's range): accept iff exp >= now and nbf <= now; ClaimsError otherwise"),
        Harness("time_valid_now_uses_clock", ["C11"], functions=fv, desc="valid_now() == valid_at(clock value)"),
        Harness("time_with_leeway_exact", ["C11"], functions=fv,
                desc="all now, all Durations d with now-d and now+d representable (precondition assumed, covered): accept iff exp >= now-d and nbf <= now+d"),
        Harness("time_with_zero_leeway_is_time", ["C11"], functions=fv),
        Harness("has_expiry_exact", ["C11"], functions=fv),
    ]
    for v in ("for_subject", "from_issuer", "for_audience"):
        hv.append(Harness(f"{v}_len_eq", ["C11"], complete=False, bound=STR_BOUND + "; equal lengths 0,1,2,3", functions=fv))
        hv.append(Harness(f"{v}_len_ne", ["C11"], complete=False, bound=STR_BOUND + "; length pairs (0,1),(1,0),(2,3),(3,2),(1,3),(3,0)", functions=fv))
    hv += [
        Harness("registered_claims_new_exact", ["C11"], functions=fv, desc="all now, d with now+d representable: exp == now+d, nbf == iat == now, strings absent"),
        Harness("registered_claims_now_exact", ["C11"], functions=fv),
        Harness("builders_set_exactly_their_field", ["C11"], complete=False, bound="argument / previous strings of 0..=3 ASCII bytes (3 length pairs)", functions=fv),
        Harness("built_claims_pass_their_validators", ["C11"], complete=False, bound="strings of 1..=2 ASCII bytes", functions=fv),
        Harness("composition_time_expiry_issuer", ["C11"], complete=False, bound="iss of 1 ASCII byte (absent/present); timestamps unbounded", functions=fv,
                desc="Time::valid_at(now).and_then(HasExpiry).and_then(FromIssuer(\"a\")) accepts iff all three do"),
        Harness("canary_validators", ["C11"], expect="fail"),
    ]
    common = dict(members=["paseto-core", "paseto-json"], package="paseto-json", patches={"jiff": "models/jiff"},
                  kani_flags=["--no-assertion-reach-checks"], harness_path="verif")
    return [
        Unit(name="u5_validators", inject=[(L, "units/u5_json/validators.rs")], harnesses=hv,
             assumptions=[JIFF_ASSUMPTION,
                          "precondition of the leeway validator (from the property): now - leeway and now + leeway are representable Timestamps; "
                          "outside it jiff's +/- panic inside TimeWithLeeway::validate (contract boundary, see units/u5_json/NOTES.md)",
                          "strings are ASCII (str equality is bytewise, so non-ASCII adds nothing but longer memcmp)"],
             trusted=["alloc::string::String / str equality (memcmp) as compiled by Kani", "paseto_core::validation::ValidateThen (unit u4_validation)"],
             **common),
    ]
