// U6 — hand-written serde glue of `RegisteredClaims` (property C14) against serde's DATA MODEL:
//   * `impl Serialize for RegisteredClaims` is run into a RECORDING `Serializer` (every trait call becomes an event);
//   * `impl Deserialize for RegisteredClaims` (RegisteredClaimsVisitor::visit_map, RegisteredClaimFieldVisitor) is driven by a
//     SCRIPTED self-describing `Deserializer`/`MapAccess` (keys and values chosen by the harness) that also checks that the
//     code under test respects the MapAccess protocol (exactly one next_value after every next_key).
// Both are reached only through the public trait impls (the visitors are private to `claims_impls`).
// ASSUMED, not checked here: JSON text <-> serde events (serde_json) and RFC 3339 text <-> Timestamp (jiff; the model crate
// serialises a Timestamp through the single opaque call serialize_i128 / deserialize_i128).
// No `unsafe` (the crate forbids it): ghost state lives in `Cell`/`RefCell` locals.
use core::cell::{Cell, RefCell};
use core::fmt;
use serde_core::de::{self, DeserializeSeed, MapAccess, Visitor};
use serde_core::ser::{self, Impossible, SerializeStruct};
use serde_core::{Deserialize, Deserializer, Serializer};

macro_rules! vassert { ($c:expr, $m:literal) => { kani::assert($c, $m) }; }
macro_rules! vcheck_all {
    ($( ($c:expr, $m:literal) ),+ $(,)?) => {{
        let conds = [$($c),+];
        let sel: u8 = kani::any();
        let mut k = 0u8;
        $( if sel == k { kani::assert(conds[k as usize], $m); } k += 1; )+
        let _ = k;
    }};
}

const MIN_NS: i128 = -377705023201 * 1_000_000_000;
const MAX_NS: i128 = 253402207200 * 1_000_000_000 + 999_999_999;
/// the seven registered claim names in declaration order (from the property / PASETO spec, not from the code)
static REG: [&str; 7] = ["iss", "sub", "aud", "exp", "nbf", "iat", "jti"];
/// key alphabet of the scripted maps: the 7 registered names, then names that are NOT registered (same length, prefix,
/// extension, other case, empty)
static NAMES: [&str; 12] = ["iss", "sub", "aud", "exp", "nbf", "iat", "jti", "xyz", "is", "isss", "ISS", ""];
const NK: u8 = 12;
const NONE: usize = 255;

fn bytes_eq(a: &[u8], b: &[u8]) -> bool {
    if a.len() != b.len() { return false; }
    let mut i = 0;
    let mut e = true;
    while i < b.len() { e &= a[i] == b[i]; i += 1; }
    e
}
/// index of a registered name, 7 for anything else
fn name_id(s: &[u8]) -> u8 {
    let mut f = 0;
    let mut id = 7u8;
    while f < 7 { if bytes_eq(s, REG[f].as_bytes()) { id = f as u8; } f += 1; }
    id
}
fn is_str_field(f: usize) -> bool { f <= 2 || f == 6 }
fn ascii(n: usize) -> String { vhelp::ascii_string(kani::any(), n) }
fn opt_ascii(present: bool, n: usize) -> Option<String> { if present { Some(ascii(n)) } else { None } }
fn any_ts() -> jiff::Timestamp {
    let ns: i128 = kani::any();
    kani::assume(MIN_NS <= ns && ns <= MAX_NS);
    jiff::Timestamp::model_from_nanos(ns).unwrap()
}
fn opt_ts(present: bool) -> Option<jiff::Timestamp> { if present { Some(any_ts()) } else { None } }

// ---------------------------------------------------------------------------------------------------------------------
// error type of the harness formats: plain integers
#[derive(Debug, Clone, Copy)]
pub struct E { kind: u8, field: u8 }
const E_CUSTOM: u8 = 1;
const E_DUP: u8 = 2;
const E_TYPE: u8 = 3;
const E_OTHER: u8 = 4;
const E_HARNESS: u8 = 9;
impl fmt::Display for E { fn fmt(&self, f: &mut fmt::Formatter<'_>) -> fmt::Result { f.write_str("harness format error") } }
impl std::error::Error for E {}
impl ser::Error for E { fn custom<T: fmt::Display>(_m: T) -> Self { E { kind: E_CUSTOM, field: 255 } } }
impl de::Error for E {
    fn custom<T: fmt::Display>(_m: T) -> Self { E { kind: E_CUSTOM, field: 255 } }
    fn invalid_type(_u: de::Unexpected, _e: &dyn de::Expected) -> Self { E { kind: E_TYPE, field: 255 } }
    fn invalid_value(_u: de::Unexpected, _e: &dyn de::Expected) -> Self { E { kind: E_TYPE, field: 255 } }
    fn invalid_length(_l: usize, _e: &dyn de::Expected) -> Self { E { kind: E_OTHER, field: 255 } }
    fn unknown_variant(_v: &str, _e: &'static [&'static str]) -> Self { E { kind: E_OTHER, field: 255 } }
    fn unknown_field(_v: &str, _e: &'static [&'static str]) -> Self { E { kind: E_OTHER, field: 255 } }
    fn missing_field(_f: &'static str) -> Self { E { kind: E_OTHER, field: 255 } }
    fn duplicate_field(f: &'static str) -> Self { E { kind: E_DUP, field: name_id(f.as_bytes()) } }
}

/// one map member in serde's data model: what the recording serializer logs and what the scripted deserializer plays.
/// vk: 0 = null/unit/none, 1 = string `s`, 2 = Timestamp in its own serde form (opaque i128 `t`), 3 = something else (a number),
///     4 = "universal" (answers whatever type is asked for; only used by the field-name harness)
/// via: how the key is handed to the key visitor (0 = visit_str, 1 = visit_bytes)
pub struct Ent<'k> { key: &'k str, via: u8, vk: u8, s: String, t: i128 }
const V_NULL: u8 = 0;
const V_STR: u8 = 1;
const V_TS: u8 = 2;
const V_OTHER: u8 = 3;
const V_UNIVERSAL: u8 = 4;

// ---------------------------------------------------------------------------------------------------------------------
// recording Serializer
pub struct Log { ev: [Ent<'static>; 8], n: usize, begun: u8, ended: u8, name_ok: u8, len_decl: usize, late: u8, skipped: u8, top_other: u8, some_wrapped: u8 }
impl Log {
    fn new() -> RefCell<Log> {
        // a local array written at concrete indices (a Vec on the heap loses CBMC's constant propagation of the event kinds)
        let e = || Ent { key: "", via: 0, vk: V_OTHER, s: String::new(), t: 0 };
        RefCell::new(Log { ev: [e(), e(), e(), e(), e(), e(), e(), e()], n: 0, begun: 0, ended: 0, name_ok: 0, len_decl: 0x5eed, late: 0, skipped: 0, top_other: 0, some_wrapped: 0 })
    }
}
struct Val { vk: u8, s: String, t: i128 }
impl Val {
    fn other() -> Result<Val, E> { Ok(Val { vk: V_OTHER, s: String::new(), t: 0 }) }
}
macro_rules! scalars {
    ($ok:ty, $e:expr; $($m:ident($t:ty)),*) => { $( fn $m(self, _v: $t) -> Result<$ok, E> { $e } )* };
}
macro_rules! no_compounds {
    ($ok:ty) => {
        type SerializeSeq = Impossible<$ok, E>;
        type SerializeTuple = Impossible<$ok, E>;
        type SerializeTupleStruct = Impossible<$ok, E>;
        type SerializeTupleVariant = Impossible<$ok, E>;
        type SerializeMap = Impossible<$ok, E>;
        type SerializeStructVariant = Impossible<$ok, E>;
        fn serialize_seq(self, _l: Option<usize>) -> Result<Self::SerializeSeq, E> { Err(E { kind: E_HARNESS, field: 255 }) }
        fn serialize_tuple(self, _l: usize) -> Result<Self::SerializeTuple, E> { Err(E { kind: E_HARNESS, field: 255 }) }
        fn serialize_tuple_struct(self, _n: &'static str, _l: usize) -> Result<Self::SerializeTupleStruct, E> { Err(E { kind: E_HARNESS, field: 255 }) }
        fn serialize_tuple_variant(self, _n: &'static str, _i: u32, _v: &'static str, _l: usize) -> Result<Self::SerializeTupleVariant, E> { Err(E { kind: E_HARNESS, field: 255 }) }
        fn serialize_map(self, _l: Option<usize>) -> Result<Self::SerializeMap, E> { Err(E { kind: E_HARNESS, field: 255 }) }
        fn serialize_struct_variant(self, _n: &'static str, _i: u32, _v: &'static str, _l: usize) -> Result<Self::SerializeStructVariant, E> { Err(E { kind: E_HARNESS, field: 255 }) }
    };
}

/// serializer for one field value: returns what was emitted
struct ValSer<'a> { log: &'a RefCell<Log> }
impl<'a> Serializer for ValSer<'a> {
    type Ok = Val;
    type Error = E;
    type SerializeStruct = Impossible<Val, E>;
    no_compounds!(Val);
    scalars!(Val, Val::other(); serialize_bool(bool), serialize_i8(i8), serialize_i16(i16), serialize_i32(i32), serialize_i64(i64), serialize_u8(u8), serialize_u16(u16),
             serialize_u32(u32), serialize_u64(u64), serialize_u128(u128), serialize_f32(f32), serialize_f64(f64), serialize_char(char), serialize_bytes(&[u8]),
             serialize_unit_struct(&'static str));
    fn serialize_str(self, v: &str) -> Result<Val, E> { Ok(Val { vk: V_STR, s: v.to_owned(), t: 0 }) }
    fn serialize_i128(self, v: i128) -> Result<Val, E> { Ok(Val { vk: V_TS, s: String::new(), t: v }) }
    fn serialize_none(self) -> Result<Val, E> { Ok(Val { vk: V_NULL, s: String::new(), t: 0 }) }
    fn serialize_unit(self) -> Result<Val, E> { Ok(Val { vk: V_NULL, s: String::new(), t: 0 }) }
    fn serialize_some<T: ?Sized + Serialize>(self, v: &T) -> Result<Val, E> {
        // transparent, as in JSON
        self.log.borrow_mut().some_wrapped += 1;
        v.serialize(self)
    }
    fn serialize_newtype_struct<T: ?Sized + Serialize>(self, _n: &'static str, v: &T) -> Result<Val, E> { v.serialize(self) }
    fn serialize_unit_variant(self, _n: &'static str, _i: u32, _v: &'static str) -> Result<Val, E> { Val::other() }
    fn serialize_newtype_variant<T: ?Sized + Serialize>(self, _n: &'static str, _i: u32, _v: &'static str, _x: &T) -> Result<Val, E> { Val::other() }
    fn serialize_struct(self, _n: &'static str, _l: usize) -> Result<Self::SerializeStruct, E> { Err(E { kind: E_HARNESS, field: 255 }) }
}

/// top-level serializer: the value must be emitted as ONE struct (JSON object)
struct TopSer<'a> { log: &'a RefCell<Log> }
struct StructRec<'a> { log: &'a RefCell<Log> }
impl<'a> TopSer<'a> {
    fn other(self) -> Result<(), E> { self.log.borrow_mut().top_other += 1; Err(E { kind: E_HARNESS, field: 255 }) }
}
impl<'a> Serializer for TopSer<'a> {
    type Ok = ();
    type Error = E;
    type SerializeStruct = StructRec<'a>;
    no_compounds!(());
    scalars!((), { Err(E { kind: E_HARNESS, field: 255 }) }; serialize_bool(bool), serialize_i8(i8), serialize_i16(i16), serialize_i32(i32), serialize_i64(i64), serialize_u8(u8),
             serialize_u16(u16), serialize_u32(u32), serialize_u64(u64), serialize_f32(f32), serialize_f64(f64), serialize_char(char), serialize_bytes(&[u8]),
             serialize_unit_struct(&'static str), serialize_str(&str));
    fn serialize_none(self) -> Result<(), E> { self.other() }
    fn serialize_unit(self) -> Result<(), E> { self.other() }
    fn serialize_some<T: ?Sized + Serialize>(self, _v: &T) -> Result<(), E> { self.other() }
    fn serialize_newtype_struct<T: ?Sized + Serialize>(self, _n: &'static str, _v: &T) -> Result<(), E> { self.other() }
    fn serialize_unit_variant(self, _n: &'static str, _i: u32, _v: &'static str) -> Result<(), E> { self.other() }
    fn serialize_newtype_variant<T: ?Sized + Serialize>(self, _n: &'static str, _i: u32, _v: &'static str, _x: &T) -> Result<(), E> { self.other() }
    fn serialize_struct(self, name: &'static str, len: usize) -> Result<StructRec<'a>, E> {
        {
            let mut l = self.log.borrow_mut();
            l.begun += 1;
            l.name_ok = bytes_eq(name.as_bytes(), b"RegisteredClaims") as u8;
            l.len_decl = len;
        }
        Ok(StructRec { log: self.log })
    }
}
impl<'a> SerializeStruct for StructRec<'a> {
    type Ok = ();
    type Error = E;
    fn serialize_field<T: ?Sized + Serialize>(&mut self, key: &'static str, value: &T) -> Result<(), E> {
        let v = value.serialize(ValSer { log: self.log })?;
        let via: u8 = kani::any();
        kani::assume(via < 2);
        let mut l = self.log.borrow_mut();
        if l.ended != 0 { l.late += 1; }
        assert!(l.n < 8, "[model] capacity: recording serializer holds 8 events");
        let i = l.n;
        l.ev[i] = Ent { key, via, vk: v.vk, s: v.s, t: v.t };
        l.n = i + 1;
        Ok(())
    }
    fn skip_field(&mut self, _key: &'static str) -> Result<(), E> { self.log.borrow_mut().skipped += 1; Ok(()) }
    fn end(self) -> Result<(), E> { self.log.borrow_mut().ended += 1; Ok(()) }
}

// ---------------------------------------------------------------------------------------------------------------------
// scripted Deserializer / MapAccess
pub struct Ghost { keys: Cell<u8>, vals: Cell<u8>, want_value: Cell<u8>, bad: Cell<u8>, struct_call: Cell<u8>, fields_ok: Cell<u8> }
impl Ghost {
    fn new() -> Ghost { Ghost { keys: Cell::new(0), vals: Cell::new(0), want_value: Cell::new(0), bad: Cell::new(0), struct_call: Cell::new(0), fields_ok: Cell::new(0) } }
}
struct KeyDe<'a> { name: &'a str, via: u8 }
impl<'de, 'a> Deserializer<'de> for KeyDe<'a> {
    type Error = E;
    fn deserialize_any<V: Visitor<'de>>(self, v: V) -> Result<V::Value, E> {
        if self.via == 0 { v.visit_str(self.name) } else { v.visit_bytes(self.name.as_bytes()) }
    }
    serde_core::forward_to_deserialize_any! { bool i8 i16 i32 i64 i128 u8 u16 u32 u64 u128 f32 f64 char str string bytes byte_buf option unit unit_struct
        newtype_struct seq tuple tuple_struct map struct enum identifier ignored_any }
}
/// a self-describing value (like a JSON value): a typed request that does not fit is answered with what the value is.
/// A Timestamp value (vk 2) is opaque: only `deserialize_i128` (the model Timestamp's own request) sees it; any other typed
/// request for it is a type error of the format (this also keeps serde's default `visit_i128`, which formats the number
/// into its error message, out of the harness: core::fmt on an i128 is hundreds of loop iterations for CBMC).
struct ValDe<'a> { e: &'a Ent<'a> }
impl<'de, 'a> Deserializer<'de> for ValDe<'a> {
    type Error = E;
    fn deserialize_any<V: Visitor<'de>>(self, v: V) -> Result<V::Value, E> {
        match self.e.vk {
            V_NULL => v.visit_unit(),
            V_STR => v.visit_str(&self.e.s),
            V_TS => Err(E { kind: E_TYPE, field: 255 }),
            V_UNIVERSAL => v.visit_unit(),
            _ => v.visit_u64(7),
        }
    }
    fn deserialize_option<V: Visitor<'de>>(self, v: V) -> Result<V::Value, E> {
        if self.e.vk == V_NULL { v.visit_none() } else { v.visit_some(self) }
    }
    fn deserialize_i128<V: Visitor<'de>>(self, v: V) -> Result<V::Value, E> {
        if self.e.vk == V_UNIVERSAL || self.e.vk == V_TS { v.visit_i128(self.e.t) } else { self.deserialize_any(v) }
    }
    fn deserialize_string<V: Visitor<'de>>(self, v: V) -> Result<V::Value, E> {
        if self.e.vk == V_UNIVERSAL { v.visit_str(&self.e.s) } else { self.deserialize_any(v) }
    }
    fn deserialize_str<V: Visitor<'de>>(self, v: V) -> Result<V::Value, E> { self.deserialize_string(v) }
    fn deserialize_ignored_any<V: Visitor<'de>>(self, v: V) -> Result<V::Value, E> {
        // whatever the value is, it is skipped
        if self.e.vk == V_STR { v.visit_str(&self.e.s) } else { v.visit_unit() }
    }
    serde_core::forward_to_deserialize_any! { bool i8 i16 i32 i64 u8 u16 u32 u64 u128 f32 f64 char bytes byte_buf unit unit_struct
        newtype_struct seq tuple tuple_struct map struct enum identifier }
}
/// `pos` = number of keys handed out. It advances in `next_key_seed`, never in `next_value_seed`, so that it stays a CONCRETE
/// number for CBMC whatever the code under test does with the values (a caller that skips a value would otherwise leave a
/// symbolic position behind and its `while let Some(key)` loop would be unrolled to the unwind bound: 1400 s of symex).
struct ScriptMap<'a> { ents: &'a [Ent<'a>], n: usize, pos: usize, g: &'a Ghost }
impl<'de, 'a> MapAccess<'de> for ScriptMap<'a> {
    type Error = E;
    fn next_key_seed<K: DeserializeSeed<'de>>(&mut self, seed: K) -> Result<Option<K::Value>, E> {
        let g = self.g;
        g.keys.set(g.keys.get() + 1);
        let pending = g.want_value.get() != 0;
        if self.pos >= self.n {
            // concretely `Ok(None)` (no symbolic Ok/Err merge here): this is what ends the caller's loop for CBMC
            if pending { g.bad.set(1); }
            return Ok(None);
        }
        let e = &self.ents[self.pos];
        self.pos += 1;
        if pending {
            // the previous member's value was never taken: a real format is now positioned on that value, not on a key,
            // and reports a syntax error
            g.bad.set(1);
            return Err(E { kind: E_HARNESS, field: 255 });
        }
        g.want_value.set(1);
        match seed.deserialize(KeyDe { name: e.key, via: e.via }) { Ok(k) => Ok(Some(k)), Err(e) => Err(e) }
    }
    fn next_value_seed<V: DeserializeSeed<'de>>(&mut self, seed: V) -> Result<V::Value, E> {
        let g = self.g;
        g.vals.set(g.vals.get() + 1);
        if g.want_value.get() != 1 || self.pos == 0 {
            // value without a key / second value for one key
            g.bad.set(1);
            return Err(E { kind: E_HARNESS, field: 255 });
        }
        g.want_value.set(0);
        seed.deserialize(ValDe { e: &self.ents[self.pos - 1] })
    }
}
struct TopDe<'a> { ents: &'a [Ent<'a>], n: usize, g: &'a Ghost }
impl<'de, 'a> Deserializer<'de> for TopDe<'a> {
    type Error = E;
    fn deserialize_any<V: Visitor<'de>>(self, v: V) -> Result<V::Value, E> {
        v.visit_map(ScriptMap { ents: self.ents, n: self.n, pos: 0, g: self.g })
    }
    fn deserialize_struct<V: Visitor<'de>>(self, name: &'static str, fields: &'static [&'static str], v: V) -> Result<V::Value, E> {
        self.g.struct_call.set(self.g.struct_call.get() + 1);
        let _ = name; // irrelevant to JSON; its 16-byte comparison would only raise the unwind bound
        let mut ok = fields.len() == 7;
        let mut f = 0;
        while f < 7 { if f < fields.len() { ok &= bytes_eq(fields[f].as_bytes(), REG[f].as_bytes()); } f += 1; }
        self.g.fields_ok.set(ok as u8);
        self.deserialize_any(v)
    }
    serde_core::forward_to_deserialize_any! { bool i8 i16 i32 i64 i128 u8 u16 u32 u64 u128 f32 f64 char str string bytes byte_buf option unit unit_struct
        newtype_struct seq tuple tuple_struct map enum identifier ignored_any }
}
fn play(ents: &[Ent<'_>], n: usize, g: &Ghost) -> Result<RegisteredClaims, E> {
    RegisteredClaims::deserialize(TopDe { ents, n, g })
}

fn record(c: &RegisteredClaims) -> (RefCell<Log>, Result<(), E>) {
    let log = Log::new();
    let r = c.serialize(TopSer { log: &log });
    (log, r)
}

// ---------------------------------------------------------------------------------------------------------------------
// claims with CONCRETE presence pattern `mask` (bit f = field f of REG present) and concrete string lengths; contents symbolic
fn claims_for(mask: u8, l: [usize; 4]) -> RegisteredClaims {
    RegisteredClaims {
        iss: opt_ascii(mask & 1 != 0, l[0]), sub: opt_ascii(mask & 2 != 0, l[1]), aud: opt_ascii(mask & 4 != 0, l[2]),
        exp: opt_ts(mask & 8 != 0), nbf: opt_ts(mask & 16 != 0), iat: opt_ts(mask & 32 != 0), jti: opt_ascii(mask & 64 != 0, l[3]),
    }
}
fn str_field<'c>(c: &'c RegisteredClaims, f: usize) -> &'c Option<String> {
    match f { 0 => &c.iss, 1 => &c.sub, 2 => &c.aud, _ => &c.jti }
}
fn ts_field(c: &RegisteredClaims, f: usize) -> Option<jiff::Timestamp> {
    match f { 3 => c.exp, 4 => c.nbf, _ => c.iat }
}
fn lens_for(mask: u8) -> [usize; 4] {
    // string lengths vary with the pattern: every length 0..=3 occurs for every string field
    let r = (mask as usize) % 4;
    [r, (r + 1) % 4, (r + 2) % 4, (r + 3) % 4]
}

/// the events emitted for `c` are exactly the present fields, in declaration order, under the registered names
fn serialize_case(mask: u8) {
    let c = claims_for(mask, lens_for(mask));
    let (log, r) = record(&c);
    let l = log.borrow();
    let mut idx = 0usize;
    let mut order_ok = true;
    let mut f = 0;
    while f < 7 {
        if mask & (1 << f) != 0 {
            if idx < l.n {
                let e = &l.ev[idx];
                order_ok &= bytes_eq(e.key.as_bytes(), REG[f].as_bytes());
                if is_str_field(f) {
                    order_ok &= e.vk == V_STR && match str_field(&c, f) { Some(s) => bytes_eq(e.s.as_bytes(), s.as_bytes()), None => false };
                } else {
                    order_ok &= e.vk == V_TS && match ts_field(&c, f) { Some(t) => e.t == t.model_nanos(), None => false };
                }
            } else {
                order_ok = false;
            }
            idx += 1;
        }
        f += 1;
    }
    let mut no_null = true;
    let mut i = 0;
    while i < l.n { no_null &= l.ev[i].vk != V_NULL; i += 1; }
    vcheck_all!(
        (r.is_ok() && l.begun == 1 && l.ended == 1 && l.late == 0 && l.top_other == 0, "[C14] RegisteredClaims serialises as exactly one struct (JSON object), begun once, ended once, nothing after the end"),
        (l.n == idx, "[C14] serialisation emits exactly as many members as there are present claims (nothing for an absent claim)"),
        (order_ok, "[C14] serialisation emits the present claims in declaration order iss, sub, aud, exp, nbf, iat, jti under exactly those names; strings byte for byte, timestamps in the Timestamp's own serde form"),
        (no_null, "[C14] an absent claim is omitted, never serialised as null"),
        (l.name_ok == 1 && l.len_decl >= l.n, "[C14] the struct is announced as RegisteredClaims with a member count not below the number of members emitted"),
    );
}
macro_rules! mask_harnesses {
    ($case:ident: $($h:ident => $lo:literal .. $hi:literal),+ $(,)?) => {
        $( #[kani::proof] #[kani::unwind(20)] pub fn $h() {
            let mut m: u8 = $lo;
            while m < $hi { $case(m); m += 1; }
            kani::cover!(true, "harness end reachable");
        } )+
    };
}
mask_harnesses!(serialize_case:
    serialize_exact_p000 => 0..8, serialize_exact_p008 => 8..16, serialize_exact_p016 => 16..24, serialize_exact_p024 => 24..32,
    serialize_exact_p032 => 32..40, serialize_exact_p040 => 40..48, serialize_exact_p048 => 48..56, serialize_exact_p056 => 56..64,
    serialize_exact_p064 => 64..72, serialize_exact_p072 => 72..80, serialize_exact_p080 => 80..88, serialize_exact_p088 => 88..96,
    serialize_exact_p096 => 96..104, serialize_exact_p104 => 104..112, serialize_exact_p112 => 112..120, serialize_exact_p120 => 120..128);

// ---------------------------------------------------------------------------------------------------------------------
fn opt_str_is(x: &Option<String>, want: Option<&[u8]>) -> bool {
    match (x, want) { (None, None) => true, (Some(a), Some(b)) => bytes_eq(a.as_bytes(), b), _ => false }
}
fn same_claims(a: &RegisteredClaims, b: &RegisteredClaims) -> bool {
    let s = |x: &Option<String>, y: &Option<String>| opt_str_is(x, y.as_ref().map(|v| v.as_bytes()));
    let t = |x: Option<jiff::Timestamp>, y: Option<jiff::Timestamp>| match (x, y) { (None, None) => true, (Some(p), Some(q)) => p.model_nanos() == q.model_nanos(), _ => false };
    s(&a.iss, &b.iss) && s(&a.sub, &b.sub) && s(&a.aud, &b.aud) && s(&a.jti, &b.jti) && t(a.exp, b.exp) && t(a.nbf, b.nbf) && t(a.iat, b.iat)
}

/// deserialize(events emitted by serialize(c)) == c, field by field
fn roundtrip_case(mask: u8) {
    let c = claims_for(mask, lens_for(mask));
    let (log, r) = record(&c);
    let l = log.borrow();
    let g = Ghost::new();
    let n = l.n;
    let back = play(&l.ev, n, &g);
    let ok = match &back { Ok(d) => same_claims(d, &c), Err(_) => false };
    vcheck_all!(
        (r.is_ok() && back.is_ok(), "[C14] round trip: what RegisteredClaims serialises, RegisteredClaims deserialises"),
        (ok, "[C14] round trip: deserialize(serialize(c)) == c field by field (strings byte for byte, timestamps to the nanosecond, absent stays absent)"),
        (g.bad.get() == 0 && g.vals.get() as usize == n && g.keys.get() as usize == n + 1, "[C14] round trip consumes every member: one next_value per next_key, keys asked until the end"),
    );
    core::mem::forget(back);
}
mask_harnesses!(roundtrip_case:
    roundtrip_p000 => 0..4, roundtrip_p004 => 4..8, roundtrip_p008 => 8..12, roundtrip_p012 => 12..16,
    roundtrip_p016 => 16..20, roundtrip_p020 => 20..24, roundtrip_p024 => 24..28, roundtrip_p028 => 28..32,
    roundtrip_p032 => 32..36, roundtrip_p036 => 36..40, roundtrip_p040 => 40..44, roundtrip_p044 => 44..48,
    roundtrip_p048 => 48..52, roundtrip_p052 => 52..56, roundtrip_p056 => 56..60, roundtrip_p060 => 60..64,
    roundtrip_p064 => 64..68, roundtrip_p068 => 68..72, roundtrip_p072 => 72..76, roundtrip_p076 => 76..80,
    roundtrip_p080 => 80..84, roundtrip_p084 => 84..88, roundtrip_p088 => 88..92, roundtrip_p092 => 92..96,
    roundtrip_p096 => 96..100, roundtrip_p100 => 100..104, roundtrip_p104 => 104..108, roundtrip_p108 => 108..112,
    roundtrip_p112 => 112..116, roundtrip_p116 => 116..120, roundtrip_p120 => 120..124, roundtrip_p124 => 124..128);

// ---------------------------------------------------------------------------------------------------------------------
// scripted maps: `n` members (concrete), keys symbolic over NAMES, key delivery (str/bytes) symbolic, value kinds symbolic
// (null / string / timestamp / number), string lengths fixed per position (1, 2, 0, 3), contents symbolic, timestamps any i128
fn any_ent(k: u8, slen: usize) -> Ent<'static> {
    let via: u8 = kani::any();
    kani::assume(via < 2);
    let vk: u8 = kani::any();
    kani::assume(vk < 4);
    Ent { key: NAMES[k as usize], via, vk, s: ascii(slen), t: kani::any() }
}
fn in_range(t: i128) -> bool { MIN_NS <= t && t <= MAX_NS }
/// value of member `e` is of the type the registered field `f` takes (null is fine for every field: all are Option)
fn well_typed(f: u8, e: &Ent<'_>) -> bool {
    if e.vk == V_NULL { true } else if is_str_field(f as usize) { e.vk == V_STR } else { e.vk == V_TS && in_range(e.t) }
}
/// returns (accepted, duplicate reported, some registered member ill-typed, some registered key repeated, keys)
fn script_case(n: usize) -> (bool, bool, bool, bool, [u8; 4]) {
    let ks: [u8; 4] = kani::any();
    kani::assume(ks[0] < NK && ks[1] < NK && ks[2] < NK && ks[3] < NK);
    let ents = [any_ent(ks[0], 1), any_ent(ks[1], 2), any_ent(ks[2], 0), any_ent(ks[3], 3)];
    let g = Ghost::new();
    let r = play(&ents, n, &g);

    // ---- oracle (from the property: last-wins value of a generic parser; wrong type / repeated non-null claim = error)
    let mut ill = false;
    let mut dup_nonnull = false;
    let mut dup_any = false;
    let mut i = 0;
    while i < n {
        if ks[i] < 7 {
            ill |= !well_typed(ks[i], &ents[i]);
            let mut j = i + 1;
            while j < n {
                if ks[j] == ks[i] { dup_any = true; if ents[i].vk != V_NULL { dup_nonnull = true; } }
                j += 1;
            }
        }
        i += 1;
    }
    let mut values_ok = true;
    if let Ok(c) = &r {
        let mut f = 0;
        while f < 7 {
            let mut last = NONE;
            let mut i = 0;
            while i < n { if ks[i] as usize == f { last = i; } i += 1; }
            let mut i = 0;
            let mut hit = false;
            while i < n {
                if last == i {
                    hit = true;
                    let e = &ents[i];
                    if is_str_field(f) {
                        values_ok &= opt_str_is(str_field(c, f), if e.vk == V_STR { Some(e.s.as_bytes()) } else { None }) && (e.vk == V_STR || e.vk == V_NULL);
                    } else {
                        values_ok &= match ts_field(c, f) { Some(t) => e.vk == V_TS && t.model_nanos() == e.t, None => e.vk == V_NULL };
                    }
                }
                i += 1;
            }
            if !hit { values_ok &= if is_str_field(f) { str_field(c, f).is_none() } else { ts_field(c, f).is_none() }; }
            f += 1;
        }
    }
    let dup_err_ok = match &r {
        Err(e) if e.kind == E_DUP => {
            // the reported name is a registered key that really occurs twice
            let mut cnt = 0;
            let mut i = 0;
            while i < n { if ks[i] == e.field { cnt += 1; } i += 1; }
            e.field < 7 && cnt >= 2
        }
        _ => true,
    };
    vcheck_all!(
        (values_ok, "[C14] when deserialisation succeeds every registered claim has the value of the last member with its name (null or no such member: absent); unknown members change nothing"),
        (r.is_ok() || ill || dup_any, "[C14] a map whose registered members are of the right type and not repeated deserialises (any member order, any unknown members)"),
        (!ill || r.is_err(), "[C14] a registered claim with a value of the wrong type is an error, never dropped or coerced"),
        (!dup_nonnull || r.is_err(), "[C14] a repeated registered claim whose earlier occurrence is non-null is an error"),
        (ill || !dup_nonnull || matches!(&r, Err(e) if e.kind == E_DUP), "[C14] the error for a repeated claim is duplicate_field"),
        (dup_err_ok, "[C14] duplicate_field names a registered claim that occurs more than once"),
        (g.bad.get() == 0 && g.vals.get() <= g.keys.get(), "[C14] MapAccess protocol: exactly one next_value after every next_key (unknown members are consumed too), on every path"),
        (r.is_err() || (g.vals.get() as usize == n && g.keys.get() as usize == n + 1), "[C14] a successful deserialisation has consumed every member and asked for keys until the end"),
        (g.struct_call.get() == 0 || g.fields_ok.get() == 1, "[C14] deserialize_struct announces exactly the seven registered names"),
    );
    let out = (r.is_ok(), matches!(&r, Err(e) if e.kind == E_DUP), ill, dup_any, ks);
    core::mem::forget(r);
    out
}
fn script_covers(o: (bool, bool, bool, bool, [u8; 4])) {
    let (ok, dup, ill, dup_any, ks) = o;
    kani::cover!(ok && ks[0] >= 7 && ks[1] < 7, "unknown member followed by a registered one, accepted");
    kani::cover!(dup, "duplicate reported");
    kani::cover!(ok && dup_any, "null followed by a value for the same claim is accepted (last wins)");
    kani::cover!(ok && ks[0] > ks[1] && ks[0] < 7, "members out of declaration order, accepted");
    kani::cover!(!ok && ill, "wrong type reported");
}
#[kani::proof] #[kani::unwind(20)] pub fn deserialize_script_n0() { let o = script_case(0); kani::cover!(o.0, "the empty map is accepted"); kani::cover!(true, "harness end reachable"); }
#[kani::proof] #[kani::unwind(20)] pub fn deserialize_script_n1() { let o = script_case(1); kani::cover!(o.0); kani::cover!(!o.0 && o.2, "wrong type reported"); kani::cover!(true, "harness end reachable"); }
#[kani::proof] #[kani::unwind(20)] pub fn deserialize_script_n2() { script_covers(script_case(2)); kani::cover!(true, "harness end reachable"); }
#[kani::proof] #[kani::unwind(20)] pub fn deserialize_script_n3() { script_covers(script_case(3)); kani::cover!(true, "harness end reachable"); }
#[kani::proof] #[kani::unwind(20)] pub fn deserialize_script_n4() { script_covers(script_case(4)); kani::cover!(true, "harness end reachable"); }

// ---------------------------------------------------------------------------------------------------------------------
/// member order is irrelevant: a 3-member map with pairwise different keys gives the same result in all 6 orders
/// (reversal and rotation generate S3; the claim is for ALL such maps, so invariance under both is invariance under S3)
fn clone_ent(e: &Ent<'static>) -> Ent<'static> { Ent { key: e.key, via: e.via, vk: e.vk, s: e.s.clone(), t: e.t } }
#[kani::proof] #[kani::unwind(20)]
pub fn deserialize_order_independent_n2() {
    let ks: [u8; 2] = kani::any();
    kani::assume(ks[0] < NK && ks[1] < NK && ks[0] != ks[1]);
    let a = [any_ent(ks[0], 1), any_ent(ks[1], 2)];
    let swp = [clone_ent(&a[1]), clone_ent(&a[0])];
    let (g0, g1) = (Ghost::new(), Ghost::new());
    let (r0, r1) = (play(&a, 2, &g0), play(&swp, 2, &g1));
    let same = match (&r0, &r1) { (Ok(p), Ok(q)) => same_claims(p, q), (Err(_), Err(_)) => true, _ => false };
    vassert!(same, "[C14] deserialisation does not depend on member order (swapped map: same claims / same verdict)");
    kani::cover!(r0.is_ok() && ks[0] < 7 && ks[1] < 7 && a[0].vk != V_NULL && a[1].vk != V_NULL, "two registered non-null members accepted");
    kani::cover!(r0.is_err());
    core::mem::forget((r0, r1));
    kani::cover!(true, "harness end reachable");
}
#[kani::proof] #[kani::unwind(20)]
pub fn deserialize_order_independent_n3() {
    let ks: [u8; 3] = kani::any();
    kani::assume(ks[0] < NK && ks[1] < NK && ks[2] < NK);
    kani::assume(ks[0] != ks[1] && ks[1] != ks[2] && ks[0] != ks[2]);
    let a = [any_ent(ks[0], 1), any_ent(ks[1], 2), any_ent(ks[2], 3)];
    let rev = [clone_ent(&a[2]), clone_ent(&a[1]), clone_ent(&a[0])];
    let rot = [clone_ent(&a[1]), clone_ent(&a[2]), clone_ent(&a[0])];
    let (g0, g1, g2) = (Ghost::new(), Ghost::new(), Ghost::new());
    let (r0, r1, r2) = (play(&a, 3, &g0), play(&rev, 3, &g1), play(&rot, 3, &g2));
    let same = |x: &Result<RegisteredClaims, E>, y: &Result<RegisteredClaims, E>| match (x, y) { (Ok(p), Ok(q)) => same_claims(p, q), (Err(_), Err(_)) => true, _ => false };
    vcheck_all!(
        (same(&r0, &r1), "[C14] deserialisation does not depend on member order (reversed map: same claims / same verdict)"),
        (same(&r0, &r2), "[C14] deserialisation does not depend on member order (rotated map: same claims / same verdict)"),
    );
    kani::cover!(r0.is_ok() && ks[0] < 7 && ks[1] < 7 && ks[2] < 7 && a[0].vk != V_NULL && a[1].vk != V_NULL && a[2].vk != V_NULL, "three registered non-null members accepted");
    kani::cover!(r0.is_err());
    core::mem::forget((r0, r1, r2));
    kani::cover!(true, "harness end reachable");
}

// ---------------------------------------------------------------------------------------------------------------------
/// field names, byte for byte: a one-member map whose key is ANY ASCII string of length `klen` and whose value answers every
/// type request. The claim that ends up set tells which field the key visitor chose.
fn field_name_case(klen: usize) {
    let key = ascii(klen);
    let via: u8 = kani::any();
    kani::assume(via < 2);
    let t: i128 = kani::any();
    kani::assume(in_range(t));
    let ents = [Ent { key: key.as_str(), via, vk: V_UNIVERSAL, s: ascii(2), t }];
    let g = Ghost::new();
    let r = play(&ents, 1, &g);
    let fid = name_id(key.as_bytes()) as usize; // 7 = not a registered name
    let mut exact = r.is_ok();
    if let Ok(c) = &r {
        let mut f = 0;
        while f < 7 {
            if is_str_field(f) {
                exact &= opt_str_is(str_field(c, f), if f == fid { Some(ents[0].s.as_bytes()) } else { None });
            } else {
                exact &= match ts_field(c, f) { Some(x) => f == fid && x.model_nanos() == t, None => f != fid };
            }
            f += 1;
        }
    }
    vcheck_all!(
        (exact, "[C14] a member sets the claim whose registered name equals its key byte for byte (both as str and as bytes), and no claim otherwise"),
        (g.bad.get() == 0 && g.vals.get() == 1 && g.keys.get() == 2, "[C14] the member's value is consumed exactly once whatever its key"),
    );
    if klen == 3 { kani::cover!(fid == 4, "key nbf"); kani::cover!(fid == 5, "key iat"); kani::cover!(fid == 7, "unregistered 3-byte key"); }
    core::mem::forget(r);
}
#[kani::proof] #[kani::unwind(20)]
pub fn field_names_exact() {
    field_name_case(3);
    field_name_case(0);
    field_name_case(1);
    field_name_case(2);
    field_name_case(4);
    kani::cover!(true, "harness end reachable");
}

// ---------------------------------------------------------------------------------------------------------------------
// repo code around serde_json
struct RecW<'a> { calls: &'a Cell<u8>, len: &'a Cell<usize>, bytes: &'a Cell<[u8; 4]> }
impl<'a> WriteBytes for RecW<'a> {
    fn write(&mut self, slice: &[u8]) {
        self.calls.set(self.calls.get() + 1);
        self.len.set(slice.len());
        let mut b = [0u8; 4];
        let mut i = 0;
        while i < 4 { if i < slice.len() { b[i] = slice[i]; } i += 1; }
        self.bytes.set(b);
    }
}
/// the io::Write adapter handed to serde_json forwards every buffer whole and reports it fully written
#[kani::proof] #[kani::unwind(20)]
pub fn writer_forwards_every_byte() {
    let (calls, len, bytes) = (Cell::new(0u8), Cell::new(0x5eedusize), Cell::new([0u8; 4]));
    let buf: [u8; 4] = kani::any();
    let n: usize = kani::any();
    kani::assume(n <= 4);
    let mut w = Writer(RecW { calls: &calls, len: &len, bytes: &bytes });
    let r = io::Write::write(&mut w, &buf[..n]);
    let fl = io::Write::flush(&mut w);
    let got = bytes.get();
    let mut same = true;
    let mut i = 0;
    while i < 4 { if i < n { same &= got[i] == buf[i]; } i += 1; }
    vcheck_all!(
        (matches!(r, Ok(k) if k == n), "[C14] Writer::write reports the whole buffer as written (serde_json never sees a short write)"),
        (calls.get() == 1 && len.get() == n && same, "[C14] Writer::write hands exactly the buffer, once, to the WriteBytes sink"),
        (fl.is_ok(), "[C14] Writer::flush succeeds"),
    );
    core::mem::forget((r, fl));
    kani::cover!(n == 0); kani::cover!(n == 4);
    kani::cover!(true, "harness end reachable");
}

/// `Footer for Json<T>`: the empty footer is rejected before serde_json is consulted
#[kani::proof] #[kani::unwind(20)]
pub fn footer_empty_rejected() {
    let b = [0u8; 4];
    let r = <Json<u8> as Footer>::decode(&b[..0]);
    vassert!(r.is_err(), "[C14] Footer for Json<T>: the empty footer is an error");
    core::mem::forget(r);
    vassert!(<Json<u8> as Payload>::SUFFIX.is_empty() && <RegisteredClaims as Payload>::SUFFIX.is_empty(), "[C14] JSON payloads carry the empty version suffix");
    kani::cover!(true, "harness end reachable");
}

/// canary: a false claim about the symbolic inputs after all assumptions
#[kani::proof] #[kani::unwind(20)]
pub fn canary_serde() {
    let c = claims_for(0b1001001, [1, 0, 0, 2]);
    let (log, r) = record(&c);
    let l = log.borrow();
    let g = Ghost::new();
    let back = play(&l.ev, l.n, &g);
    let differs = match &back { Ok(d) => !same_claims(d, &c), Err(_) => true };
    vassert!(differs, "canary: must fail");
    core::mem::forget(back);
}
