// U7 (v1, key ids) — appended to paseto-v1/src/core/mod.rs.
use paseto_core::paserk::IdVersion;

/// [C13] hash_key(header, text) == SHA-384("k1" || header || text)[0:33], for the three id kinds
pub fn id_is_spec(L: usize) {
    let tb: [u8; 160] = kani::any();
    let text = &tb[..L];
    let which: u8 = kani::any();
    let h: &'static str = match which { 0 => ".lid.", 1 => ".sid.", _ => ".pid." };
    let spec = vspec::v1::key_id(h.as_bytes(), text);
    let got = <V1 as IdVersion>::hash_key(h, text);
    vassert!(got == spec, "[C13] the key id is the first 33 bytes of the SHA-384 digest of \"k1\" || id header || PASERK text");
}
/// [C13] lid / sid / pid of the same text are digests of different inputs (domain separation). Under the ideal-hash
/// assumption the three 48-byte digests differ; the truncation to 33 bytes is not covered by that assumption, so the
/// obligation is stated on the hashed inputs (ghost view of the model's call log).
pub fn id_domain_separated() {
    let text: [u8; 10] = kani::any();
    let _a = <V1 as IdVersion>::hash_key(".lid.", &text);
    let _b = <V1 as IdVersion>::hash_key(".sid.", &text);
    let _c = <V1 as IdVersion>::hash_key(".pid.", &text);
    let n = vmodel_core::calls(vmodel_core::alg::SHA384);
    let e0 = vmodel_core::nth_call(vmodel_core::alg::SHA384, 0);
    let e1 = vmodel_core::nth_call(vmodel_core::alg::SHA384, 1);
    let e2 = vmodel_core::nth_call(vmodel_core::alg::SHA384, 2);
    let ok = match (e0, e1, e2) {
        (Some(a), Some(b), Some(c)) => {
            a.mlen == 17 && b.mlen == 17 && c.mlen == 17
                && a.msg[..7] == *b"k1.lid." && b.msg[..7] == *b"k1.sid." && c.msg[..7] == *b"k1.pid."
                && a.msg[7..17] == text[..] && b.msg[7..17] == text[..] && c.msg[7..17] == text[..]
        }
        _ => false,
    };
    vcheck_all!(
        (n == 3, "[C13] one SHA-384 evaluation per key id"),
        (ok, "[C13] local, secret and public ids hash \"k1\" || their own id header || the PASERK text (distinct inputs)"),
    );
}
pub fn canary_inputs() {
    let text: [u8; 10] = kani::any();
    let a = <V1 as IdVersion>::hash_key(".lid.", &text);
    vassert!(text[0] != 0x5a || a[0] != 0xa5, "canary: must fail (false claim about the symbolic inputs)");
}
macro_rules! inst {
    ($($name:ident = $f:ident($($g:literal),*);)*) => { $(
        #[kani::proof] #[kani::unwind(200)]
        pub fn $name() { $f($($g),*); kani::cover!(true, "harness end reachable"); }
    )* };
}
inst! {
    // k1.local.<43 chars> = 52 bytes. Real k1.public / k1.secret texts (~402 / ~1600 characters of base64 DER) exceed the
    // model's message capacity (MCAP = 176); hash_key is length-generic, 100 and 160 bytes stand in for them.
    id_is_spec_52 = id_is_spec(52); id_is_spec_100 = id_is_spec(100); id_is_spec_160 = id_is_spec(160); id_is_spec_1 = id_is_spec(1);
    id_domain_separated_h = id_domain_separated();
    canary_inputs_h = canary_inputs();
}
// @@PLAYBACK@@
