// U7 (v1, public purpose) — appended to paseto-v1/src/core/public.rs. Real crate; rsa, sha2 (and the crates of the local
// purpose, unused here) replaced by assumed-contract models; pre_auth_encode replaced by its contract.
// RSA keys are opaque in the model: (modulus bits, 32-byte identifier); DER / PEM are the model's injective encodings
// (36 / 79 bytes, see models/rsa) — lengths below refer to those, not to real ASN.1.
use paseto_core::version::{SealingVersion, Secret, UnsealingVersion};
use paseto_core::PasetoError as PE;

const SIG: usize = 256;
const MX: usize = 4;
const TX: usize = MX + SIG;
const DER: usize = rsa::model::SPKI_LEN;
const PEM: usize = rsa::model::PEM_LEN;

/// Secret key "as key generation would have produced it" for identifier `id` (no accept/reject branch, README rule 3)
fn sk_of(id: &[u8; 32]) -> SecretKey {
    SecretKey(rsa::pss::SigningKey::new(rsa::model::private_key(2048, id)))
}
fn pid_of(k: &PublicKey) -> [u8; 32] {
    rsa::model::public_id(k.0.as_ref())
}
fn payload_of(msg: &[u8]) -> Vec<u8> {
    let mut p = Vec::with_capacity(msg.len() + SIG);
    p.extend_from_slice(msg);
    p
}
fn salt_of(d: &[u8; vmodel_core::DRAW_CAP]) -> [u8; 48] {
    let mut s = [0u8; 48];
    s.copy_from_slice(&d[..48]);
    s
}

/// [C03] sign: message ‖ 256-byte signature that the specification's verifier accepts, equal to the specification's signer
/// for the salt this call drew; [C01] length; [C16] one fresh 48-byte salt
pub fn sign_is_spec(M: usize, F: usize) {
    let T = M + SIG;
    let id: [u8; 32] = kani::any();
    let msgb: [u8; MX] = kani::any();
    let msg = &msgb[..M];
    let fb: [u8; MX] = kani::any();
    let f = &fb[..F];
    vmodel_core::rng_may_fail(false);
    let salt = salt_of(&vmodel_core::rng_preview(0));
    let pid = vspec::v1::rsa_public_id(&id, 2048);
    let mut specb = [0u8; TX];
    let spec = &mut specb[..T];
    vspec::v1::public_sign(&pid, &salt, msg, b"", f, spec);
    let sk = sk_of(&id);
    let pk_is_spec = pid_of(&<V1 as SealingVersion<Public>>::unsealing_key(&sk)) == pid;
    let r = <V1 as SealingVersion<Public>>::dangerous_seal_with_nonce(&sk, "", payload_of(msg), f, &[]);
    let ok = r.is_ok();
    let out = r.unwrap_or_default();
    let len_ok = out.len() == T;
    let verifies = len_ok && vspec::v1::public_verify(&pid, &out, b"", f) == Some(M);
    vcheck_all!(
        (pk_is_spec, "[C08] the public key derived from a secret key is the public half of that key"),
        (ok, "[C01] signing always succeeds"),
        (!ok || len_ok, "[C01] signed payload length is |message| + 256"),
        (!ok || (len_ok && out[..M] == msg[..]), "[C03] the signed payload starts with the unmodified message"),
        (vmodel_core::rng_draws() == 1 && vmodel_core::rng_draw(0).len == 48, "[C16] signing draws exactly one fresh 48-byte PSS salt"),
        (!ok || verifies, "[C03] the v1.public signature verifies under the specification (RSASSA-PSS-SHA384 over PAE(h, m, f))"),
        (!ok || out[..] == spec[..], "[C03] v1.public sign output equals the specification's token for the salt it drew"),
    );
}

/// [C03]/[C01] verify accepts the specification's token (any salt) and returns exactly the message
pub fn verify_accepts_spec(M: usize, F: usize) {
    let T = M + SIG;
    let id: [u8; 32] = kani::any();
    let salt: [u8; 48] = kani::any();
    let msgb: [u8; MX] = kani::any();
    let msg = &msgb[..M];
    let fb: [u8; MX] = kani::any();
    let f = &fb[..F];
    let pid = vspec::v1::rsa_public_id(&id, 2048);
    let mut tokb = [0u8; TX];
    let tok = &mut tokb[..T];
    vspec::v1::public_sign(&pid, &salt, msg, b"", f, tok);
    let pk = <V1 as SealingVersion<Public>>::unsealing_key(&sk_of(&id));
    let r = <V1 as UnsealingVersion<Public>>::unseal(&pk, "", tok, f, &[]);
    let ok = r.is_ok();
    let same = match r { Ok(m) => m == msg, Err(_) => false };
    vcheck_all!(
        (ok, "[C03] every specification-conforming v1.public token is accepted under the signer's public key"),
        (!ok || same, "[C01] verify returns exactly the signed message"),
    );
}

/// [C01] library's own nonce() (empty for public), sign, verify with the derived key
pub fn roundtrip_own_nonce(M: usize, F: usize) {
    let id: [u8; 32] = kani::any();
    let msgb: [u8; MX] = kani::any();
    let msg = &msgb[..M];
    let fb: [u8; MX] = kani::any();
    let f = &fb[..F];
    vmodel_core::rng_may_fail(false);
    let n = <V1 as SealingVersion<Public>>::nonce();
    let n_ok = n.is_ok();
    let mut p = n.unwrap_or_default();
    let n_empty = p.is_empty() && vmodel_core::rng_draws() == 0;
    p.extend_from_slice(msg);
    let sk = sk_of(&id);
    let pk = <V1 as SealingVersion<Public>>::unsealing_key(&sk);
    let sealed = <V1 as SealingVersion<Public>>::dangerous_seal_with_nonce(&sk, "", p, f, &[]);
    let s_ok = sealed.is_ok();
    let mut tok = sealed.unwrap_or_default();
    let r = <V1 as UnsealingVersion<Public>>::unseal(&pk, "", &mut tok, f, &[]);
    let same = match r { Ok(m) => m == msg, Err(_) => false };
    vcheck_all!(
        (n_ok && n_empty, "[C01] the public purpose uses an empty nonce prefix"),
        (s_ok, "[C01] signing with the library's own nonce succeeds"),
        (!s_ok || same, "[C01] sign, then verify with the derived public key, returns the original message"),
    );
}

/// [C02]/[C12] any single flipped bit of message or signature, any other public key (any flipped bit of its DER), footer change => Err
pub fn verify_rejects_tamper(M: usize, F: usize) {
    let T = M + SIG;
    let id: [u8; 32] = kani::any();
    let salt: [u8; 48] = kani::any();
    let msgb: [u8; MX] = kani::any();
    let msg = &msgb[..M];
    let fb: [u8; MX] = kani::any();
    let pid = vspec::v1::rsa_public_id(&id, 2048);
    let mut tokb = [0u8; TX];
    let tok = &mut tokb[..T];
    vspec::v1::public_sign(&pid, &salt, msg, b"", &fb[..F], tok);
    let _honest = sk_of(&id); // the key pair was honestly generated (its public half is a valid key)
    let mut pkb = rsa::model::spki_der(2048, &pid);
    let mut f2b = fb;
    let which: u8 = kani::any();
    let idx: usize = kani::any();
    let bit: u8 = kani::any();
    kani::assume(bit < 8);
    match which {
        0 => { kani::assume(idx < T); tok[idx] ^= 1 << bit; }
        1 => { kani::assume(idx < DER); pkb[idx] ^= 1 << bit; }
        _ => { kani::assume(idx < F); f2b[idx] ^= 1 << bit; }
    }
    let pk = match rsa_pk_from_der(&pkb) { Some(k) => k, None => return };
    let mut beforeb = [0u8; TX];
    beforeb[..T].copy_from_slice(tok);
    let r = <V1 as UnsealingVersion<Public>>::unseal(&pk, "", tok, &f2b[..F], &[]);
    let rejected = r.is_err();
    let kind_ok = matches!(r, Err(PE::CryptoError));
    let untouched = tok[..] == beforeb[..T];
    vcheck_all!(
        (rejected, "[C02][C12] a signed token with any single flipped bit, a changed footer or another key is rejected"),
        (!rejected || kind_ok, "[C12] a signature failure is CryptoError, whatever the message bytes"),
        (untouched, "[C12] verification never modifies the payload"),
    );
    kani::cover!(which == 0, "token bit flip explored");
    kani::cover!(which == 1, "other key explored");
}
/// a verifying key from model DER bytes through the rsa model's decoder only (the repo's `decode` additionally tries PEM via
/// str::from_utf8, which is exercised in the codec harnesses; here it would only add cost)
fn rsa_pk_from_der(b: &[u8]) -> Option<PublicKey> {
    use rsa::pkcs8::spki::DecodePublicKey;
    match rsa::RsaPublicKey::from_public_key_der(b) {
        Ok(k) => if k.n().bits() == 2048 { Some(PublicKey(rsa::pss::VerifyingKey::new(k))) } else { None },
        Err(_) => None,
    }
}

/// [C02] a truncated or extended footer, and a byte moved between message and footer, are rejected
pub fn verify_rejects_boundary_shift(M: usize) {
    let T = M + SIG;
    let id: [u8; 32] = kani::any();
    let salt: [u8; 48] = kani::any();
    let msgb: [u8; MX] = kani::any();
    let msg = &msgb[..M];
    let ff: [u8; 2] = kani::any();
    let pid = vspec::v1::rsa_public_id(&id, 2048);
    let mut tokb = [0u8; TX];
    let tok = &mut tokb[..T];
    vspec::v1::public_sign(&pid, &salt, msg, b"", &ff[..1], tok);
    let pk = <V1 as SealingVersion<Public>>::unsealing_key(&sk_of(&id));
    let split: usize = kani::any();
    kani::assume(split <= 2 && split != 1);
    let r = <V1 as UnsealingVersion<Public>>::unseal(&pk, "", tok, &ff[..split], &[]);
    vassert!(r.is_err(), "[C02] a truncated or extended footer is rejected");
}
pub fn verify_rejects_message_shift() {
    let id: [u8; 32] = kani::any();
    let salt: [u8; 48] = kani::any();
    let mf: [u8; 3] = kani::any();
    let pid = vspec::v1::rsa_public_id(&id, 2048);
    let mut tokb = [0u8; TX];
    // signed with message = mf[..2], footer = mf[2..]
    vspec::v1::public_sign(&pid, &salt, &mf[..2], b"", &mf[2..], &mut tokb[..2 + SIG]);
    let pk = <V1 as SealingVersion<Public>>::unsealing_key(&sk_of(&id));
    // presented as message = mf[..1], footer = mf[1..], same signature
    let mut t2 = [0u8; TX];
    t2[0] = mf[0];
    t2[1..1 + SIG].copy_from_slice(&tokb[2..2 + SIG]);
    let r = <V1 as UnsealingVersion<Public>>::unseal(&pk, "", &mut t2[..1 + SIG], &mf[1..], &[]);
    vassert!(r.is_err(), "[C02] a byte moved across the message/footer boundary is rejected");
}

/// [C02] v1 has no implicit assertions: a non-empty assertion is refused by sign and verify, never ignored
pub fn assertion_refused(M: usize) {
    let T = M + SIG;
    let id: [u8; 32] = kani::any();
    let salt: [u8; 48] = kani::any();
    let msgb: [u8; MX] = kani::any();
    let msg = &msgb[..M];
    let a: [u8; 1] = kani::any();
    let pid = vspec::v1::rsa_public_id(&id, 2048);
    let mut tokb = [0u8; TX];
    let tok = &mut tokb[..T];
    vspec::v1::public_sign(&pid, &salt, msg, b"", &[], tok);
    let sk = sk_of(&id);
    let pk = <V1 as SealingVersion<Public>>::unsealing_key(&sk);
    let r1 = <V1 as SealingVersion<Public>>::dangerous_seal_with_nonce(&sk, "", payload_of(msg), &[], &a);
    let no_draw = vmodel_core::rng_draws() == 0;
    let r2 = <V1 as UnsealingVersion<Public>>::unseal(&pk, "", tok, &[], &a);
    vcheck_all!(
        (matches!(r1, Err(PE::ClaimsError)) && no_draw, "[C02] v1 signing refuses a non-empty implicit assertion with ClaimsError"),
        (matches!(r2, Err(PE::ClaimsError)), "[C02] v1 verification refuses a non-empty implicit assertion with ClaimsError instead of ignoring it"),
    );
}

/// [C04]/[C12] every length class around the minimum (256): no panic; too short => InvalidToken; forged => CryptoError
pub fn verify_short(L: usize) {
    let id: [u8; 32] = kani::any();
    let pk = <V1 as SealingVersion<Public>>::unsealing_key(&sk_of(&id));
    let mut pb: [u8; TX] = kani::any();
    let f: [u8; 1] = kani::any();
    let r = <V1 as UnsealingVersion<Public>>::unseal(&pk, "", &mut pb[..L], &f, &[]);
    if L < SIG {
        vassert!(matches!(r, Err(PE::InvalidToken)), "[C12] a too-short payload is InvalidToken, independent of its bytes");
    } else {
        vcheck_all!(
            (r.is_err(), "[C02] a payload that was never signed is rejected"),
            (matches!(r, Err(PE::CryptoError)), "[C12] error kind for a full-length forged payload is CryptoError"),
        );
    }
}

/// [C16] the OS RNG fails while the PSS salt is drawn: an error, never a panic, never a token from unfilled randomness
pub fn sign_fail_closed() {
    let id: [u8; 32] = kani::any();
    let msg: [u8; 2] = kani::any();
    let sk = sk_of(&id);
    vmodel_core::rng_may_fail(true);
    let r = <V1 as SealingVersion<Public>>::dangerous_seal_with_nonce(&sk, "", payload_of(&msg), &[], &[]);
    let all_ok = vmodel_core::rng_all_ok();
    let panicked = rsa::model::os_rng_panicked();
    vcheck_all!(
        (!panicked, "[C16] an OS RNG failure while signing is reported as an error (the RNG adapter must not panic)"),
        // (the two below are stated for executions in which the adapter did not panic: after a panic there is no result)
        (panicked || all_ok || r.is_err(), "[C16] signing succeeds only when every RNG draw succeeded (no signature from an unfilled salt)"),
        (panicked || !all_ok || r.is_ok(), "[C16] signing fails only when the RNG failed"),
    );
    kani::cover!(all_ok); kani::cover!(!all_ok);
}

/// [C08]/[C10]/[C04] k1.public bytes in the model's DER length, contents symbolic
pub fn public_key_codec_der() {
    let b: [u8; DER] = kani::any();
    let bits = u16::from_be_bytes([b[2], b[3]]);
    let r = <V1 as HasKey<Public>>::decode(&b);
    match r {
        Ok(k) => {
            let e = <V1 as HasKey<Public>>::encode(&k);
            let c = k.clone();
            let e2 = <V1 as HasKey<Public>>::encode(&c);
            vcheck_all!(
                (bits == 2048, "[C10] a k1.public key is accepted only for exactly a 2048-bit modulus"),
                (e.len() == DER && e[..] == b[..], "[C08] accepted DER public key bytes re-encode to exactly the same bytes"),
                (e2[..] == e[..], "[C08] a cloned public key encodes identically"),
            );
        }
        Err(e) => vassert!(matches!(e, PE::InvalidKey), "[C10] rejected public key bytes are InvalidKey"),
    }
    kani::cover!(bits == 2048); kani::cover!(bits == 4096); kani::cover!(bits == 2047);
}
/// PEM input (well-formed text of any key): accepted iff 2048 bit, and re-encoded as the DER of the same key
pub fn public_key_codec_pem() {
    let pid: [u8; 32] = kani::any();
    let bits: u16 = kani::any();
    let pem = rsa::model::pem(b'P', bits, &pid);
    let der = rsa::model::spki_der(bits, &pid);
    let r = <V1 as HasKey<Public>>::decode(&pem);
    match r {
        Ok(k) => {
            let e = <V1 as HasKey<Public>>::encode(&k);
            vcheck_all!(
                (bits == 2048, "[C10] a k1.public key given as PEM is accepted only for exactly a 2048-bit modulus"),
                (e.len() == DER && e[..] == der[..], "[C08] a public key given as PEM serialises as the DER encoding of the same key (so its id hashes the DER form)"),
            );
        }
        Err(e) => vassert!(matches!(e, PE::InvalidKey), "[C10] rejected public key bytes are InvalidKey"),
    }
    kani::cover!(bits == 2048, "2048-bit PEM case reachable");
}
/// every other length (concrete N, contents symbolic): rejected as InvalidKey, no panic
pub fn public_key_codec_len(N: usize) {
    let b: [u8; 84] = kani::any();
    let r = <V1 as HasKey<Public>>::decode(&b[..N]);
    vassert!(matches!(r, Err(PE::InvalidKey)), "[C10] public key bytes of any other length are rejected as InvalidKey");
}
/// [C08] decode . encode = id on keys derived from secret keys
pub fn public_key_roundtrip() {
    let id: [u8; 32] = kani::any();
    let pk = <V1 as SealingVersion<Public>>::unsealing_key(&sk_of(&id));
    let e = <V1 as HasKey<Public>>::encode(&pk);
    let pid = pid_of(&pk);
    let r = <V1 as HasKey<Public>>::decode(&e);
    let ok = r.is_ok();
    let same = match r { Ok(k) => pid_of(&k) == pid, Err(_) => false };
    vcheck_all!(
        (e.len() == DER, "[C08] a derived public key encodes to the DER form"),
        (ok, "[C08] the encoding of a derived public key is accepted by the decoder"),
        (!ok || same, "[C08] decode after encode is the identity on public keys"),
    );
}

/// [C08]/[C10]/[C04] k1.secret bytes in the model's DER length, contents symbolic
pub fn secret_key_codec_der() {
    let b: [u8; DER] = kani::any();
    let bits = u16::from_be_bytes([b[2], b[3]]);
    let mut id = [0u8; 32];
    id.copy_from_slice(&b[4..]);
    let spec_pid = vspec::v1::rsa_public_id(&id, bits);
    let r = <V1 as HasKey<Secret>>::decode(&b);
    match r {
        Ok(k) => {
            let e = <V1 as HasKey<Secret>>::encode(&k);
            let c = k.clone();
            let e2 = <V1 as HasKey<Secret>>::encode(&c);
            let pid = pid_of(&<V1 as SealingVersion<Public>>::unsealing_key(&k));
            let pid2 = pid_of(&<V1 as SealingVersion<Public>>::unsealing_key(&c));
            vcheck_all!(
                (bits == 2048, "[C10] a k1.secret key is accepted only for exactly a 2048-bit modulus"),
                (e.len() == DER && e[..] == b[..], "[C08] accepted DER secret key bytes re-encode to exactly the same bytes"),
                (e2[..] == e[..] && pid2 == pid, "[C08] a cloned secret key has the same encoding and public key"),
                (pid == spec_pid, "[C08] the public key of a secret key is the public half of that key"),
            );
        }
        Err(e) => vassert!(matches!(e, PE::InvalidKey), "[C10] rejected secret key bytes are InvalidKey"),
    }
    kani::cover!(bits == 2048); kani::cover!(bits == 4096);
}
pub fn secret_key_codec_pem() {
    let id: [u8; 32] = kani::any();
    let bits: u16 = kani::any();
    let pem = rsa::model::pem(b'S', bits, &id);
    let der = rsa::model::pkcs1_der(bits, &id);
    let r = <V1 as HasKey<Secret>>::decode(&pem);
    match r {
        Ok(k) => {
            let e = <V1 as HasKey<Secret>>::encode(&k);
            vcheck_all!(
                (bits == 2048, "[C10] a k1.secret key given as PEM is accepted only for exactly a 2048-bit modulus"),
                (e.len() == DER && e[..] == der[..], "[C08] a secret key given as PEM serialises as the DER encoding of the same key"),
            );
        }
        Err(e) => vassert!(matches!(e, PE::InvalidKey), "[C10] rejected secret key bytes are InvalidKey"),
    }
    kani::cover!(bits == 2048);
}
pub fn secret_key_codec_len(N: usize) {
    let b: [u8; 84] = kani::any();
    let r = <V1 as HasKey<Secret>>::decode(&b[..N]);
    vassert!(matches!(r, Err(PE::InvalidKey)), "[C10] secret key bytes of any other length are rejected as InvalidKey");
}

/// [C16] key generation: an OS RNG failure is an error (never a panic, never a key from unfilled randomness); the key is fresh
pub fn secret_key_random() {
    vmodel_core::rng_may_fail(true);
    let r = <V1 as SealingVersion<Public>>::random();
    let all_ok = vmodel_core::rng_all_ok();
    let draws = vmodel_core::rng_draws();
    let panicked = rsa::model::os_rng_panicked();
    let d = vmodel_core::rng_draw(0);
    let from_draw = match &r {
        Ok(k) => {
            let sk: &rsa::RsaPrivateKey = k.0.as_ref();
            draws == 1 && d.len == 32 && rsa::model::private_id(sk)[..] == d.bytes[..32] && sk.n().bits() == 2048
        }
        Err(_) => false,
    };
    vcheck_all!(
        (!panicked, "[C16] an OS RNG failure during key generation is reported as an error (the RNG adapter must not panic)"),
        (panicked || all_ok || r.is_err(), "[C16] key generation succeeds only when every RNG draw succeeded (no key from unfilled randomness)"),
        (panicked || !all_ok || r.is_ok(), "[C16] key generation fails only when the RNG failed"),
        (!r.is_ok() || !all_ok || from_draw, "[C16] the generated 2048-bit key is determined by this call's fresh randomness"),
    );
    kani::cover!(all_ok); kani::cover!(!all_ok);
}

/// canary: a false claim about the *inputs*, placed after every model assumption of a full sign + verify has been made.
pub fn canary_inputs(M: usize) {
    let T = M + SIG;
    let id: [u8; 32] = kani::any();
    let salt: [u8; 48] = kani::any();
    let msgb: [u8; MX] = kani::any();
    let msg = &msgb[..M];
    let pid = vspec::v1::rsa_public_id(&id, 2048);
    let mut tokb = [0u8; TX];
    let tok = &mut tokb[..T];
    vspec::v1::public_sign(&pid, &salt, msg, b"", &[7], tok);
    let sk = sk_of(&id);
    let pk = <V1 as SealingVersion<Public>>::unsealing_key(&sk);
    vmodel_core::rng_may_fail(false);
    let _ = <V1 as SealingVersion<Public>>::dangerous_seal_with_nonce(&sk, "", payload_of(msg), &[7], &[]);
    let _ = <V1 as UnsealingVersion<Public>>::unseal(&pk, "", tok, &[7], &[]);
    vassert!(id[0] != 0x5a || msgb[0] != 0xa5, "canary: must fail (false claim about the symbolic inputs)");
}

macro_rules! inst {
    ($($name:ident = $f:ident($($g:literal),*);)*) => { $(
        #[kani::proof] #[kani::unwind(270)]
        #[kani::stub(paseto_core::pae::pre_auth_encode, pae_contract)]
        pub fn $name() { $f($($g),*); kani::cover!(true, "harness end reachable"); }
    )* };
}
inst! {
    sign_is_spec_0_0 = sign_is_spec(0, 0);
    sign_is_spec_3_2 = sign_is_spec(3, 2);
    verify_accepts_spec_0_0 = verify_accepts_spec(0, 0);
    verify_accepts_spec_3_2 = verify_accepts_spec(3, 2);
    roundtrip_own_nonce_0_0 = roundtrip_own_nonce(0, 0);
    roundtrip_own_nonce_1_1 = roundtrip_own_nonce(1, 1);
    verify_rejects_tamper_0_0 = verify_rejects_tamper(0, 0);
    verify_rejects_tamper_1_1 = verify_rejects_tamper(1, 1);
    verify_rejects_boundary_shift_1 = verify_rejects_boundary_shift(1);
    verify_rejects_message_shift_h = verify_rejects_message_shift();
    assertion_refused_1 = assertion_refused(1);
    verify_short_0 = verify_short(0); verify_short_255 = verify_short(255); verify_short_256 = verify_short(256); verify_short_258 = verify_short(258);
    sign_fail_closed_h = sign_fail_closed();
    canary_inputs_1 = canary_inputs(1);
}
// the codec harnesses feed symbolic bytes to `decode`, which tries `str::from_utf8` + PEM after DER: from_utf8 is replaced by
// its ASCII contract (see rsa::model::from_utf8_ascii for why this is outcome-equivalent for DER-then-PEM decoders)
macro_rules! plain {
    ($($name:ident = $f:ident($($g:literal),*);)*) => { $(
        #[kani::proof] #[kani::unwind(100)]
        #[kani::stub(core::str::from_utf8, rsa::model::from_utf8_ascii)]
        pub fn $name() { $f($($g),*); kani::cover!(true, "harness end reachable"); }
    )* };
}
plain! {
    public_key_codec_der_h = public_key_codec_der();
    public_key_codec_pem_h = public_key_codec_pem();
    public_key_codec_len_0 = public_key_codec_len(0); public_key_codec_len_35 = public_key_codec_len(35);
    public_key_codec_len_37 = public_key_codec_len(37); public_key_codec_len_80 = public_key_codec_len(80);
    public_key_roundtrip_h = public_key_roundtrip();
    secret_key_codec_der_h = secret_key_codec_der();
    secret_key_codec_pem_h = secret_key_codec_pem();
    secret_key_codec_len_0 = secret_key_codec_len(0); secret_key_codec_len_35 = secret_key_codec_len(35);
    secret_key_codec_len_37 = secret_key_codec_len(37);
    secret_key_random_h = secret_key_random();
}
// @@PLAYBACK@@
