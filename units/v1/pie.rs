// U8 (v1, PASERK PIE wrap) — appended to paseto-v1/src/core/pie_wrap.rs.
use paseto_core::PasetoError as PE;
const KX: usize = 48; // longest wrapped key (secret key = 48 bytes = 3 AES blocks); local = 32 (2 blocks); 16 = 1 block (not a key length: isolates the counter-width obligation)
const HD: usize = 80; // tag (48) + nonce (32)
const BX: usize = HD + KX;

fn header(KL: usize) -> &'static str { if KL != 48 { ".local-wrap.pie." } else { ".secret-wrap.pie." } }
fn other_header(KL: usize) -> &'static str { if KL != 48 { ".secret-wrap.pie." } else { ".local-wrap.pie." } }

/// [C07] pie_wrap_key == spec for the nonce it drew; [C05] fixed length; [C16] one fresh 32-byte draw, embedded
pub fn wrap_is_spec(KL: usize) {
    let wk: [u8; 32] = kani::any();
    let kb: [u8; KX] = kani::any();
    let ptk = &kb[..KL];
    vmodel_core::rng_may_fail(false);
    let pre = vmodel_core::rng_preview(0);
    let mut n = [0u8; 32];
    n.copy_from_slice(&pre[..32]);
    let mut specb = [0u8; BX];
    let spec = &mut specb[..HD + KL];
    vspec::v1::pie_wrap(header(KL).as_bytes(), &wk, &n, ptk, spec);
    let r = <V1 as PieWrapVersion>::pie_wrap_key(header(KL), &LocalKey(wk), ptk.to_vec());
    let ok = r.is_ok();
    let out = r.unwrap_or_default();
    vcheck_all!(
        (ok, "[C05] PIE wrapping always succeeds"),
        (!ok || out.len() == HD + KL, "[C05] PIE blob has the fixed length 48 (tag) + 32 (nonce) + |key|"),
        (vmodel_core::rng_draws() == 1 && vmodel_core::rng_draw(0).len == 32, "[C16] PIE wrap draws exactly one fresh 32-byte nonce"),
        (!ok || (out.len() == HD + KL && out[48..80] == n[..]), "[C16] the PIE blob embeds this call's nonce"),
        (!ok || out[..] == spec[..], "[C07] PIE wrap output equals the PASERK specification's blob for the nonce it embeds"),
    );
}

/// [C07]/[C05] pie_unwrap_key accepts the specification's blob and returns the wrapped key
pub fn unwrap_accepts_spec(KL: usize) {
    let wk: [u8; 32] = kani::any();
    let kb: [u8; KX] = kani::any();
    let ptk = &kb[..KL];
    let n: [u8; 32] = kani::any();
    let mut blobb = [0u8; BX];
    let blob = &mut blobb[..HD + KL];
    vspec::v1::pie_wrap(header(KL).as_bytes(), &wk, &n, ptk, blob);
    let r = <V1 as PieWrapVersion>::pie_unwrap_key(header(KL), &LocalKey(wk), blob);
    let ok = r.is_ok();
    let same = match r { Ok(k) => k == ptk, Err(_) => false };
    vcheck_all!(
        (ok, "[C07] every specification-conforming PIE blob unwraps"),
        (!ok || same, "[C05] unwrapping returns exactly the wrapped key bytes"),
    );
}

/// [C05] wrap with the library's own randomness, then unwrap
pub fn roundtrip(KL: usize) {
    let wk: [u8; 32] = kani::any();
    let kb: [u8; KX] = kani::any();
    let ptk = &kb[..KL];
    vmodel_core::rng_may_fail(false);
    let r = <V1 as PieWrapVersion>::pie_wrap_key(header(KL), &LocalKey(wk), ptk.to_vec());
    let ok = r.is_ok();
    let mut blob = r.unwrap_or_default();
    let r2 = <V1 as PieWrapVersion>::pie_unwrap_key(header(KL), &LocalKey(wk), &mut blob);
    let same = match r2 { Ok(k) => k == ptk, Err(_) => false };
    vcheck_all!(
        (ok, "[C05] PIE wrapping always succeeds"),
        (!ok || same, "[C05] PIE wrap then unwrap returns the original key"),
    );
}

/// [C06] any flipped bit (tag, nonce, ciphertext), another wrapping key, or a relabelled header => Err, buffer untouched
pub fn unwrap_rejects_tamper(KL: usize) {
    let wk: [u8; 32] = kani::any();
    let kb: [u8; KX] = kani::any();
    let ptk = &kb[..KL];
    let n: [u8; 32] = kani::any();
    let mut blobb = [0u8; BX];
    let blob = &mut blobb[..HD + KL];
    vspec::v1::pie_wrap(header(KL).as_bytes(), &wk, &n, ptk, blob);
    let mut wk2 = wk;
    let which: u8 = kani::any();
    let idx: usize = kani::any();
    let bit: u8 = kani::any();
    kani::assume(bit < 8);
    let mut h = header(KL);
    match which {
        0 => { kani::assume(idx < HD + KL); blob[idx] ^= 1 << bit; }
        1 => { kani::assume(idx < 32); wk2[idx] ^= 1 << bit; }
        _ => { h = other_header(KL); }
    }
    // k1 PIE truncates Ak = HMAC-SHA384(wk, 0x81 || n) to 32 bytes. vmodel-core's ideal-MAC assumption only says that the two
    // 48-byte outputs for wk and wk2 differ SOMEWHERE, so it is stated here for the truncation as well ("HMAC-SHA384
    // truncated to 256 bits is collision-free on the explored inputs", listed in the unit's assumptions). Evaluated in every
    // case (not only which == 1) so that the number of model calls stays independent of the symbolic selector.
    let (_, _, ak1) = vspec::v1::pie_keys(&wk, &n);
    let (_, _, ak2) = vspec::v1::pie_keys(&wk2, &n);
    kani::assume(which != 1 || ak1 != ak2);
    let mut beforeb = [0u8; BX];
    beforeb[..HD + KL].copy_from_slice(blob);
    let r = <V1 as PieWrapVersion>::pie_unwrap_key(h, &LocalKey(wk2), blob);
    let rejected = r.is_err();
    let kind_ok = matches!(r, Err(PE::CryptoError));
    let untouched = blob[..] == beforeb[..HD + KL];
    vcheck_all!(
        (rejected, "[C06] a PIE blob with any flipped bit, another wrapping key or a relabelled header is rejected"),
        (!rejected || kind_ok, "[C06] an authentication failure of a wrapped key is CryptoError"),
        (!rejected || untouched, "[C06] the wrapped key is not decrypted before authentication succeeds"),
    );
    kani::cover!(which == 0); kani::cover!(which == 1); kani::cover!(which == 2);
}

/// [C04] blobs of every length class: no panic; shorter than tag+nonce => InvalidKey
pub fn unwrap_short(L: usize) {
    let wk: [u8; 32] = kani::any();
    let mut b: [u8; BX] = kani::any();
    let r = <V1 as PieWrapVersion>::pie_unwrap_key(".local-wrap.pie.", &LocalKey(wk), &mut b[..L]);
    if L < HD {
        vassert!(matches!(r, Err(PE::InvalidKey)), "[C04] a too-short PIE blob is InvalidKey");
    } else {
        vassert!(matches!(r, Err(PE::CryptoError)) || r.is_ok(), "[C06] a full-length PIE blob fails only with CryptoError");
    }
}

/// [C16] RNG failure => Err(CryptoError), no blob
pub fn wrap_fail_closed() {
    let wk: [u8; 32] = kani::any();
    let kb: [u8; 32] = kani::any();
    vmodel_core::rng_may_fail(true);
    let r = <V1 as PieWrapVersion>::pie_wrap_key(".local-wrap.pie.", &LocalKey(wk), kb.to_vec());
    let all_ok = vmodel_core::rng_all_ok();
    match r {
        Ok(_) => vassert!(all_ok, "[C16] PIE wrap succeeds only when every RNG draw succeeded"),
        Err(e) => vcheck_all!(
            (!all_ok, "[C16] PIE wrap fails only when the RNG failed"),
            (matches!(e, PE::CryptoError), "[C16] RNG failure is reported as CryptoError"),
        ),
    }
    kani::cover!(all_ok); kani::cover!(!all_ok);
}

pub fn canary_inputs() {
    let wk: [u8; 32] = kani::any();
    let kb: [u8; 32] = kani::any();
    vmodel_core::rng_may_fail(false);
    let mut blob = <V1 as PieWrapVersion>::pie_wrap_key(".local-wrap.pie.", &LocalKey(wk), kb.to_vec()).unwrap_or_default();
    let _ = <V1 as PieWrapVersion>::pie_unwrap_key(".local-wrap.pie.", &LocalKey(wk), &mut blob);
    vassert!(wk[0] != 0x5a || kb[31] != 0xa5, "canary: must fail (false claim about the symbolic inputs)");
}

macro_rules! inst {
    ($($name:ident = $f:ident($($g:literal),*);)*) => { $(
        #[kani::proof] #[kani::unwind(180)]
        pub fn $name() { $f($($g),*); kani::cover!(true, "harness end reachable"); }
    )* };
}
inst! {
    // 16 bytes = one AES block: everything except the counter increment; 32 / 48 bytes = real key lengths (2 / 3 blocks):
    // the counter-width obligation (the specification's AES-256-CTR increments the full 128-bit counter block)
    wrap_is_spec_16 = wrap_is_spec(16); wrap_is_spec_32 = wrap_is_spec(32); wrap_is_spec_48 = wrap_is_spec(48);
    unwrap_accepts_spec_16 = unwrap_accepts_spec(16); unwrap_accepts_spec_32 = unwrap_accepts_spec(32); unwrap_accepts_spec_48 = unwrap_accepts_spec(48);
    roundtrip_32 = roundtrip(32); roundtrip_48 = roundtrip(48);
    unwrap_rejects_tamper_32 = unwrap_rejects_tamper(32); unwrap_rejects_tamper_48 = unwrap_rejects_tamper(48);
    unwrap_short_0 = unwrap_short(0); unwrap_short_47 = unwrap_short(47); unwrap_short_79 = unwrap_short(79);
    unwrap_short_80 = unwrap_short(80); unwrap_short_113 = unwrap_short(113);
    wrap_fail_closed_h = wrap_fail_closed();
    canary_inputs_h = canary_inputs();
}
// @@PLAYBACK@@
