from vrf.core import Unit, Harness

ALL = {"sha2": "models/sha2", "hmac": "models/hmac", "hkdf": "models/hkdf", "aes": "models/aes", "ctr": "models/ctr",
       "getrandom": "models/getrandom", "pbkdf2": "models/pbkdf2", "rsa": "models/rsa"}
A_SHA = "SHA-384 is a deterministic collision-free uninterpreted function of the message [ideal hash]"
A_HMAC = "HMAC-SHA384 is a deterministic collision-free uninterpreted function of (key, message) [ideal MAC]"
A_HKDF = "HKDF-SHA384 is a deterministic collision-free uninterpreted function of (ikm, salt, info, length) [ideal KDF]"
A_AES = "the AES-256 block function is a deterministic uninterpreted function of (key, block); ctr::Ctr64BE/Ctr128BE carry their TRUE counter arithmetic (64-bit / 128-bit big-endian increment) over it"
A_RNG = "getrandom::fill either fails or fills the buffer with arbitrary bytes"
A_PAE = "pre_auth_encode is replaced by its contract (proved in unit u1_pae)"
A_PBKDF = "PBKDF2-HMAC-SHA384 is a deterministic collision-free uninterpreted function of (password, salt, iterations, length); iterations are data, never executed"
A_RSA = ("RSA keys are opaque (modulus bit length + 32-byte identifier; public id = collision-free uninterpreted function of the private id); DER/PEM are injective MODEL encodings (36 / 79 bytes), "
         "acceptance of right-length bytes = framing + uninterpreted validity predicate + bits <= 4096; RSASSA-PSS = uninterpreted function of (public id, salt, digest), 256 bytes; "
         "IDEAL SIGNATURE: verify(pk, digest, sig) iff sig was produced for exactly (pk, digest); OsRng::fill_bytes panics on OS RNG failure (recorded in a ghost flag)")
TRUSTED = ["digest, cipher, crypto-common, inout, generic-array, typenum, subtle, zerocopy, signature (real crates, compiled by Kani)"]
DEV = {"paseto-v1/Cargo.toml": ['vspec = { path = "../verif-models/vspec" }', 'vmodel-core = { path = "../verif-models/vmodel-core" }']}
FLAGS = ["-Z", "stubbing", "--no-assertion-reach-checks"]


G = "v1"
L = "paseto-v1/src/core/local.rs"
PIE = "paseto-v1/src/core/pie_wrap.rs"
PBKW = "paseto-v1/src/core/pw_wrap.rs"
MOD = "paseto-v1/src/core/mod.rs"
CTR_NOTE = "two/three AES blocks: counter-width obligation"


def mk(name, file, src, path, feats, hs, assume):
    return Unit(
        name=name, group=G, members=["paseto-core", "paseto-v1"], package="paseto-v1",
        inject=[(file, ["units/common/pae_stub.rs", src])],
        patches=ALL, harness_path=path,
        kani_flags=FLAGS, no_default_features=True, features=feats,
        dev_deps=DEV, harnesses=hs, assumptions=assume, trusted=TRUSTED,
    )


def v1_local():
    fl = [f"{L}::{f}" for f in ("dangerous_seal_with_nonce", "unseal", "keys", "kdf", "preauth_local", "nonce")]
    B = "contents symbolic"
    hs = [
        Harness("seal_is_spec_0_0", ["C03", "C01"], complete=False, bound=f"|m|=0,|f|=0; {B}", functions=fl),
        Harness("seal_is_spec_3_2", ["C03", "C01"], complete=False, bound=f"|m|=3,|f|=2; {B}", functions=fl),
        Harness("seal_is_spec_16_0", ["C03", "C01"], complete=False, bound=f"|m|=16 (one AES block),|f|=0; {B}", functions=fl),
        Harness("seal_is_spec_17_0", ["C03", "C01"], complete=False, bound=f"|m|=17 (two AES blocks: counter-width obligation),|f|=0; {B}", functions=fl),
        Harness("unseal_accepts_spec_0_0", ["C03", "C01"], complete=False, bound="|m|=0,|f|=0", functions=fl),
        Harness("unseal_accepts_spec_3_2", ["C03", "C01"], complete=False, bound="|m|=3,|f|=2", functions=fl),
        Harness("unseal_accepts_spec_17_0", ["C03", "C01"], complete=False, bound="|m|=17 (two AES blocks: counter-width obligation),|f|=0", functions=fl),
        Harness("roundtrip_own_nonce_1_1", ["C01", "C16"], complete=False, bound="|m|=1,|f|=1", functions=fl),
        Harness("roundtrip_own_nonce_0_0", ["C01", "C16"], complete=False, bound="|m|=0,|f|=0", functions=fl),
        Harness("roundtrip_own_nonce_17_0", ["C01", "C16"], complete=False, bound="|m|=17,|f|=0", functions=fl),
        Harness("unseal_rejects_tamper_0_0", ["C02", "C12"], complete=False, bound="|m|=0,|f|=0; flip position and bit symbolic", functions=fl, timeout=1800),
        Harness("unseal_rejects_tamper_1_1", ["C02", "C12"], complete=False, bound="|m|=1,|f|=1; flip position and bit symbolic", functions=fl, timeout=1800),
        Harness("unseal_rejects_boundary_shift_1", ["C02"], complete=False, bound="|m|=1, footer 0/1/2 bytes", functions=fl),
        Harness("assertion_refused_1", ["C02"], complete=False, bound="|m|=1, 1-byte assertion", functions=fl),
        Harness("canary_inputs_1", ["C01", "C02", "C03", "C12"], expect="fail"),
        Harness("local_key_codec_h", ["C08", "C10", "C04"], complete=False, bound="key byte strings of length 0..=40", functions=[f"{L}::decode", f"{L}::encode"]),
        Harness("local_key_random_h", ["C16"], functions=[f"{L}::random"]),
        Harness("nonce_fail_closed_h", ["C16"], functions=[f"{L}::nonce"]),
    ]
    for n in (0, 47, 79, 80, 82):
        hs.append(Harness(f"unseal_short_{n}", ["C04", "C12"], complete=False, bound=f"payload length {n}", functions=[f"{L}::unseal"]))
    return mk("v1_local", L, "units/v1/local.rs", "core::local::verif", ["encrypting"], hs, [A_HKDF, A_HMAC, A_AES, A_RNG, A_PAE])

def v1_pie():
    fl = [f"{PIE}::{f}" for f in ("pie_wrap_key", "pie_unwrap_key", "wrap_keys", "kdf", "auth")]
    hs = [
        Harness("wrap_is_spec_16", ["C07", "C05"], complete=False, bound="|key data|=16 (one AES block; not a key length)", functions=fl),
        Harness("wrap_is_spec_32", ["C07", "C05"], complete=False, bound=f"local key (32 bytes; {CTR_NOTE})", functions=fl),
        Harness("wrap_is_spec_48", ["C07", "C05"], complete=False, bound=f"secret key (48 bytes; {CTR_NOTE})", functions=fl),
        Harness("unwrap_accepts_spec_16", ["C07", "C05"], complete=False, bound="|key data|=16 (one AES block; not a key length)", functions=fl),
        Harness("unwrap_accepts_spec_32", ["C07", "C05"], complete=False, bound=f"local key (32 bytes; {CTR_NOTE})", functions=fl),
        Harness("unwrap_accepts_spec_48", ["C07", "C05"], complete=False, bound=f"secret key (48 bytes; {CTR_NOTE})", functions=fl),
        Harness("roundtrip_32", ["C05", "C16"], complete=False, bound="local key", functions=fl),
        Harness("roundtrip_48", ["C05", "C16"], complete=False, bound="secret key", functions=fl),
        Harness("unwrap_rejects_tamper_32", ["C06"], complete=False, bound="local key; flip position and bit symbolic", functions=fl, timeout=1800),
        Harness("unwrap_rejects_tamper_48", ["C06"], complete=False, bound="secret key; flip position and bit symbolic", functions=fl, timeout=1800),
        Harness("wrap_fail_closed_h", ["C16"], functions=fl),
        Harness("canary_inputs_h", ["C05", "C06", "C07", "C16"], expect="fail"),
    ]
    for n in (0, 47, 79, 80, 113):
        hs.append(Harness(f"unwrap_short_{n}", ["C04"], complete=False, bound=f"blob length {n}", functions=[f"{PIE}::pie_unwrap_key"]))
    return mk("v1_pie", PIE, "units/v1/pie.rs", "core::pie_wrap::verif", ["pie-wrap"], hs, [A_HMAC, "unwrap_rejects_tamper_*, other-wrapping-key case only: HMAC-SHA384 truncated to 256 bits (the k1 PIE authentication key) is collision-free on the explored inputs", A_AES, A_RNG])


def v1_pbkw():
    fl = [f"{PBKW}::{f}" for f in ("pw_wrap_key", "pw_unwrap_key", "get_params", "wrap_keys", "kdf", "auth")]
    hs = [
        Harness("wrap_is_spec_16_default", ["C07", "C05"], complete=False, bound="|key data|=16 (one AES block; not a key length), |pw|=2, default parameters", functions=fl),
        Harness("wrap_is_spec_32_default", ["C07", "C05"], complete=False, bound=f"local key ({CTR_NOTE}), |pw|=2, default parameters", functions=fl),
        Harness("wrap_is_spec_48_custom", ["C07", "C05"], complete=False, bound=f"secret key ({CTR_NOTE}), |pw|=1, any iteration count >= 1", functions=fl),
        Harness("unwrap_accepts_spec_16", ["C07", "C05"], complete=False, bound="|key data|=16 (one AES block), |pw|=2, any iteration count >= 1", functions=fl),
        Harness("unwrap_accepts_spec_32", ["C07", "C05"], complete=False, bound=f"local key ({CTR_NOTE}), |pw|=2, any iteration count >= 1", functions=fl),
        Harness("unwrap_accepts_spec_48", ["C07", "C05"], complete=False, bound=f"secret key ({CTR_NOTE}), empty password, any iteration count >= 1", functions=fl),
        Harness("roundtrip_32_default", ["C05", "C16"], complete=False, bound="local key, |pw|=2, default parameters", functions=fl),
        Harness("roundtrip_48_custom", ["C05", "C16"], complete=False, bound="secret key, empty password, any iteration count", functions=fl),
        Harness("unwrap_rejects_tamper_32", ["C06"], complete=False, bound="local key, |pw|=2; flip position and bit symbolic", functions=fl, timeout=1800),
        Harness("unwrap_rejects_tamper_48", ["C06"], complete=False, bound="secret key, |pw|=1; flip position and bit symbolic", functions=fl, timeout=1800),
        Harness("wrap_fail_closed_h", ["C16"], functions=fl),
        Harness("canary_inputs_h", ["C05", "C06", "C07", "C16"], expect="fail"),
    ]
    for n in (0, 51, 52, 99, 100, 133):
        hs.append(Harness(f"unwrap_short_{n}", ["C04"], complete=False, bound=f"blob length {n}, any parameter block", functions=[f"{PBKW}::pw_unwrap_key", f"{PBKW}::get_params"]))
    return mk("v1_pbkw", PBKW, "units/v1/pbkw.rs", "core::pw_wrap::verif", ["pbkw"], hs, [A_PBKDF, A_SHA, A_HMAC, A_AES, A_RNG])


def v1_id():
    fl = [f"{MOD}::hash_key"]
    hs = [
        Harness("id_is_spec_52", ["C13"], complete=False, bound="PASERK text of 52 bytes (k1.local.*), all three id kinds", functions=fl),
        Harness("id_is_spec_100", ["C13"], complete=False, bound="text of 100 bytes (real k1.public/k1.secret texts exceed the model capacity)", functions=fl),
        Harness("id_is_spec_160", ["C13"], complete=False, bound="text of 160 bytes (model capacity)", functions=fl),
        Harness("id_is_spec_1", ["C13"], complete=False, bound="text of 1 byte", functions=fl),
        Harness("id_domain_separated_h", ["C13"], complete=False, bound="text of 10 bytes", functions=fl),
        Harness("canary_inputs_h", ["C13"], expect="fail"),
    ]
    return mk("v1_id", MOD, "units/v1/id.rs", "core::verif", ["id"], hs, [A_SHA])


P = "paseto-v1/src/core/public.rs"


def v1_public():
    fl = [f"{P}::{f}" for f in ("dangerous_seal_with_nonce", "unseal", "preauth_public", "unsealing_key", "nonce")]
    kd = [f"{P}::decode", f"{P}::encode"]
    hs = [
        Harness("sign_is_spec_0_0", ["C03", "C01", "C16"], complete=False, bound="|m|=0,|f|=0; contents symbolic", functions=fl),
        Harness("sign_is_spec_3_2", ["C03", "C01", "C16"], complete=False, bound="|m|=3,|f|=2; contents symbolic", functions=fl),
        Harness("verify_accepts_spec_0_0", ["C03", "C01"], complete=False, bound="|m|=0,|f|=0", functions=fl),
        Harness("verify_accepts_spec_3_2", ["C03", "C01"], complete=False, bound="|m|=3,|f|=2", functions=fl),
        Harness("roundtrip_own_nonce_0_0", ["C01"], complete=False, bound="|m|=0,|f|=0", functions=fl),
        Harness("roundtrip_own_nonce_1_1", ["C01"], complete=False, bound="|m|=1,|f|=1", functions=fl),
        Harness("verify_rejects_tamper_0_0", ["C02", "C12"], complete=False, bound="|m|=0,|f|=0; flip position and bit symbolic", functions=fl, timeout=1800),
        Harness("verify_rejects_tamper_1_1", ["C02", "C12"], complete=False, bound="|m|=1,|f|=1; flip position and bit symbolic", functions=fl, timeout=1800),
        Harness("verify_rejects_boundary_shift_1", ["C02"], complete=False, bound="|m|=1, footer 0/1/2 bytes", functions=fl),
        Harness("verify_rejects_message_shift_h", ["C02"], complete=False, bound="message+footer 3 bytes", functions=fl),
        Harness("assertion_refused_1", ["C02"], complete=False, bound="|m|=1, 1-byte assertion", functions=fl),
        Harness("sign_fail_closed_h", ["C16"], complete=False, bound="|m|=2", functions=fl),
        Harness("canary_inputs_1", ["C01", "C02", "C03", "C12"], expect="fail"),
        Harness("public_key_codec_der_h", ["C08", "C10", "C04"], complete=False, bound="all byte strings of the model's DER length (36)", functions=kd),
        Harness("public_key_codec_pem_h", ["C08", "C10", "C13"], complete=False, bound="well-formed model PEM of any (bits, id)", functions=kd),
        Harness("public_key_roundtrip_h", ["C08"], functions=kd + [f"{P}::unsealing_key"]),
        Harness("secret_key_codec_der_h", ["C08", "C10", "C04"], complete=False, bound="all byte strings of the model's DER length (36)", functions=kd + [f"{P}::unsealing_key"]),
        Harness("secret_key_codec_pem_h", ["C08", "C10", "C13"], complete=False, bound="well-formed model PEM of any (bits, id)", functions=kd),
        Harness("secret_key_random_h", ["C16"], complete=False, bound="key generation modelled as one 32-byte draw", functions=[f"{P}::random"]),
    ]
    for n in (0, 35, 37, 80):
        hs.append(Harness(f"public_key_codec_len_{n}", ["C10", "C04"], complete=False, bound=f"all byte strings of length {n}", functions=kd))
    for n in (0, 35, 37):
        hs.append(Harness(f"secret_key_codec_len_{n}", ["C10", "C04"], complete=False, bound=f"all byte strings of length {n}", functions=kd))
    for n in (0, 255, 256, 258):
        hs.append(Harness(f"verify_short_{n}", ["C04", "C12"], complete=False, bound=f"payload length {n}", functions=[f"{P}::unseal"]))
    return mk("v1_public", P, "units/v1/public.rs", "core::public::verif", ["signing"], hs, [A_SHA, A_RSA, A_RNG, A_PAE])


PKE = "paseto-v1/src/core/pke.rs"


def v1_pke():
    fl = [f"{PKE}::{f}" for f in ("seal_key", "unseal_key")]
    hs = [
        Harness("seal_is_spec_lz0", ["C07", "C05"], complete=False, bound="RSA-KEM ciphertext without a leading zero byte (255/256 of all ciphertexts)", functions=fl, timeout=2400),
        Harness("seal_is_spec_lz1", ["C07", "C05"], complete=False, bound="RSA-KEM ciphertext with exactly one leading zero byte", functions=fl, timeout=2400),
        Harness("unseal_accepts_spec_lz0", ["C07", "C05"], complete=False, bound="ciphertext without a leading zero byte", functions=fl, timeout=2400),
        Harness("unseal_accepts_spec_lz1", ["C07", "C05"], complete=False, bound="ciphertext with exactly one leading zero byte", functions=fl, timeout=2400),
        Harness("roundtrip_lz0", ["C05", "C16"], complete=False, bound="ciphertext without a leading zero byte", functions=fl, timeout=2400),
        Harness("roundtrip_lz1", ["C05", "C16"], complete=False, bound="ciphertext with exactly one leading zero byte", functions=fl, timeout=2400),
        Harness("unseal_rejects_tamper_h", ["C06"], complete=False, bound="flip position and bit symbolic; decrypted integer without leading zero byte", functions=fl, timeout=3600),
        Harness("seal_fail_closed_h", ["C16"], functions=fl, timeout=2400),
        Harness("canary_inputs_h", ["C05", "C06", "C07", "C16"], expect="fail", timeout=2400),
    ]
    for n in (0, 79, 591, 592, 593):
        hs.append(Harness(f"unseal_len_{n}", ["C04", "C06"], complete=False, bound=f"blob length {n}", functions=[f"{PKE}::unseal_key"], timeout=2400))
    # own group + vmodel-core feature "big": the 512-byte RSA values need MCAP = 560 / DRAW_CAP = 512; the other v1 units keep the
    # default capacities (and their speed), so v1_pke is built separately from the "v1" group
    u = mk("v1_pke", PKE, "units/v1/pke.rs", "core::pke::verif", ["pke"], hs, [A_RSA, A_SHA, A_HMAC, A_AES, A_RNG])
    u.group = "v1pke"
    u.dev_deps = {"paseto-v1/Cargo.toml": ['vspec = { path = "../verif-models/vspec" }', 'vmodel-core = { path = "../verif-models/vmodel-core", features = ["big"] }']}
    return u


def units():
    return [v1_local(), v1_public(), v1_pie(), v1_pbkw(), v1_pke(), v1_id()]
