// U7 (v1, local purpose) — appended to paseto-v1/src/core/local.rs. Real crate, dependencies replaced by the
// assumed-contract models (sha2, hmac, hkdf, aes, ctr, getrandom -> vmodel-core), pre_auth_encode replaced by its contract.
use paseto_core::version::{SealingVersion, UnsealingVersion};
use paseto_core::PasetoError as PE;

const TAG: usize = 48;
const NONCE: usize = 32;

/// Lengths are *concrete* per harness instance (literals), contents symbolic. Buffers are over-allocated and sliced so that
/// no zero-sized object is ever created (CBMC loses constant lengths behind pointers to zero-sized objects).
const MX: usize = 20;
const TX: usize = NONCE + MX + TAG;

fn payload_of(nonce: &[u8], msg: &[u8]) -> Vec<u8> {
    let mut p = Vec::with_capacity(NONCE + msg.len() + TAG);
    p.extend_from_slice(nonce);
    p.extend_from_slice(msg);
    p
}

/// [C03] dangerous_seal_with_nonce(b || m) == spec token for the random bytes b (nonce = HMAC-SHA384(m, key = b)[0:32]); [C01] length
pub fn seal_is_spec(M: usize, F: usize) {
    let T = NONCE + M + TAG;
    let key: [u8; 32] = kani::any();
    let b: [u8; 32] = kani::any();
    let msgb: [u8; MX] = kani::any();
    let msg = &msgb[..M];
    let fb: [u8; MX] = kani::any();
    let f = &fb[..F];
    let mut specb = [0u8; TX];
    let spec = &mut specb[..T];
    vspec::v1::local_encrypt(&key, &b, msg, b"", f, spec);
    let r = <V1 as SealingVersion<Local>>::dangerous_seal_with_nonce(&LocalKey(key), "", payload_of(&b, msg), f, &[]);
    let ok = r.is_ok();
    let out = r.unwrap_or_default();
    let len_ok = out.len() == T;
    vcheck_all!(
        (ok, "[C01] sealing with a 32-byte nonce seed always succeeds"),
        (!ok || len_ok, "[C01] sealed payload length is 32 (nonce) + |message| + 48 (tag)"),
        (!ok || (len_ok && out[..32] == spec[..32]), "[C03] the token's nonce is HMAC-SHA384(message, key = random bytes) truncated to 32 bytes"),
        (!ok || out[..] == spec[..], "[C03] v1.local seal output equals the specification's token for these random bytes"),
    );
}

/// [C03]/[C01] unseal accepts every specification-conforming token (any nonce) and returns exactly the message
pub fn unseal_accepts_spec(M: usize, F: usize) {
    let T = NONCE + M + TAG;
    let key: [u8; 32] = kani::any();
    let n: [u8; 32] = kani::any();
    let msgb: [u8; MX] = kani::any();
    let msg = &msgb[..M];
    let fb: [u8; MX] = kani::any();
    let f = &fb[..F];
    let mut tokb = [0u8; TX];
    let tok = &mut tokb[..T];
    vspec::v1::local_encrypt_with_n(&key, &n, msg, b"", f, tok);
    let r = <V1 as UnsealingVersion<Local>>::unseal(&LocalKey(key), "", tok, f, &[]);
    let ok = r.is_ok();
    let same = match r { Ok(m) => m == msg, Err(_) => false };
    vcheck_all!(
        (ok, "[C03] every specification-conforming v1.local token is accepted"),
        (!ok || same, "[C01] unseal returns exactly the sealed message"),
    );
}

/// [C01]/[C16] the library's own nonce(): seal . unseal == id; one fresh 32-byte draw seeds the nonce
pub fn roundtrip_own_nonce(M: usize, F: usize) {
    let key: [u8; 32] = kani::any();
    let msgb: [u8; MX] = kani::any();
    let msg = &msgb[..M];
    let fb: [u8; MX] = kani::any();
    let f = &fb[..F];
    vmodel_core::rng_may_fail(false);
    let n = <V1 as SealingVersion<Local>>::nonce();
    let n_ok = n.is_ok();
    let mut p = n.unwrap_or_default();
    let d = vmodel_core::rng_draw(0);
    let plen = p.len();
    let fresh = vmodel_core::rng_draws() == 1 && d.len == plen && plen == 32 && p[..] == d.bytes[..32];
    let mut seed = [0u8; 32];
    seed.copy_from_slice(&d.bytes[..32]);
    let expect_nonce = vspec::v1::get_nonce(msg, &seed);
    p.extend_from_slice(msg);
    let sealed = <V1 as SealingVersion<Local>>::dangerous_seal_with_nonce(&LocalKey(key), "", p, f, &[]);
    let s_ok = sealed.is_ok();
    let mut tok = sealed.unwrap_or_default();
    let len_ok = tok.len() == NONCE + M + TAG;
    let nonce_ok = len_ok && tok[..32] == expect_nonce[..];
    let r = <V1 as UnsealingVersion<Local>>::unseal(&LocalKey(key), "", &mut tok, f, &[]);
    let same = match r { Ok(m) => m == msg, Err(_) => false };
    vcheck_all!(
        (n_ok, "[C16] nonce() succeeds when every RNG draw succeeds"),
        (fresh, "[C16] the nonce seed is exactly the 32 bytes of this call's single RNG draw"),
        (s_ok, "[C01] sealing with the library's own nonce succeeds"),
        (!s_ok || len_ok, "[C01] a token sealed with the library's own nonce has length 32 + |message| + 48"),
        (!s_ok || nonce_ok, "[C16] the token's nonce is derived from this call's draw and the message (HMAC-SHA384(m, key = draw)[0:32])"),
        (!s_ok || same, "[C01] seal with the library's own nonce, then unseal, returns the original message"),
    );
}

/// [C16] RNG failure => nonce() is Err(CryptoError)
pub fn nonce_fail_closed() {
    vmodel_core::rng_may_fail(true);
    let n = <V1 as SealingVersion<Local>>::nonce();
    let all_ok = vmodel_core::rng_all_ok();
    match n {
        Err(e) => vcheck_all!(
            (!all_ok, "[C16] nonce() fails only when the RNG failed"),
            (matches!(e, PE::CryptoError), "[C16] RNG failure is reported as CryptoError"),
        ),
        Ok(p) => vassert!(all_ok && vmodel_core::rng_draws() == 1 && vmodel_core::rng_draw(0).len == 32 && p.len() == 32, "[C16] nonce() succeeds only when its single 32-byte RNG draw succeeded"),
    }
    kani::cover!(all_ok); kani::cover!(!all_ok);
}

/// [C02]/[C12] any single-bit flip of the token, any footer change, any other key => Err, payload untouched
pub fn unseal_rejects_tamper(M: usize, F: usize) {
    let T = NONCE + M + TAG;
    let key: [u8; 32] = kani::any();
    let n: [u8; 32] = kani::any();
    let msgb: [u8; MX] = kani::any();
    let msg = &msgb[..M];
    let fb: [u8; MX] = kani::any();
    let mut tokb = [0u8; TX];
    let tok = &mut tokb[..T];
    vspec::v1::local_encrypt_with_n(&key, &n, msg, b"", &fb[..F], tok);
    let mut key2 = key;
    let mut f2b = fb;
    let which: u8 = kani::any();
    let idx: usize = kani::any();
    let bit: u8 = kani::any();
    kani::assume(bit < 8);
    match which {
        0 => { kani::assume(idx < T); tok[idx] ^= 1 << bit; }
        1 => { kani::assume(idx < 32); key2[idx] ^= 1 << bit; }
        _ => { kani::assume(idx < F); f2b[idx] ^= 1 << bit; }
    }
    let mut beforeb = [0u8; TX];
    beforeb[..T].copy_from_slice(tok);
    let r = <V1 as UnsealingVersion<Local>>::unseal(&LocalKey(key2), "", tok, &f2b[..F], &[]);
    let rejected = r.is_err();
    let kind_ok = matches!(r, Err(PE::CryptoError));
    let untouched = tok[..] == beforeb[..T];
    vcheck_all!(
        (rejected, "[C02][C12] a token with any single flipped bit, a changed footer or another key is rejected"),
        (!rejected || kind_ok, "[C12] an authentication failure is reported as CryptoError, whatever the payload bytes"),
        (!rejected || untouched, "[C12] nothing is decrypted before authentication succeeds (payload buffer untouched on failure)"),
    );
    kani::cover!(which == 0, "token bit flip explored");
    kani::cover!(which == 1, "other key explored");
}

/// [C02] a byte moved between message and footer (same tag) is rejected
pub fn unseal_rejects_boundary_shift(M: usize) {
    let T = NONCE + M + TAG;
    let key: [u8; 32] = kani::any();
    let n: [u8; 32] = kani::any();
    let msgb: [u8; MX] = kani::any();
    let msg = &msgb[..M];
    let ff: [u8; 2] = kani::any();
    let mut tokb = [0u8; TX];
    let tok = &mut tokb[..T];
    // sealed with footer = ff[..1]
    vspec::v1::local_encrypt_with_n(&key, &n, msg, b"", &ff[..1], tok);
    let split: usize = kani::any();
    kani::assume(split <= 2 && split != 1);
    let r = <V1 as UnsealingVersion<Local>>::unseal(&LocalKey(key), "", tok, &ff[..split], &[]);
    vassert!(r.is_err(), "[C02] a truncated or extended footer is rejected");
}

/// [C02] v1 has no implicit assertions: a non-empty assertion is refused by seal and unseal, never ignored
pub fn assertion_refused(M: usize) {
    let T = NONCE + M + TAG;
    let key: [u8; 32] = kani::any();
    let n: [u8; 32] = kani::any();
    let msgb: [u8; MX] = kani::any();
    let msg = &msgb[..M];
    let a: [u8; 1] = kani::any();
    let mut tokb = [0u8; TX];
    let tok = &mut tokb[..T];
    vspec::v1::local_encrypt_with_n(&key, &n, msg, b"", &[], tok);
    let r1 = <V1 as SealingVersion<Local>>::dangerous_seal_with_nonce(&LocalKey(key), "", payload_of(&n, msg), &[], &a);
    let r2 = <V1 as UnsealingVersion<Local>>::unseal(&LocalKey(key), "", tok, &[], &a);
    vcheck_all!(
        (matches!(r1, Err(PE::ClaimsError)), "[C02] v1 sealing refuses a non-empty implicit assertion with ClaimsError"),
        (matches!(r2, Err(PE::ClaimsError)), "[C02] v1 unsealing refuses a non-empty implicit assertion with ClaimsError instead of ignoring it"),
    );
}

/// [C04]/[C12] every length class around nonce+tag (80): no panic; too short => InvalidToken
pub fn unseal_short(L: usize) {
    let key: [u8; 32] = kani::any();
    let mut pb: [u8; TX] = kani::any();
    let f: [u8; 1] = kani::any();
    let r = <V1 as UnsealingVersion<Local>>::unseal(&LocalKey(key), "", &mut pb[..L], &f, &[]);
    if L < NONCE + TAG {
        vassert!(matches!(r, Err(PE::InvalidToken)), "[C12] a too-short payload is InvalidToken, independent of its bytes");
    } else {
        vassert!(matches!(r, Err(PE::CryptoError)) || r.is_ok(), "[C12] error kind for a full-length payload is CryptoError");
    }
}

/// [C08]/[C10] local keys: exact length, byte-identical round trip, clone, unsealing_key, From<[u8;32]>
pub fn local_key_codec() {
    let b: [u8; 40] = kani::any();
    let n: usize = kani::any();
    kani::assume(n <= 40);
    let r = <V1 as HasKey<Local>>::decode(&b[..n]);
    match r {
        Ok(k) => {
            let e = <V1 as HasKey<Local>>::encode(&k);
            let c = k.clone();
            let u = <V1 as SealingVersion<Local>>::unsealing_key(&k);
            vcheck_all!(
                (n == 32, "[C10] only exactly 32 bytes are accepted as a local key"),
                (e.len() == n && e[..] == b[..n], "[C08] decode then encode is the identity on local keys"),
                (c.0 == k.0 && u.0 == k.0, "[C08] clone / unsealing_key of a local key have identical bytes"),
            );
        }
        Err(e) => {
            vcheck_all!(
                (n != 32, "[C08] every 32-byte string is a valid local key"),
                (matches!(e, PE::InvalidKey), "[C10] wrong-length key bytes are InvalidKey"),
            );
        }
    }
    kani::cover!(n == 32);
    kani::cover!(n == 33);
}

/// [C16] key generation: RNG failure => Err; generated key is the drawn bytes
pub fn local_key_random() {
    vmodel_core::rng_may_fail(true);
    let r = <V1 as SealingVersion<Local>>::random();
    let all_ok = vmodel_core::rng_all_ok();
    let d = vmodel_core::rng_draw(0);
    match r {
        Ok(k) => vcheck_all!(
            (all_ok, "[C16] key generation succeeds only when every RNG draw succeeded"),
            (vmodel_core::rng_draws() == 1 && d.len == 32 && k.0[..] == d.bytes[..32], "[C16] the generated local key is exactly this call's 32 drawn bytes"),
        ),
        Err(e) => vcheck_all!(
            (!all_ok, "[C16] key generation fails only when the RNG failed"),
            (matches!(e, PE::CryptoError), "[C16] RNG failure is reported as CryptoError"),
        ),
    }
    kani::cover!(all_ok); kani::cover!(!all_ok);
}

/// canary: a false claim about the *inputs*, placed after every model assumption of a full seal + unseal has been made.
pub fn canary_inputs(M: usize) {
    let T = NONCE + M + TAG;
    let key: [u8; 32] = kani::any();
    let n: [u8; 32] = kani::any();
    let msgb: [u8; MX] = kani::any();
    let msg = &msgb[..M];
    let mut tokb = [0u8; TX];
    let tok = &mut tokb[..T];
    vspec::v1::local_encrypt_with_n(&key, &n, msg, b"", &[7], tok);
    let _ = <V1 as SealingVersion<Local>>::dangerous_seal_with_nonce(&LocalKey(key), "", payload_of(&n, msg), &[7], &[]);
    let _ = <V1 as UnsealingVersion<Local>>::unseal(&LocalKey(key), "", tok, &[7], &[]);
    vassert!(key[0] != 0x5a || n[31] != 0xa5, "canary: must fail (false claim about the symbolic inputs)");
}

macro_rules! inst {
    ($($name:ident = $f:ident($($g:literal),*);)*) => { $(
        #[kani::proof] #[kani::unwind(180)]
        #[kani::stub(paseto_core::pae::pre_auth_encode, pae_contract)]
        pub fn $name() { $f($($g),*); kani::cover!(true, "harness end reachable"); }
    )* };
}
inst! {
    seal_is_spec_0_0 = seal_is_spec(0, 0);
    seal_is_spec_3_2 = seal_is_spec(3, 2);
    seal_is_spec_16_0 = seal_is_spec(16, 0);
    // two AES blocks: the counter-width obligation (the specification increments the full 128-bit counter block);
    // in v1.local the CTR nonce is the token's own nonce[16..32]
    seal_is_spec_17_0 = seal_is_spec(17, 0);
    unseal_accepts_spec_0_0 = unseal_accepts_spec(0, 0);
    unseal_accepts_spec_3_2 = unseal_accepts_spec(3, 2);
    unseal_accepts_spec_17_0 = unseal_accepts_spec(17, 0);
    roundtrip_own_nonce_1_1 = roundtrip_own_nonce(1, 1);
    roundtrip_own_nonce_0_0 = roundtrip_own_nonce(0, 0);
    roundtrip_own_nonce_17_0 = roundtrip_own_nonce(17, 0);
    unseal_rejects_tamper_1_1 = unseal_rejects_tamper(1, 1);
    unseal_rejects_tamper_0_0 = unseal_rejects_tamper(0, 0);
    unseal_rejects_boundary_shift_1 = unseal_rejects_boundary_shift(1);
    assertion_refused_1 = assertion_refused(1);
    unseal_short_0 = unseal_short(0); unseal_short_47 = unseal_short(47); unseal_short_79 = unseal_short(79);
    unseal_short_80 = unseal_short(80); unseal_short_82 = unseal_short(82);
    canary_inputs_1 = canary_inputs(1);
}
#[kani::proof] #[kani::unwind(50)]
pub fn local_key_codec_h() { local_key_codec(); }
#[kani::proof] #[kani::unwind(50)]
pub fn local_key_random_h() { local_key_random(); }
#[kani::proof] #[kani::unwind(50)]
pub fn nonce_fail_closed_h() { nonce_fail_closed(); }
// @@PLAYBACK@@
