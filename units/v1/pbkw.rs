// U8 (v1, PASERK PBKW password wrap) — appended to paseto-v1/src/core/pw_wrap.rs.
// Blob: salt(32) ‖ iterations(be32) ‖ nonce(16) ‖ edk ‖ tag(48). The iteration count is DATA for the PBKDF2 model (never executed).
use paseto_core::PasetoError as PE;
const KX: usize = 48; // secret key = 48 bytes (3 AES blocks); local = 32 (2 blocks); 16 = 1 block (not a key length: isolates the counter-width obligation)
const PRE: usize = 52; // salt + iterations + nonce
const FIX: usize = PRE + 48;
const BX: usize = FIX + KX;
const PWX: usize = 4;

fn header(KL: usize) -> &'static str { if KL != 48 { ".local-pw." } else { ".secret-pw." } }
fn other_header(KL: usize) -> &'static str { if KL != 48 { ".secret-pw." } else { ".local-pw." } }
fn params(iterations: u32) -> Params { Params { iterations: big_endian::U32::new(iterations) } }

/// [C07] pw_wrap_key == spec for the salt/nonce it drew and the given iteration count; [C05] fixed length; [C16] two fresh draws
pub fn wrap_is_spec(KL: usize, PL: usize, default_params: bool) {
    let pwb: [u8; PWX] = kani::any();
    let pw = &pwb[..PL];
    let kb: [u8; KX] = kani::any();
    let ptk = &kb[..KL];
    let it: u32 = if default_params { 100_000 } else { kani::any() };
    kani::assume(it >= 1); // PBKDF2 is defined for a positive iteration count
    vmodel_core::rng_may_fail(false);
    let d0 = vmodel_core::rng_preview_len(32);
    let d1 = vmodel_core::rng_preview_len(16);
    let mut salt = [0u8; 32];
    salt.copy_from_slice(&d0[..32]);
    let mut n = [0u8; 16];
    n.copy_from_slice(&d1[..16]);
    let mut specb = [0u8; BX];
    let spec = &mut specb[..FIX + KL];
    vspec::v1::pbkw_wrap(header(KL).as_bytes(), pw, &salt, it, &n, ptk, spec);
    let p = if default_params { Params::default() } else { params(it) };
    let r = <V1 as PwWrapVersion>::pw_wrap_key(header(KL), pw, &p, ptk.to_vec());
    let ok = r.is_ok();
    let out = r.unwrap_or_default();
    let len_ok = out.len() == FIX + KL;
    vcheck_all!(
        (ok, "[C05] password wrapping always succeeds"),
        (!ok || len_ok, "[C05] PBKW blob has the fixed length 32+4+16+|key|+48"),
        (vmodel_core::rng_draws() == 2 && vmodel_core::rng_has_len(32) && vmodel_core::rng_has_len(16), "[C16] PBKW draws a fresh 32-byte salt and a fresh 16-byte nonce"),
        (!ok || (len_ok && out[..32] == salt[..] && out[36..52] == n[..]), "[C16] the PBKW blob embeds this call's salt and nonce"),
        (!ok || (len_ok && out[32..36] == it.to_be_bytes()), "[C07] the iteration count is stored as a 4-byte big-endian integer after the salt"),
        (!ok || out[..] == spec[..], "[C07] PBKW output equals the PASERK specification's blob for the salt, nonce and parameters it embeds"),
    );
}

/// [C07]/[C05] pw_unwrap_key accepts the specification's blob (any salt, nonce, iteration count) and returns the wrapped key
pub fn unwrap_accepts_spec(KL: usize, PL: usize) {
    let pwb: [u8; PWX] = kani::any();
    let pw = &pwb[..PL];
    let kb: [u8; KX] = kani::any();
    let ptk = &kb[..KL];
    let salt: [u8; 32] = kani::any();
    let n: [u8; 16] = kani::any();
    let it: u32 = kani::any();
    kani::assume(it >= 1);
    let mut blobb = [0u8; BX];
    let blob = &mut blobb[..FIX + KL];
    vspec::v1::pbkw_wrap(header(KL).as_bytes(), pw, &salt, it, &n, ptk, blob);
    let gp = <V1 as PwWrapVersion>::get_params(blob);
    let params_ok = match gp { Ok(p) => p.iterations.get() == it, Err(_) => false };
    let r = <V1 as PwWrapVersion>::pw_unwrap_key(header(KL), pw, blob);
    let ok = r.is_ok();
    let same = match r { Ok(k) => k == ptk, Err(_) => false };
    vcheck_all!(
        (params_ok, "[C05] the parameters read back from a blob are those it was wrapped with"),
        (ok, "[C07] every specification-conforming PBKW blob unwraps with the right password"),
        (!ok || same, "[C05] unwrapping returns exactly the wrapped key bytes"),
    );
}

/// [C05] wrap with the library's own randomness (default or arbitrary parameters), then unwrap
pub fn roundtrip(KL: usize, PL: usize, default_params: bool) {
    let pwb: [u8; PWX] = kani::any();
    let pw = &pwb[..PL];
    let kb: [u8; KX] = kani::any();
    let ptk = &kb[..KL];
    let it: u32 = kani::any();
    vmodel_core::rng_may_fail(false);
    let p = if default_params { Params::default() } else { params(it) };
    let r = <V1 as PwWrapVersion>::pw_wrap_key(header(KL), pw, &p, ptk.to_vec());
    let ok = r.is_ok();
    let mut blob = r.unwrap_or_default();
    let r2 = <V1 as PwWrapVersion>::pw_unwrap_key(header(KL), pw, &mut blob);
    let same = match r2 { Ok(k) => k == ptk, Err(_) => false };
    vcheck_all!(
        (ok, "[C05] password wrapping always succeeds"),
        (!ok || same, "[C05] password wrap then unwrap returns the original key"),
    );
}

/// [C06] any flipped bit (salt, iteration count, nonce, ciphertext, tag), another password, a relabelled header => Err
pub fn unwrap_rejects_tamper(KL: usize, PL: usize) {
    let pwb: [u8; PWX] = kani::any();
    let kb: [u8; KX] = kani::any();
    let ptk = &kb[..KL];
    let salt: [u8; 32] = kani::any();
    let n: [u8; 16] = kani::any();
    let it: u32 = kani::any();
    kani::assume(it >= 1);
    let mut blobb = [0u8; BX];
    let blob = &mut blobb[..FIX + KL];
    vspec::v1::pbkw_wrap(header(KL).as_bytes(), &pwb[..PL], &salt, it, &n, ptk, blob);
    let mut pw2 = pwb;
    let which: u8 = kani::any();
    let idx: usize = kani::any();
    let bit: u8 = kani::any();
    kani::assume(bit < 8);
    let mut h = header(KL);
    match which {
        0 => { kani::assume(idx < FIX + KL); blob[idx] ^= 1 << bit; }
        1 => { kani::assume(idx < PL); pw2[idx] ^= 1 << bit; }
        _ => { h = other_header(KL); }
    }
    let in_params = which == 0 && idx >= 32 && idx < 36;
    let mut beforeb = [0u8; BX];
    beforeb[..FIX + KL].copy_from_slice(blob);
    let r = <V1 as PwWrapVersion>::pw_unwrap_key(h, &pw2[..PL], blob);
    let rejected = r.is_err();
    let kind_ok = matches!(r, Err(PE::CryptoError));
    let untouched = blob[..] == beforeb[..FIX + KL];
    vcheck_all!(
        (rejected, "[C06] a PBKW blob with any flipped bit, another password or a relabelled header is rejected"),
        (!rejected || kind_ok, "[C06] an authentication failure of a password-wrapped key is CryptoError"),
        (!rejected || untouched, "[C06] the wrapped key is not decrypted before authentication succeeds"),
    );
    kani::cover!(which == 0 && !in_params); kani::cover!(in_params); kani::cover!(which == 1); kani::cover!(which == 2);
}

/// [C04] every blob length class and every parameter block: no panic; shorter than the fixed part => InvalidKey
pub fn unwrap_short(L: usize) {
    let pw: [u8; 2] = kani::any();
    let mut b: [u8; BX] = kani::any();
    let gp = <V1 as PwWrapVersion>::get_params(&b[..L]);
    let r = <V1 as PwWrapVersion>::pw_unwrap_key(".local-pw.", &pw, &mut b[..L]);
    if L < FIX {
        vassert!(matches!(r, Err(PE::InvalidKey)), "[C04] a too-short PBKW blob is InvalidKey");
    } else {
        vassert!(matches!(r, Err(PE::CryptoError)) || r.is_ok(), "[C06] a full-length PBKW blob fails only with CryptoError");
    }
    vassert!(gp.is_ok() == (L >= PRE), "[C04] parameters are readable exactly when the fixed prefix is present");
}

/// [C16] RNG failure at either draw => Err(CryptoError), no blob
pub fn wrap_fail_closed() {
    let pw: [u8; 2] = kani::any();
    let kb: [u8; 32] = kani::any();
    vmodel_core::rng_may_fail(true);
    let r = <V1 as PwWrapVersion>::pw_wrap_key(".local-pw.", &pw, &Params::default(), kb.to_vec());
    let all_ok = vmodel_core::rng_all_ok();
    match r {
        Ok(_) => vassert!(all_ok && vmodel_core::rng_draws() == 2, "[C16] PBKW succeeds only when both RNG draws succeeded"),
        Err(e) => vcheck_all!(
            (!all_ok, "[C16] PBKW fails only when the RNG failed"),
            (matches!(e, PE::CryptoError), "[C16] RNG failure is reported as CryptoError"),
        ),
    }
    kani::cover!(all_ok); kani::cover!(!all_ok && vmodel_core::rng_draws() == 2, "failure at the second draw explored");
}

pub fn canary_inputs() {
    let pw: [u8; 2] = kani::any();
    let kb: [u8; 32] = kani::any();
    vmodel_core::rng_may_fail(false);
    let mut blob = <V1 as PwWrapVersion>::pw_wrap_key(".local-pw.", &pw, &Params::default(), kb.to_vec()).unwrap_or_default();
    let _ = <V1 as PwWrapVersion>::pw_unwrap_key(".local-pw.", &pw, &mut blob);
    vassert!(pw[0] != 0x5a || kb[31] != 0xa5, "canary: must fail (false claim about the symbolic inputs)");
}

macro_rules! inst {
    ($($name:ident = $f:ident($($g:literal),*);)*) => { $(
        #[kani::proof] #[kani::unwind(200)]
        pub fn $name() { $f($($g),*); kani::cover!(true, "harness end reachable"); }
    )* };
}
inst! {
    // 16 bytes = one AES block: everything except the counter increment; 32 / 48 bytes = real key lengths (2 / 3 blocks):
    // the counter-width obligation. Here the CTR nonce is the blob's own 16-byte nonce field (attacker / RNG chosen).
    wrap_is_spec_16_default = wrap_is_spec(16, 2, true);
    wrap_is_spec_32_default = wrap_is_spec(32, 2, true);
    wrap_is_spec_48_custom = wrap_is_spec(48, 1, false);
    unwrap_accepts_spec_16 = unwrap_accepts_spec(16, 2);
    unwrap_accepts_spec_32 = unwrap_accepts_spec(32, 2);
    unwrap_accepts_spec_48 = unwrap_accepts_spec(48, 0);
    roundtrip_32_default = roundtrip(32, 2, true); roundtrip_48_custom = roundtrip(48, 0, false);
    unwrap_rejects_tamper_32 = unwrap_rejects_tamper(32, 2); unwrap_rejects_tamper_48 = unwrap_rejects_tamper(48, 1);
    unwrap_short_0 = unwrap_short(0); unwrap_short_51 = unwrap_short(51); unwrap_short_52 = unwrap_short(52);
    unwrap_short_99 = unwrap_short(99); unwrap_short_100 = unwrap_short(100); unwrap_short_133 = unwrap_short(133);
    wrap_fail_closed_h = wrap_fail_closed();
    canary_inputs_h = canary_inputs();
}
// @@PLAYBACK@@
