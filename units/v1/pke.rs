// U8 (v1, PASERK PKE seal, RSA-KEM with 4096-bit keys) — appended to paseto-v1/src/core/pke.rs.
// Blob: tag(48) ‖ edk(32) ‖ c(512) = 592 bytes. RSA is an uninterpreted permutation per key (models/rsa::hazmat); the number of
// leading zero bytes of its results is selected per instance (LZ) — `BigUint::to_bytes_be` strips them, like num-bigint-dig.
use paseto_core::PasetoError as PE;

const BL: usize = 592;

fn sk_of(id: &[u8; 32]) -> PkeSecretKey { PkeSecretKey(rsa::model::private_key(4096, id)) }
fn pk_of(id: &[u8; 32]) -> PkePublicKey { PkePublicKey(rsa::model::private_key(4096, id).to_public_key()) }
fn raw512(d: &[u8; vmodel_core::DRAW_CAP]) -> [u8; 512] {
    let mut r = [0u8; 512];
    r.copy_from_slice(&d[..512]);
    r
}

/// [C07] seal_key == spec for the 512 random bytes it drew; [C05] 592 bytes; [C16] one fresh 512-byte draw.
/// LZ = number of leading zero bytes of the RSA-KEM ciphertext c in this instance (0: 255/256 of all c; 1: 1/256 minus 2^-16).
pub fn seal_is_spec(LZ: usize) {
    let id: [u8; 32] = kani::any();
    let pdk: [u8; 32] = kani::any();
    rsa::model::kem_leading_zeros(LZ, 0);
    vmodel_core::rng_may_fail(false);
    let r = vspec::v1::pke_mask_r(&raw512(&vmodel_core::rng_preview(0)));
    let pk = pk_of(&id);
    let c = rsa::model::kem_encrypt_512(&pk.0, &r);
    let spec = vspec::v1::pke_seal_with(&r, &c, &pdk);
    let res = <V1 as PkeSealingVersion>::seal_key(&pk, LocalKey(pdk));
    let ok = res.is_ok();
    let out = res.unwrap_or_default();
    let len_ok = out.len() == BL;
    vcheck_all!(
        (ok, "[C05] sealing a key to an honestly generated public key always succeeds"),
        (vmodel_core::rng_draws() == 1 && vmodel_core::rng_draw(0).len == 512, "[C16] key sealing draws exactly one fresh 512-byte random integer"),
        (!ok || len_ok, "[C05] a sealed k1 key is exactly 592 bytes (tag || encrypted key || 512-byte RSA-KEM ciphertext)"),
        (!ok || (len_ok && out[80..] == spec[80..]), "[C07] the blob ends with the RSA-KEM ciphertext as a 512-byte big-endian integer"),
        (!ok || (len_ok && out[48..64] == spec[48..64]), "[C07] the first cipher block of the encrypted key equals the specification's"),
        (!ok || out[..] == spec[..], "[C07] sealed key equals the PASERK specification's blob for the random integer it drew"),
    );
}

/// [C07]/[C05] unseal_key accepts the specification's blob and returns the sealed key
pub fn unseal_accepts_spec(LZ: usize) {
    let id: [u8; 32] = kani::any();
    let pdk: [u8; 32] = kani::any();
    let raw: [u8; 512] = kani::any();
    rsa::model::kem_leading_zeros(LZ, 0);
    let r = vspec::v1::pke_mask_r(&raw);
    let sk = sk_of(&id);
    let c = rsa::model::kem_encrypt_512(&sk.0.to_public_key(), &r);
    let blob = vspec::v1::pke_seal_with(&r, &c, &pdk);
    let res = <V1 as PkeUnsealingVersion>::unseal_key(&sk, blob.to_vec().into_boxed_slice());
    let ok = res.is_ok();
    let (same, first_block) = match &res { Ok(k) => (k.0 == pdk, k.0[..16] == pdk[..16]), Err(_) => (false, false) };
    vcheck_all!(
        (ok, "[C07] every specification-conforming sealed key unseals with the recipient's secret key"),
        (!ok || first_block, "[C07] the first cipher block of a specification-conforming sealed key decrypts correctly"),
        (!ok || same, "[C05] unsealing returns exactly the sealed key"),
    );
}

/// [C05] seal with the library's own randomness, then unseal
pub fn roundtrip(LZ: usize) {
    let id: [u8; 32] = kani::any();
    let pdk: [u8; 32] = kani::any();
    rsa::model::kem_leading_zeros(LZ, 0);
    vmodel_core::rng_may_fail(false);
    let sk = sk_of(&id);
    let pk = PkePublicKey(sk.0.to_public_key());
    let res = <V1 as PkeSealingVersion>::seal_key(&pk, LocalKey(pdk));
    let ok = res.is_ok();
    let blob = res.unwrap_or_default();
    let len_ok = blob.len() == BL;
    let res2 = <V1 as PkeUnsealingVersion>::unseal_key(&sk, blob);
    let same = match res2 { Ok(k) => k.0 == pdk, Err(_) => false };
    vcheck_all!(
        (ok, "[C05] sealing always succeeds"),
        (!ok || len_ok, "[C05] a sealed k1 key is exactly 592 bytes whatever the RSA-KEM ciphertext is"),
        (!ok || same, "[C05] seal then unseal returns the original key"),
    );
}

/// [C06] any flipped bit (tag, encrypted key, RSA-KEM ciphertext) or another recipient => Err
pub fn unseal_rejects_tamper() {
    let id: [u8; 32] = kani::any();
    let pdk: [u8; 32] = kani::any();
    let raw: [u8; 512] = kani::any();
    rsa::model::kem_leading_zeros(0, 0);
    let r = vspec::v1::pke_mask_r(&raw);
    let pk = pk_of(&id);
    let c = rsa::model::kem_encrypt_512(&pk.0, &r);
    let mut blob = vspec::v1::pke_seal_with(&r, &c, &pdk);
    let mut id2 = id;
    let which: u8 = kani::any();
    let idx: usize = kani::any();
    let bit: u8 = kani::any();
    kani::assume(bit < 8);
    match which {
        0 => { kani::assume(idx < BL); blob[idx] ^= 1 << bit; }
        _ => { kani::assume(idx < 32); id2[idx] ^= 1 << bit; }
    }
    let sk = sk_of(&id2);
    let res = <V1 as PkeUnsealingVersion>::unseal_key(&sk, blob.to_vec().into_boxed_slice());
    let rejected = res.is_err();
    let kind_ok = matches!(res, Err(PE::CryptoError));
    vcheck_all!(
        (rejected, "[C06] a sealed key with any flipped bit, or offered to another recipient, is rejected"),
        (!rejected || kind_ok, "[C06] an authentication failure of a sealed key is CryptoError"),
    );
    kani::cover!(which == 0 && idx < 48, "tag flip explored");
    kani::cover!(which == 0 && idx >= 48 && idx < 80, "encrypted key flip explored");
    kani::cover!(which == 0 && idx >= 80, "RSA-KEM ciphertext flip explored");
    kani::cover!(which == 1, "other recipient explored");
}

/// [C04]/[C06] every length class: no panic; anything but exactly 592 bytes => InvalidKey
pub fn unseal_len(L: usize) {
    let id: [u8; 32] = kani::any();
    let b: [u8; 596] = kani::any();
    rsa::model::kem_leading_zeros(0, 0);
    let sk = sk_of(&id);
    let res = <V1 as PkeUnsealingVersion>::unseal_key(&sk, b[..L].to_vec().into_boxed_slice());
    if L != BL {
        vassert!(matches!(res, Err(PE::InvalidKey)), "[C06] a sealed key that is not exactly 48+32+512 bytes is InvalidKey");
    } else {
        vassert!(matches!(res, Err(PE::CryptoError)) || res.is_ok(), "[C06] a 592-byte blob fails only with CryptoError");
    }
}

/// [C16] RNG failure => Err(CryptoError)
pub fn seal_fail_closed() {
    let id: [u8; 32] = kani::any();
    let pdk: [u8; 32] = kani::any();
    let pk = pk_of(&id);
    rsa::model::kem_leading_zeros(0, 0);
    vmodel_core::rng_may_fail(true);
    let res = <V1 as PkeSealingVersion>::seal_key(&pk, LocalKey(pdk));
    let all_ok = vmodel_core::rng_all_ok();
    match res {
        Ok(_) => vassert!(all_ok && vmodel_core::rng_draws() == 1, "[C16] key sealing succeeds only when every RNG draw succeeded"),
        Err(e) => vcheck_all!(
            (!all_ok, "[C16] key sealing fails only when the RNG failed"),
            (matches!(e, PE::CryptoError), "[C16] RNG failure is reported as CryptoError"),
        ),
    }
    kani::cover!(all_ok); kani::cover!(!all_ok);
}

pub fn canary_inputs() {
    let id: [u8; 32] = kani::any();
    let pdk: [u8; 32] = kani::any();
    rsa::model::kem_leading_zeros(0, 0);
    vmodel_core::rng_may_fail(false);
    let sk = sk_of(&id);
    let pk = PkePublicKey(sk.0.to_public_key());
    let blob = <V1 as PkeSealingVersion>::seal_key(&pk, LocalKey(pdk)).unwrap_or_default();
    let _ = <V1 as PkeUnsealingVersion>::unseal_key(&sk, blob);
    vassert!(id[0] != 0x5a || pdk[31] != 0xa5, "canary: must fail (false claim about the symbolic inputs)");
}

macro_rules! inst {
    ($($name:ident = $f:ident($($g:literal),*);)*) => { $(
        #[kani::proof] #[kani::unwind(600)]
        pub fn $name() { $f($($g),*); kani::cover!(true, "harness end reachable"); }
    )* };
}
inst! {
    seal_is_spec_lz0 = seal_is_spec(0);
    seal_is_spec_lz1 = seal_is_spec(1);
    unseal_accepts_spec_lz0 = unseal_accepts_spec(0);
    unseal_accepts_spec_lz1 = unseal_accepts_spec(1);
    roundtrip_lz0 = roundtrip(0);
    roundtrip_lz1 = roundtrip(1);
    unseal_rejects_tamper_h = unseal_rejects_tamper();
    unseal_len_0 = unseal_len(0); unseal_len_79 = unseal_len(79); unseal_len_591 = unseal_len(591);
    unseal_len_592 = unseal_len(592); unseal_len_593 = unseal_len(593);
    seal_fail_closed_h = seal_fail_closed();
    canary_inputs_h = canary_inputs();
}
// @@PLAYBACK@@
