// U8 (v3 over aws-lc, PASERK PKE k3.seal) — appended to paseto-v3-aws-lc/src/core/pke.rs. Real crate incl. the real lc/ wrappers
// (EC_KEY handling, ECDH_compute_key); aws-lc-sys and aws-lc-rs replaced by the assumed-contract models. Oracle: vspec::v3::pke_seal.
use aws_lc_sys::conv;
use paseto_core::PasetoError as PE;

fn any_scalar() -> [u8; 48] {
    let d: [u8; 48] = kani::any();
    kani::assume(conv::scalar_in_range(&d));
    d
}
/// recipient secret key through the stable decoder; the Err path ends the harness with a failed obligation (no Ok/Err merge)
fn sk_of(d: &[u8; 48]) -> SecretKey {
    // `d` was assumed in range by the caller: the FFI model may assume it too instead of branching (concretely-Ok key)
    aws_lc_sys::model::promise_scalars_in_range(true);
    match <V3 as HasKey<PkeSecret>>::decode(d) {
        Ok(k) => k,
        Err(e) => {
            core::mem::forget(e);
            vassert!(false, "[C08] every scalar in 1..n-1 is a valid secret key");
            kani::assume(false);
            panic!()
        }
    }
}
fn pk_of(sk: &SecretKey) -> PublicKey { <V3 as paseto_core::version::SealingVersion<Public>>::unsealing_key(sk) }
fn boxed(b: &[u8]) -> Box<[u8]> { b.to_vec().into_boxed_slice() }

/// [C07] seal_key == spec for the ephemeral secret it drew; [C05] 129 bytes; [C16] one fresh 48-byte draw
/// Bound: the drawn ephemeral scalar is assumed in 1..n-1 (the complement, probability < 2^-190, is decided for SecretKey::random()
/// itself in awslc_public::secret_key_random_h — seal_key only `?`-propagates it, see seal_fail_closed_h).
pub fn seal_is_spec() {
    let d = any_scalar();
    let pdk: [u8; 32] = kani::any();
    vmodel_core::rng_may_fail(false);
    let d0 = vmodel_core::rng_preview(0);
    let mut esk = [0u8; 48];
    esk.copy_from_slice(&d0[..48]);
    kani::assume(conv::scalar_in_range(&esk));
    let sk = sk_of(&d);
    let pk = pk_of(&sk);
    let pkb = vspec::v3::p384_pk(&d);
    let spec = vspec::v3::pke_seal(&pkb, &esk, &pdk);
    let r = <V3 as PkeSealingVersion>::seal_key(&pk, LocalKey(pdk));
    let ok = r.is_ok();
    let out = r.unwrap_or_default();
    vcheck_all!(
        (ok, "[C05] sealing a key to an honestly generated public key succeeds"),
        (!ok || out.len() == 129, "[C05] a sealed key is exactly 129 bytes (tag 48 || ephemeral public key 49 || encrypted key 32)"),
        (vmodel_core::rng_draws() == 1 && vmodel_core::rng_draw(0).len == 48, "[C16] key sealing draws exactly one fresh 48-byte ephemeral secret"),
        (!ok || out[..] == spec[..], "[C07] sealed key equals the PASERK specification's blob for the ephemeral key it embeds"),
    );
}

/// [C07]/[C05] unseal_key accepts the specification's blob and returns the sealed key
pub fn unseal_accepts_spec() {
    let d = any_scalar();
    let esk = any_scalar();
    let pdk: [u8; 32] = kani::any();
    let pkb = vspec::v3::p384_pk(&d);
    let blob = vspec::v3::pke_seal(&pkb, &esk, &pdk);
    // the sender's ephemeral key pair was honestly generated: its point is on the curve
    kani::assume(conv::x_valid(&blob[49..97]));
    aws_lc_sys::model::promise_points_valid(true);
    let sk = sk_of(&d);
    let r = <V3 as PkeUnsealingVersion>::unseal_key(&sk, boxed(&blob));
    let ok = r.is_ok();
    let same = match r { Ok(k) => k.0 == pdk, Err(e) => { core::mem::forget(e); false } };
    vcheck_all!(
        (ok, "[C07] every specification-conforming sealed key unseals with the recipient's secret key"),
        (!ok || same, "[C05] unsealing returns exactly the sealed key"),
    );
}

/// [C05] seal with the library's own randomness, then unseal   (bound: drawn ephemeral scalar in range, see seal_is_spec)
pub fn roundtrip() {
    let d = any_scalar();
    let pdk: [u8; 32] = kani::any();
    vmodel_core::rng_may_fail(false);
    let d0 = vmodel_core::rng_preview(0);
    let mut esk = [0u8; 48];
    esk.copy_from_slice(&d0[..48]);
    kani::assume(conv::scalar_in_range(&esk));
    let sk = sk_of(&d);
    let pk = pk_of(&sk);
    let r = <V3 as PkeSealingVersion>::seal_key(&pk, LocalKey(pdk));
    let ok = r.is_ok();
    let blob = r.unwrap_or_default();
    let r2 = <V3 as PkeUnsealingVersion>::unseal_key(&sk, blob);
    let same = match r2 { Ok(k) => k.0 == pdk, Err(e) => { core::mem::forget(e); false } };
    vcheck_all!(
        (ok, "[C05] sealing succeeds"),
        (!ok || same, "[C05] seal then unseal returns the original key"),
    );
}

/// [C06] any flipped bit (tag, ephemeral key, encrypted key) or another recipient => Err
pub fn unseal_rejects_tamper() {
    let d = any_scalar();
    let esk = any_scalar();
    let pdk: [u8; 32] = kani::any();
    let pkb = vspec::v3::p384_pk(&d);
    let mut blob = vspec::v3::pke_seal(&pkb, &esk, &pdk);
    kani::assume(conv::x_valid(&blob[49..97]));
    let mut d2 = d;
    let which: u8 = kani::any();
    let idx: usize = kani::any();
    let bit: u8 = kani::any();
    kani::assume(bit < 8);
    match which {
        0 => { kani::assume(idx < 129); blob[idx] ^= 1 << bit; }
        _ => { kani::assume(idx < 48); d2[idx] ^= 1 << bit; kani::assume(conv::scalar_in_range(&d2)); }
    }
    let in_epk = which == 0 && idx >= 48 && idx < 97;
    let sk = sk_of(&d2);
    let r = <V3 as PkeUnsealingVersion>::unseal_key(&sk, boxed(&blob));
    let rejected = r.is_err();
    let kind_ok = matches!(r, Err(PE::CryptoError)) || (in_epk && matches!(r, Err(PE::InvalidKey)));
    core::mem::forget(r);
    vcheck_all!(
        (rejected, "[C06] a sealed key with any flipped bit, or offered to another recipient, is rejected"),
        (!rejected || kind_ok, "[C06] failure kinds: CryptoError (authentication) or InvalidKey (ephemeral key is not a point)"),
    );
    kani::cover!(which == 0 && !in_epk); kani::cover!(in_epk); kani::cover!(which == 1);
}

/// [C04]/[C06] every length: no panic; anything but exactly 129 bytes => InvalidKey
pub fn unseal_len(L: usize) {
    let d = any_scalar();
    let b: [u8; 132] = kani::any();
    let sk = sk_of(&d);
    let r = <V3 as PkeUnsealingVersion>::unseal_key(&sk, boxed(&b[..L]));
    let (invalid, crypto, ok) = (matches!(r, Err(PE::InvalidKey)), matches!(r, Err(PE::CryptoError)), r.is_ok());
    core::mem::forget(r);
    if L != 129 {
        vassert!(invalid, "[C06] a sealed key whose encrypted data key is not exactly 32 bytes is InvalidKey");
    } else {
        vassert!(crypto || invalid || ok, "[C06] a 129-byte blob fails only with CryptoError or InvalidKey (ephemeral key is not a point)");
    }
}

/// [C04] sealing to a key the parser accepted must not panic. Instance: the identity encoding 00 (k3.public.AA), the one
/// 1-byte string the decoder accepts on the unchanged tree (every other 1-byte string is rejected: public_key_codec_1).
pub fn seal_to_identity() {
    let pdk: [u8; 32] = kani::any();
    vmodel_core::rng_may_fail(false);
    aws_lc_sys::model::promise_scalars_in_range(true);
    let k = <V3 as HasKey<PkePublic>>::decode(&[0u8]);
    let accepted = k.is_ok();
    if let Ok(k) = &k {
        let r = <V3 as PkeSealingVersion>::seal_key(k, LocalKey(pdk)); // [C04] Ok or Err, never a panic
        core::mem::forget(r);
    }
    core::mem::forget(k);
    vassert!(!accepted, "[C08] the identity point (k3.public.AA) is rejected as a PKE public key");
}

/// Contract of `SecretKey::random()` as decided by awslc_public::secret_key_random_h: one 48-byte RNG draw; Err(CryptoError) when the
/// draw fails, else the key of the drawn (in-range: bound of this unit) scalar. Used by `seal_fail_closed_h` ONLY, in place of
/// the body: inside the real random() the two paths (draw failed / draw succeeded) make a different number of model calls and
/// merge at the end of the function, which makes the memo-table size symbolic for the rest of seal_key (README rule 3b; the
/// harness did not finish in 15 min). Here the key is built on both paths, before the draw's outcome is looked at.
pub fn random_contract() -> Result<SecretKey, PasetoError> {
    let pre = vmodel_core::rng_preview(vmodel_core::rng_draws());
    let mut d = [0u8; 48];
    d.copy_from_slice(&pre[..48]);
    kani::assume(conv::scalar_in_range(&d));
    let k = sk_of(&d);
    let mut buf = [0u8; 48];
    if vmodel_core::rng_fill(&mut buf) {
        Ok(k)
    } else {
        drop(k);
        Err(PasetoError::CryptoError)
    }
}

/// [C16] seal_key fails closed: the failure of its random draw is propagated as Err(CryptoError), success gives a blob
/// (random() itself is replaced by its contract, see random_contract; its own fail-closed obligation is secret_key_random_h)
pub fn seal_fail_closed() {
    let d = any_scalar();
    let pdk: [u8; 32] = kani::any();
    let sk = sk_of(&d);
    let pk = pk_of(&sk);
    vmodel_core::rng_may_fail(true);
    let r = <V3 as PkeSealingVersion>::seal_key(&pk, LocalKey(pdk));
    let all_ok = vmodel_core::rng_all_ok();
    let one_draw = vmodel_core::rng_draws() == 1;
    match r {
        Ok(b) => vcheck_all!(
            (all_ok, "[C16] key sealing succeeds only when every RNG draw succeeded"),
            (one_draw && b.len() == 129, "[C16] one draw per sealed key; the blob has the fixed length"),
        ),
        Err(e) => {
            let kind = matches!(e, PE::CryptoError);
            core::mem::forget(e);
            vcheck_all!(
                (!all_ok, "[C16] key sealing fails only when the RNG failed"),
                (kind, "[C16] RNG failure is reported as CryptoError"),
            );
        }
    }
    kani::cover!(all_ok); kani::cover!(!all_ok);
}

/// [C08] PKE key kinds share the encoding of the signing keys
pub fn pke_key_codec() {
    let d = any_scalar();
    let pkb = vspec::v3::p384_pk(&d);
    let sk = sk_of(&d);
    let e1 = <V3 as HasKey<PkePublic>>::encode(&pk_of(&sk));
    let e2 = <V3 as HasKey<PkeSecret>>::encode(&sk);
    vcheck_all!(
        (e1.len() == 49 && e1[..] == pkb[..], "[C08] a PKE public key serialises as the 49-byte compressed P-384 point"),
        (e2.len() == 48 && e2[..] == d[..], "[C08] a PKE secret key serialises as the 48-byte scalar"),
    );
}

pub fn canary_inputs() {
    let d = any_scalar();
    let pdk: [u8; 32] = kani::any();
    vmodel_core::rng_may_fail(false);
    let d0 = vmodel_core::rng_preview(0);
    let mut esk = [0u8; 48];
    esk.copy_from_slice(&d0[..48]);
    kani::assume(conv::scalar_in_range(&esk));
    let sk = sk_of(&d);
    let pk = pk_of(&sk);
    let blob = <V3 as PkeSealingVersion>::seal_key(&pk, LocalKey(pdk)).unwrap_or_default();
    let r = <V3 as PkeUnsealingVersion>::unseal_key(&sk, blob);
    core::mem::forget(r);
    vassert!(d[0] != 0x5a || pdk[31] != 0xa5, "canary: must fail (false claim about the symbolic inputs)");
}

macro_rules! inst {
    ($($name:ident = $f:ident($($g:literal),*);)*) => { $(
        #[kani::proof] #[kani::unwind(200)]
        #[kani::stub(core::result::Result::unwrap, unwrap_stub)]
        #[kani::stub(core::result::Result::expect, expect_stub)]
        pub fn $name() { $f($($g),*); kani::cover!(true, "harness end reachable"); }
    )* };
}
inst! {
    seal_is_spec_h = seal_is_spec();
    unseal_accepts_spec_h = unseal_accepts_spec();
    roundtrip_h = roundtrip();
    unseal_rejects_tamper_h = unseal_rejects_tamper();
    unseal_len_0 = unseal_len(0); unseal_len_47 = unseal_len(47); unseal_len_96 = unseal_len(96); unseal_len_128 = unseal_len(128);
    unseal_len_129 = unseal_len(129); unseal_len_130 = unseal_len(130);
    seal_to_identity_h = seal_to_identity();
    pke_key_codec_h = pke_key_codec();
    canary_inputs_h = canary_inputs();
}
#[kani::proof] #[kani::unwind(200)]
#[kani::stub(core::result::Result::unwrap, unwrap_stub)]
#[kani::stub(core::result::Result::expect, expect_stub)]
#[kani::stub(SecretKey::random, random_contract)]
pub fn seal_fail_closed_h() { seal_fail_closed(); kani::cover!(true, "harness end reachable"); }
// @@PLAYBACK@@
