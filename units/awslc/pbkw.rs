// U8 (v3 over aws-lc, PASERK PBKW k3.local-pw / k3.secret-pw) — appended to paseto-v3-aws-lc/src/core/pw_wrap.rs.
// Real crate; aws-lc-rs (pbkdf2, digest, hmac, cipher, rand, constant_time) replaced by the assumed-contract model.
// Oracle: vspec::v3::pbkw_wrap. PBKDF2 iterations are DATA for the model KDF (never executed), so every parameter block is in budget.
use paseto_core::PasetoError as PE;
const KX: usize = 48;
const PRE: usize = 52; // salt(32) + iterations(4) + nonce(16)
const FIX: usize = PRE + 48;
const BX: usize = FIX + KX;
const PWX: usize = 4;

/// Replacement for zerocopy's `big_endian::U32::get` (`#[kani::stub]`) in the harnesses whose blob carries an iteration count the
/// harness fixed. Why: `wrap_keys` starts with `NonZeroU32::new(prefix.params.iterations.get()).ok_or(InvalidKey)?`, in front of
/// its three KDF model calls; the count is read back through zerocopy's bytes-to-struct view of the buffer, which CBMC's constant
/// propagation does not see through (checked with three probe harnesses), so the infeasible zero branch is explored, returns
/// before the model calls and merges at the end of `wrap_keys`: the memo-table size is symbolic for the AES / HMAC calls that
/// follow (README rule 3b; no verdict in 40 min). The replacement returns the harness's literal count — and makes "the bytes the
/// code reads ARE that count" an obligation, so a wrong offset / endianness in the code under test still fails.
/// `U32<O>` is only ever instantiated with O = BigEndian in this crate (`Params::iterations`).
static mut EXPECTED_ITERATIONS: u64 = 0x17e7_a710_0000_0000; // magic high half: see models/aws-lc-sys (Kani static/constant aliasing)
fn expect_iterations(it: u32) { unsafe { EXPECTED_ITERATIONS = 0x17e7_a710_0000_0000 | it as u64 } }
pub fn u32_get_expected<O: zerocopy::byteorder::ByteOrder>(x: zerocopy::byteorder::U32<O>) -> u32 {
    let it = unsafe { EXPECTED_ITERATIONS } as u32;
    vassert!(x.to_bytes() == it.to_be_bytes(), "[C07] the iteration count the code reads is the big-endian u32 at bytes 32..36 of the blob");
    it
}

fn header(KL: usize) -> &'static str { if KL == 32 { ".local-pw." } else { ".secret-pw." } }
fn other_header(KL: usize) -> &'static str { if KL == 32 { ".secret-pw." } else { ".local-pw." } }
fn params(it: u32) -> Params { Params { iterations: big_endian::U32::new(it) } }

/// [C07] pw_wrap_key == spec for the salt/nonce it drew and the given iteration count; [C05] fixed length; [C16] two fresh draws
pub fn wrap_is_spec(KL: usize, PL: usize, it: u32, default_params: bool) {
    let pwb: [u8; PWX] = kani::any();
    let pw = &pwb[..PL];
    let kb: [u8; KX] = kani::any();
    let ptk = &kb[..KL];
    vmodel_core::rng_may_fail(false);
    let d0 = vmodel_core::rng_preview_len(32);
    let d1 = vmodel_core::rng_preview_len(16);
    let mut salt = [0u8; 32];
    salt.copy_from_slice(&d0[..32]);
    let mut n = [0u8; 16];
    n.copy_from_slice(&d1[..16]);
    let mut specb = [0u8; BX];
    let spec = &mut specb[..FIX + KL];
    vspec::v3::pbkw_wrap(header(KL).as_bytes(), pw, &salt, it, &n, ptk, spec);
    expect_iterations(it);
    let p = if default_params { Params::default() } else { params(it) };
    let r = <V3 as PwWrapVersion>::pw_wrap_key(header(KL), pw, &p, ptk.to_vec());
    let ok = r.is_ok();
    let out = r.unwrap_or_default();
    vcheck_all!(
        (ok, "[C05] password wrapping with valid parameters always succeeds"),
        (!ok || out.len() == FIX + KL, "[C05] PBKW blob has the fixed length 32+4+16+|key|+48"),
        (vmodel_core::rng_draws() == 2 && vmodel_core::rng_has_len(32) && vmodel_core::rng_has_len(16), "[C16] PBKW draws a fresh 32-byte salt and a fresh 16-byte nonce"),
        (!ok || out[..] == spec[..], "[C07] PBKW output equals the PASERK specification's blob for the salt, nonce and iteration count it embeds (incl. the full-width CTR counter)"),
    );
}

/// [C07]/[C05] pw_unwrap_key accepts the specification's blob (any salt, nonce) and returns the wrapped key; get_params reads them back
pub fn unwrap_accepts_spec(KL: usize, PL: usize, it: u32) {
    let pwb: [u8; PWX] = kani::any();
    let pw = &pwb[..PL];
    let kb: [u8; KX] = kani::any();
    let ptk = &kb[..KL];
    let salt: [u8; 32] = kani::any();
    let n: [u8; 16] = kani::any();
    let mut blobb = [0u8; BX];
    let blob = &mut blobb[..FIX + KL];
    vspec::v3::pbkw_wrap(header(KL).as_bytes(), pw, &salt, it, &n, ptk, blob);
    expect_iterations(it);
    let gp = <V3 as PwWrapVersion>::get_params(blob);
    let params_ok = match gp { Ok(p) => p.iterations.get() == it, Err(_) => false };
    let r = <V3 as PwWrapVersion>::pw_unwrap_key(header(KL), pw, blob);
    let ok = r.is_ok();
    let same = match r { Ok(k) => k == ptk, Err(_) => false };
    vcheck_all!(
        (params_ok, "[C05] the parameters read back from a blob are those it was wrapped with"),
        (ok, "[C07] every specification-conforming PBKW blob unwraps with the right password (any nonce, incl. counters that carry past 64 bits)"),
        (!ok || same, "[C05] unwrapping returns exactly the wrapped key bytes"),
    );
    kani::cover!(n[8..] == [0xff; 8], "nonce whose low 64 bits are all ones explored (carry into the upper half)");
}

/// [C05] wrap with default parameters and the library's own randomness, then unwrap
pub fn roundtrip(KL: usize, PL: usize) {
    let pwb: [u8; PWX] = kani::any();
    let pw = &pwb[..PL];
    let kb: [u8; KX] = kani::any();
    let ptk = &kb[..KL];
    vmodel_core::rng_may_fail(false);
    expect_iterations(100_000);
    let r = <V3 as PwWrapVersion>::pw_wrap_key(header(KL), pw, &Params::default(), ptk.to_vec());
    let ok = r.is_ok();
    let mut blob = r.unwrap_or_default();
    let r2 = <V3 as PwWrapVersion>::pw_unwrap_key(header(KL), pw, &mut blob);
    let same = match r2 { Ok(k) => k == ptk, Err(_) => false };
    vcheck_all!(
        (ok, "[C05] password wrapping always succeeds"),
        (!ok || same, "[C05] password wrap then unwrap returns the original key"),
    );
}

/// [C06] any flipped bit (salt, iterations, nonce, ciphertext, tag), another password, a relabelled header => Err
pub fn unwrap_rejects_tamper(KL: usize, PL: usize, RELABEL: bool, PARAMS: bool) {
    let pwb: [u8; PWX] = kani::any();
    let kb: [u8; KX] = kani::any();
    let ptk = &kb[..KL];
    let salt: [u8; 32] = kani::any();
    let n: [u8; 16] = kani::any();
    let mut blobb = [0u8; BX];
    let blob = &mut blobb[..FIX + KL];
    vspec::v3::pbkw_wrap(header(KL).as_bytes(), &pwb[..PL], &salt, 100_000, &n, ptk, blob);
    let mut pw2 = pwb;
    let which: u8 = kani::any();
    let idx: usize = kani::any();
    let bit: u8 = kani::any();
    kani::assume(bit < 8);
    // the relabelled header has another length: a concrete choice per harness instance (README rule 1), not a symbolic one
    let h = if RELABEL { other_header(KL) } else { header(KL) };
    expect_iterations(100_000);
    if PARAMS {
        // a flipped bit of the iteration count: own instance, run WITHOUT the U32::get replacement (the count is symbolic)
        kani::assume(which == 0 && idx >= 32 && idx < 36);
        blob[idx] ^= 1 << bit;
    } else if !RELABEL {
        match which {
            0 => { kani::assume(idx < FIX + KL && !(idx >= 32 && idx < 36)); blob[idx] ^= 1 << bit; }
            _ => { kani::assume(which == 1 && idx < PL); pw2[idx] ^= 1 << bit; }
        }
    }
    let in_params = PARAMS;
    let mut beforeb = [0u8; BX];
    beforeb[..FIX + KL].copy_from_slice(blob);
    let r = <V3 as PwWrapVersion>::pw_unwrap_key(h, &pw2[..PL], blob);
    let rejected = r.is_err();
    let kind_ok = matches!(r, Err(PE::CryptoError)) || (in_params && matches!(r, Err(PE::InvalidKey)));
    let untouched = blob[..] == beforeb[..FIX + KL];
    vcheck_all!(
        (rejected, "[C06] a PBKW blob with any flipped bit, another password or a relabelled header is rejected"),
        (!rejected || kind_ok, "[C06] failure kinds: CryptoError (authentication) or InvalidKey (unusable parameters)"),
        (!rejected || untouched, "[C06] the wrapped key is not decrypted before authentication succeeds"),
    );
    kani::cover!(RELABEL || PARAMS || which == 0, "blob bit flip explored");
    kani::cover!(RELABEL || PARAMS || which == 1, "other password explored");
}

/// [C04] every blob length class and every parameter block with a non-zero iteration count: no panic; shorter than the fixed
/// part => InvalidKey   (iterations == 0: unwrap_zero_iterations_h)
pub fn unwrap_short(L: usize) {
    let pw: [u8; 2] = kani::any();
    let mut b: [u8; BX + 2] = kani::any();
    kani::assume(b[32] != 0 || b[33] != 0 || b[34] != 0 || b[35] != 0);
    let gp = <V3 as PwWrapVersion>::get_params(&b[..L]);
    let gp_ok = gp.is_ok();
    let r = <V3 as PwWrapVersion>::pw_unwrap_key(".local-pw.", &pw, &mut b[..L]);
    if L < FIX {
        vassert!(matches!(r, Err(PE::InvalidKey)), "[C04] a too-short PBKW blob is InvalidKey");
    } else {
        vassert!(matches!(r, Err(PE::CryptoError)) || r.is_ok(), "[C06] a full-length PBKW blob with usable parameters fails only with CryptoError");
    }
    vassert!(gp_ok == (L >= PRE), "[C04] parameters are readable exactly when the fixed prefix is present");
}
/// [C04] an iteration count of zero (attacker-chosen parameter block) is InvalidKey, not a panic / division by zero
pub fn unwrap_zero_iterations() {
    let pw: [u8; 2] = kani::any();
    let mut b: [u8; BX] = kani::any();
    b[32] = 0; b[33] = 0; b[34] = 0; b[35] = 0;
    let r = <V3 as PwWrapVersion>::pw_unwrap_key(".local-pw.", &pw, &mut b[..FIX + 32]);
    vassert!(matches!(r, Err(PE::InvalidKey)), "[C04] an iteration count of zero is InvalidKey, not a panic");
}

/// [C16] RNG failure at either draw => Err(CryptoError), no blob
pub fn wrap_fail_closed() {
    let pw: [u8; 2] = kani::any();
    let kb: [u8; 32] = kani::any();
    vmodel_core::rng_may_fail(true);
    expect_iterations(100_000);
    let r = <V3 as PwWrapVersion>::pw_wrap_key(".local-pw.", &pw, &Params::default(), kb.to_vec());
    let all_ok = vmodel_core::rng_all_ok();
    match r {
        Ok(_) => vassert!(all_ok && vmodel_core::rng_draws() == 2, "[C16] PBKW succeeds only when both RNG draws succeeded"),
        Err(e) => vcheck_all!(
            (!all_ok, "[C16] PBKW fails only when the RNG failed"),
            (matches!(e, PE::CryptoError), "[C16] RNG failure is reported as CryptoError"),
        ),
    }
    kani::cover!(all_ok); kani::cover!(!all_ok && vmodel_core::rng_draws() == 2, "failure at the second draw explored");
}

pub fn canary_inputs() {
    let pw: [u8; 2] = kani::any();
    let kb: [u8; 32] = kani::any();
    vmodel_core::rng_may_fail(false);
    expect_iterations(100_000);
    let mut blob = <V3 as PwWrapVersion>::pw_wrap_key(".local-pw.", &pw, &Params::default(), kb.to_vec()).unwrap_or_default();
    let _ = <V3 as PwWrapVersion>::pw_unwrap_key(".local-pw.", &pw, &mut blob);
    vassert!(pw[0] != 0x5a || kb[31] != 0xa5, "canary: must fail (false claim about the symbolic inputs)");
}

macro_rules! inst {
    ($($name:ident = $f:ident($($g:literal),*);)*) => { $(
        #[kani::proof] #[kani::unwind(200)]
        #[kani::stub(zerocopy::byteorder::U32::get, u32_get_expected)]
        pub fn $name() { $f($($g),*); kani::cover!(true, "harness end reachable"); }
    )* };
}
macro_rules! plain {
    ($($name:ident = $f:ident($($g:literal),*);)*) => { $(
        #[kani::proof] #[kani::unwind(200)]
        pub fn $name() { $f($($g),*); kani::cover!(true, "harness end reachable"); }
    )* };
}
inst! {
    wrap_is_spec_32_default = wrap_is_spec(32, 2, 100000, true);
    wrap_is_spec_48_custom = wrap_is_spec(48, 1, 1000, false);
    unwrap_accepts_spec_32 = unwrap_accepts_spec(32, 2, 100000);
    unwrap_accepts_spec_48 = unwrap_accepts_spec(48, 1, 7);
    roundtrip_32 = roundtrip(32, 2); roundtrip_48 = roundtrip(48, 1);
    unwrap_rejects_tamper_32 = unwrap_rejects_tamper(32, 2, false, false); unwrap_rejects_tamper_48 = unwrap_rejects_tamper(48, 1, false, false);
    unwrap_rejects_relabel_32 = unwrap_rejects_tamper(32, 2, true, false); unwrap_rejects_relabel_48 = unwrap_rejects_tamper(48, 1, true, false);
    wrap_fail_closed_h = wrap_fail_closed();
    canary_inputs_h = canary_inputs();
}
// arbitrary / tampered iteration counts: the real U32::get (memo-table size symbolic after wrap_keys: slow)
plain! {
    unwrap_rejects_param_flip_32 = unwrap_rejects_tamper(32, 2, false, true);
    unwrap_short_0 = unwrap_short(0); unwrap_short_51 = unwrap_short(51); unwrap_short_52 = unwrap_short(52);
    unwrap_short_99 = unwrap_short(99); unwrap_short_100 = unwrap_short(100); unwrap_short_133 = unwrap_short(133);
}
#[kani::proof] #[kani::unwind(200)]
pub fn unwrap_zero_iterations_h() { unwrap_zero_iterations(); kani::cover!(true, "harness end reachable"); }
// @@PLAYBACK@@
