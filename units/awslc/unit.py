"""Units for the paseto-v3-aws-lc backend (PASETO v3 over aws-lc-rs + raw aws-lc-sys FFI in src/lc/).

awslc_lc      U9: lc/mod.rs + lc/ptr.rs against the FFI model (models/aws-lc-sys)
awslc_local   U7: core/local.rs            awslc_public  U7: core/public.rs (+ lc/)
awslc_pie     U8: core/pie_wrap.rs         awslc_pbkw    U8: core/pw_wrap.rs
awslc_pke     U8: core/pke.rs (+ lc/)      awslc_id      U7: core/mod.rs::hash_key
All compile the REAL crate with aws-lc-sys / aws-lc-rs swapped for the assumed-contract models; see NOTES.md.
"""
from vrf.core import Unit, Harness

MODELS = {"aws-lc-sys": "models/aws-lc-sys", "aws-lc-rs": "models/aws-lc-rs"}
PKG = "paseto-v3-aws-lc"
SRC = f"{PKG}/src"
LC = f"{SRC}/lc/mod.rs"
DEV = {f"{PKG}/Cargo.toml": ['vspec = { path = "../verif-models/vspec" }', 'vmodel-core = { path = "../verif-models/vmodel-core" }']}
FLAGS = ["-Z", "stubbing", "--no-assertion-reach-checks"]
TRUSTED = ["zerocopy (real crate, compiled by Kani)", "alloc::vec::Vec / Box (Kani's std)"]

A_FFI = [
    "aws-lc-sys FFI model (models/aws-lc-sys/src/lib.rs header): heap objects with aws-lc's ownership rules; BIGNUM = minimal-length "
    "big-endian magnitude; BN_bn2bin writes exactly BN_num_bytes bytes; EC_POINT_oct2point accepts the one-byte 00 as the identity, "
    "49-byte 02/03, 97-byte 04/06/07 encodings (validity of x uninterpreted); EC_KEY_set_public_key performs no validation; "
    "EC_KEY_set_private_key accepts exactly 0 < k < n; ECDSA_sign returns ANY (r, s) in [1, n-1]^2 as strict DER",
    "ECDSA over P-384 is an ideal signature: verify(pk, d, (r, s)) iff (r, s) was produced by the signing function for exactly (pk, d)",
    "scalar*G is a deterministic injective uninterpreted function of the scalar (always a valid point); ECDH is a deterministic "
    "commutative uninterpreted function of the two X coordinates",
]
A_RS = [
    "aws-lc-rs model (models/aws-lc-rs/src/lib.rs header): SHA-384, HMAC-SHA384, HKDF-SHA384, PBKDF2-HMAC-SHA384 are deterministic "
    "collision-free uninterpreted functions of (key, message, output length) [ideal hash/MAC/KDF]",
    "AES-256-CTR is XOR with an uninterpreted block function of (key, 128-bit big-endian counter block), counter incremented over its full width",
    "SystemRandom::fill either fails or fills the buffer with arbitrary bytes",
    "pre_auth_encode is replaced by its contract (proved in unit u1_pae)",
]


def lc_unit():
    f = lambda *n: [f"{LC}::{x}" for x in n]
    hs = []
    for n in (0, 1, 47, 48, 49, 66):
        hs.append(Harness(f"signing_key_codec_{n}", ["C08", "C04"], complete=(n <= 48), bound=f"all byte strings of length {n}",
                          functions=f("from_sec1_bytes", "encode", "compressed_pub_key"),
                          desc="SigningKey::from_sec1_bytes accepts exactly 0<k<n; encode == pad48(k); decode(encode(k)) == k; public half == k*G; no leak"))
    hs.append(Harness("signing_key_clone_h", ["C08", "C04"], functions=f("clone", "verifying_key", "encode", "compressed_pub_key"),
                      desc="Clone / verifying_key: equal scalar and point, independent lifetimes, every object freed once"))
    for n in (0, 1, 2, 48, 49, 50, 96, 97, 98):
        hs.append(Harness(f"verifying_key_decode_{n}", ["C08", "C04"], bound=f"all byte strings of length {n}",
                          functions=f("from_sec1_bytes", "from_point", "compressed_pub_key", "clone"),
                          desc="whatever VerifyingKey::from_sec1_bytes accepts re-encodes / clones / drops without panic; identity rejected"))
    for v in (0, 3):
        hs.append(Harness(f"sign_append_roundtrip_{v}", ["C01", "C04"], bound=f"vector prefix of {v} bytes; every (r,s) in [1,n-1]^2",
                          functions=f("sign", "append_to_vec", "from_bytes", "verify"),
                          desc="append_to_vec appends exactly pad48(r)||pad48(s) for EVERY signature; from_bytes inverts it; it verifies"))
    for n in (0, 95, 96, 97):
        hs.append(Harness(f"signature_from_bytes_{n}", ["C04", "C01", "C02"], bound=f"all byte strings of length {n}",
                          functions=f("from_bytes", "append_to_vec", "verify"), desc="Signature::from_bytes: exact length, values, no leak"))
    hs.append(Harness("dh_commutes_h", ["C05", "C04"], functions=f("diffie_hellman"), desc="ECDH symmetric; identity peer => Err"))
    hs.append(Harness("ptr_wrappers_h", ["C04"], functions=[f"{SRC}/lc/ptr.rs::{x}" for x in ("new", "drop", "detach", "from", "project", "new_static")],
                      desc="LcPtr / DetachableLcPtr / ConstPointer ownership: NULL refused, freed exactly once, detach does not free"))
    hs.append(Harness("alloc_fail_keys_h", ["C04"], functions=f("from_sec1_bytes", "from_point"),
                      desc="every aws-lc allocation may return NULL: Err or usable key, no leak / double free"))
    hs.append(Harness("alloc_fail_signature_h", ["C04"], functions=f("sign", "from_bytes", "append_to_vec", "verify"),
                      desc="every aws-lc allocation may return NULL during sign / from_bytes / verify: no leak / double free"))
    hs.append(Harness("canary_lc_h", ["C01", "C04", "C08"], expect="fail"))
    return Unit(
        name="awslc_lc", members=["paseto-core", PKG], package=PKG,
        inject=[(LC, ["units/common/pae_stub.rs", "units/awslc/lc.rs"])],
        patches=MODELS, harness_path="lc::verif", allow_unsafe=True,
        kani_flags=FLAGS, dev_deps=DEV, harnesses=hs, assumptions=A_FFI, trusted=TRUSTED,
    )


def units():
    return [lc_unit()]
