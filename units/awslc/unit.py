"""Units for the paseto-v3-aws-lc backend (PASETO v3 over aws-lc-rs + raw aws-lc-sys FFI in src/lc/).

awslc_lc      U9: lc/mod.rs + lc/ptr.rs against the FFI model (models/aws-lc-sys)
awslc_local   U7: core/local.rs            awslc_public  U7: core/public.rs (+ lc/)
awslc_pie     U8: core/pie_wrap.rs         awslc_pbkw    U8: core/pw_wrap.rs
awslc_pke     U8: core/pke.rs (+ lc/)      awslc_id      U7: core/mod.rs::hash_key
All compile the REAL crate with aws-lc-sys / aws-lc-rs swapped for the assumed-contract models; see NOTES.md.
"""
from vrf.core import Unit, Harness

MODELS = {"aws-lc-sys": "models/aws-lc-sys", "aws-lc-rs": "models/aws-lc-rs"}
PKG = "paseto-v3-aws-lc"
SRC = f"{PKG}/src"
LC = f"{SRC}/lc/mod.rs"
DEV = {f"{PKG}/Cargo.toml": ['vspec = { path = "../verif-models/vspec" }', 'vmodel-core = { path = "../verif-models/vmodel-core" }']}
FLAGS = ["-Z", "stubbing", "--no-assertion-reach-checks"]
TRUSTED = ["zerocopy (real crate, compiled by Kani)", "alloc::vec::Vec / Box (Kani's std)"]

A_FFI = [
    "aws-lc-sys FFI model (models/aws-lc-sys/src/lib.rs header): heap objects with aws-lc's ownership rules; BIGNUM = minimal-length "
    "big-endian magnitude; BN_bn2bin writes exactly BN_num_bytes bytes; EC_POINT_oct2point accepts the one-byte 00 as the identity, "
    "49-byte 02/03, 97-byte 04/06/07 encodings (validity of x uninterpreted); EC_KEY_set_public_key performs no validation; "
    "EC_KEY_set_private_key accepts exactly 0 < k < n; ECDSA_sign returns ANY (r, s) in [1, n-1]^2 as strict DER",
    "ECDSA over P-384 is an ideal signature: verify(pk, d, (r, s)) iff (r, s) was produced by the signing function for exactly (pk, d)",
    "scalar*G is a deterministic injective uninterpreted function of the scalar (always a valid point); ECDH is a deterministic "
    "commutative uninterpreted function of the two X coordinates",
]
A_RS = [
    "aws-lc-rs model (models/aws-lc-rs/src/lib.rs header): SHA-384, HMAC-SHA384, HKDF-SHA384, PBKDF2-HMAC-SHA384 are deterministic "
    "collision-free uninterpreted functions of (key, message, output length) [ideal hash/MAC/KDF]",
    "AES-256-CTR is XOR with an uninterpreted block function of (key, 128-bit big-endian counter block), counter incremented over its full width",
    "SystemRandom::fill either fails or fills the buffer with arbitrary bytes",
    "pre_auth_encode is replaced by its contract (proved in unit u1_pae)",
]


def lc_unit():
    f = lambda *n: [f"{LC}::{x}" for x in n]
    hs = []
    for n in (0, 1, 47, 48, 49, 66):
        hs.append(Harness(f"signing_key_codec_{n}", ["C08", "C04"], complete=(n <= 48), bound=f"all byte strings of length {n}",
                          functions=f("from_sec1_bytes", "encode", "compressed_pub_key"),
                          desc="SigningKey::from_sec1_bytes accepts exactly 0<k<n; encode == pad48(k); no leak"))
    hs.append(Harness("signing_key_reencode_h", ["C08"], functions=f("from_sec1_bytes", "encode", "compressed_pub_key"),
                      desc="decode(encode(k)) == k; public half == k*G"))
    hs.append(Harness("signing_key_clone_h", ["C08", "C04"], functions=f("clone", "encode", "compressed_pub_key"),
                      desc="Clone: equal scalar and point, independent lifetime, every object freed once"))
    hs.append(Harness("verifying_key_of_h", ["C08", "C04"], functions=f("verifying_key", "clone", "from_point", "compressed_pub_key"),
                      desc="verifying_key / Clone for VerifyingKey: same point, independent lifetime, every object freed once"))
    for n in (0, 1, 2, 48, 49, 50, 96, 97, 98):
        hs.append(Harness(f"verifying_key_decode_{n}", ["C08", "C04"], bound=f"all byte strings of length {n}",
                          functions=f("from_sec1_bytes", "from_point", "compressed_pub_key", "clone"),
                          desc="whatever VerifyingKey::from_sec1_bytes accepts re-encodes / clones / drops without panic; identity rejected"))
    for v in (0, 3):
        hs.append(Harness(f"sign_append_{v}", ["C01", "C04"], bound=f"vector prefix of {v} bytes; every (r,s) in [1,n-1]^2",
                          functions=f("sign", "append_to_vec"), timeout=1800,
                          desc="append_to_vec appends exactly pad48(r)||pad48(s) for EVERY signature sign can return; Err leaves the vector unchanged"))
    hs.append(Harness("sign_bytes_verify_h", ["C01"], bound="every (r,s) in [1,n-1]^2", functions=f("sign", "from_bytes", "verify"), timeout=1800,
                      desc="from_bytes(pad48(r)||pad48(s)) == (r,s) and verifies under the signer's key"))
    for n in (0, 95, 96, 97):
        hs.append(Harness(f"signature_from_bytes_{n}", ["C04", "C01", "C02"], bound=f"all byte strings of length {n}",
                          functions=f("from_bytes", "append_to_vec", "verify"), desc="Signature::from_bytes: exact length, values, no leak"))
    hs.append(Harness("dh_commutes_h", ["C05", "C04"], functions=f("diffie_hellman"), desc="ECDH symmetric; identity peer => Err"))
    hs.append(Harness("ptr_wrappers_h", ["C04"], functions=[f"{SRC}/lc/ptr.rs::{x}" for x in ("new", "drop", "detach", "from", "project", "new_static")],
                      desc="LcPtr / DetachableLcPtr / ConstPointer ownership: NULL refused, freed exactly once, detach does not free"))
    hs.append(Harness("alloc_fail_signing_key_h", ["C04"], functions=f("from_sec1_bytes"),
                      desc="every aws-lc allocation may return NULL: Err or usable secret key, no leak / double free"))
    hs.append(Harness("alloc_fail_verifying_key_h", ["C04"], functions=f("from_sec1_bytes", "from_point"),
                      desc="every aws-lc allocation may return NULL: Err or usable public key, no leak / double free"))
    hs.append(Harness("alloc_fail_signature_h", ["C04"], functions=f("sign", "from_bytes", "append_to_vec", "verify"), timeout=1800,
                      desc="every aws-lc allocation may return NULL during sign / from_bytes / verify: no leak / double free"))
    hs.append(Harness("canary_lc_h", ["C01", "C04", "C08"], expect="fail", timeout=1800))
    return Unit(
        name="awslc_lc", members=["paseto-core", PKG], package=PKG,
        inject=[(LC, ["units/common/pae_stub.rs", "units/awslc/stubs.rs", "units/awslc/lc.rs"])],
        patches=MODELS, harness_path="lc::verif", allow_unsafe=True,
        kani_flags=FLAGS, dev_deps=DEV, harnesses=hs, assumptions=A_FFI, trusted=TRUSTED,
    )



def core_unit(name, file, harness, path, hs, assume, stubs=False, unsafe=False):
    srcs = ["units/common/pae_stub.rs"] + (["units/awslc/stubs.rs"] if stubs else []) + [harness]
    return Unit(
        name=name, members=["paseto-core", PKG], package=PKG,
        inject=[(file, srcs)], patches=MODELS, harness_path=path, allow_unsafe=unsafe,
        kani_flags=FLAGS, dev_deps=DEV, harnesses=hs, assumptions=assume, trusted=TRUSTED,
    )


def local_unit():
    L = f"{SRC}/core/local.rs"
    fl = [f"{L}::{f}" for f in ("dangerous_seal_with_nonce", "unseal", "keys", "kdf", "preauth_local", "nonce")] + [f"{SRC}/core/mod.rs::apply_keystream"]
    B = "contents symbolic"
    hs = [
        Harness("seal_is_spec_0_0_0", ["C03", "C01"], complete=False, bound=f"|m|=0,|f|=0,|a|=0; {B}", functions=fl),
        Harness("seal_is_spec_1_0_0", ["C03", "C01"], complete=False, bound=f"|m|=1,|f|=0,|a|=0; {B}", functions=fl),
        Harness("seal_is_spec_3_2_1", ["C03", "C01"], complete=False, bound=f"|m|=3,|f|=2,|a|=1; {B}", functions=fl),
        Harness("seal_is_spec_16_0_0", ["C03", "C01"], complete=False, bound=f"|m|=16 (one AES block),|f|=0,|a|=0; {B}", functions=fl),
        Harness("seal_is_spec_17_0_0", ["C03", "C01"], complete=False, bound=f"|m|=17 (two AES blocks: counter-width obligation),|f|=0,|a|=0; {B}", functions=fl),
        Harness("unseal_accepts_spec_0_0_0", ["C03", "C01"], complete=False, bound="|m|=0,|f|=0,|a|=0", functions=fl),
        Harness("unseal_accepts_spec_3_2_1", ["C03", "C01"], complete=False, bound="|m|=3,|f|=2,|a|=1", functions=fl),
        Harness("unseal_accepts_spec_17_0_0", ["C03", "C01"], complete=False, bound="|m|=17 (two AES blocks: counter-width obligation),|f|=0,|a|=0", functions=fl),
        Harness("roundtrip_own_nonce_1_1_1", ["C01", "C16"], complete=False, bound="|m|=1,|f|=1,|a|=1", functions=fl),
        Harness("roundtrip_own_nonce_0_0_0", ["C01", "C16"], complete=False, bound="|m|=0,|f|=0,|a|=0", functions=fl),
        Harness("roundtrip_own_nonce_17_0_0", ["C01", "C16"], complete=False, bound="|m|=17,|f|=0,|a|=0", functions=fl),
        Harness("unseal_rejects_tamper_0_0_0", ["C02", "C12"], complete=False, bound="|m|=0,|f|=0,|a|=0; flip position and bit symbolic", functions=fl, timeout=1800),
        Harness("unseal_rejects_tamper_1_1_1", ["C02", "C12"], complete=False, bound="|m|=1,|f|=1,|a|=1; flip position and bit symbolic", functions=fl, timeout=1800),
        Harness("unseal_rejects_boundary_shift_1", ["C02"], complete=False, bound="|m|=1, footer+assertion 2 bytes", functions=fl),
        Harness("canary_wrong_aad_1", ["C01", "C02", "C03", "C12"], expect="fail"),
        Harness("local_key_codec_h", ["C08", "C10", "C04"], complete=False, bound="key byte strings of length 0..=40", functions=[f"{L}::decode", f"{L}::encode"]),
        Harness("local_key_random_h", ["C16"], functions=[f"{L}::random"]),
        Harness("nonce_fail_closed_h", ["C16"], functions=[f"{L}::nonce"]),
    ]
    for n in (0, 47, 79, 80, 82):
        hs.append(Harness(f"unseal_short_{n}", ["C04", "C12"], complete=False, bound=f"payload length {n}", functions=[f"{L}::unseal"]))
    return core_unit("awslc_local", L, "units/awslc/local.rs", "core::local::verif", hs, A_RS)


def public_unit():
    P = f"{SRC}/core/public.rs"
    fl = [f"{P}::{f}" for f in ("dangerous_seal_with_nonce", "unseal", "preauth_public", "unsealing_key", "nonce")] + [f"{LC}::{f}" for f in ("sign", "verify", "append_to_vec", "from_bytes", "compressed_pub_key")]
    kd = [f"{P}::decode", f"{P}::encode", f"{LC}::from_sec1_bytes", f"{LC}::compressed_pub_key", f"{LC}::encode"]
    hs = [
        Harness("sign_is_spec_0_0_0", ["C03", "C01"], complete=False, bound="|m|=0,|f|=0,|a|=0; contents symbolic; every (r,s) in [1,n-1]^2", functions=fl, timeout=1800),
        Harness("sign_is_spec_3_2_1", ["C03", "C01"], complete=False, bound="|m|=3,|f|=2,|a|=1; contents symbolic; every (r,s) in [1,n-1]^2", functions=fl, timeout=1800),
        Harness("verify_accepts_spec_0_0_0", ["C03", "C01"], complete=False, bound="|m|=0,|f|=0,|a|=0", functions=fl + kd, timeout=1800),
        Harness("verify_accepts_spec_3_2_1", ["C03", "C01"], complete=False, bound="|m|=3,|f|=2,|a|=1", functions=fl + kd, timeout=1800),
        Harness("verify_accepts_spec_twin_0_0_0", ["C03", "C01"], complete=False, bound="|m|=0,|f|=0,|a|=0; the specification token with s replaced by n - s", functions=fl + kd, timeout=1800),
        Harness("verify_accepts_spec_twin_3_2_1", ["C03", "C01"], complete=False, bound="|m|=3,|f|=2,|a|=1; the specification token with s replaced by n - s", functions=fl + kd, timeout=1800),
        Harness("roundtrip_own_nonce_0_0_0", ["C01"], complete=False, bound="|m|=0,|f|=0,|a|=0; every (r,s) in [1,n-1]^2", functions=fl, timeout=1800),
        Harness("roundtrip_own_nonce_1_1_1", ["C01"], complete=False, bound="|m|=1,|f|=1,|a|=1; every (r,s) in [1,n-1]^2", functions=fl, timeout=1800),
        Harness("verify_rejects_tamper_0_0_0", ["C02", "C12"], complete=False, bound="|m|=0,|f|=0,|a|=0; flip position and bit symbolic", functions=fl + kd, timeout=1800),
        Harness("verify_rejects_tamper_1_1_1", ["C02", "C12"], complete=False, bound="|m|=1,|f|=1,|a|=1; flip position and bit symbolic", functions=fl + kd, timeout=1800),
        Harness("verify_rejects_other_key_0_0_0", ["C02", "C12"], tier="thorough", complete=False, bound="|m|=0,|f|=0,|a|=0; one flipped bit of the 49 public key bytes (position and bit symbolic)", functions=fl + kd, timeout=2400,
                desc="the tampered key goes through HasKey<Public>::decode: memo-table size symbolic afterwards (slow)"),
        Harness("verify_rejects_boundary_shift_1", ["C02"], complete=False, bound="|m|=1, footer+assertion 2 bytes", functions=fl),
        Harness("verify_rejects_message_shift_h", ["C02"], complete=False, bound="message+footer 3 bytes", functions=fl),
        Harness("canary_wrong_aad_1", ["C01", "C02", "C03", "C12"], expect="fail", timeout=1800),
        Harness("public_key_codec_49", ["C08", "C10", "C04"], complete=False, bound="all 49-byte strings", functions=kd),
        Harness("public_key_codec_97", ["C08", "C10", "C04", "C09"], complete=False, bound="all 97-byte strings", functions=kd),
        Harness("public_key_codec_1", ["C08", "C10", "C04"], complete=False, bound="all 1-byte strings (incl. the identity encoding 00)", functions=kd),
        Harness("public_key_codec_h", ["C08", "C10", "C04"], complete=False, bound="all strings of length 0..=100 other than 1, 49, 97", functions=kd),
        Harness("public_key_roundtrip_h", ["C08"], functions=kd + [f"{P}::unsealing_key"]),
        Harness("public_key_paserk_identity_h", ["C04", "C08"], functions=kd, desc="KeyText(00) -> PublicKey -> expose_key (first step of Display / id)"),
        Harness("secret_key_codec_48", ["C08", "C10", "C04"], functions=kd + [f"{P}::unsealing_key", f"{LC}::clone"]),
        Harness("secret_key_codec_h", ["C08", "C10", "C04"], complete=False, bound="all strings of length 0..=100 other than 48", functions=kd),
        Harness("secret_key_random_h", ["C16"], functions=[f"{P}::random"]),
    ]
    for n in (0, 95, 96, 98):
        hs.append(Harness(f"verify_short_{n}", ["C04", "C12"], complete=False, bound=f"payload length {n}", functions=[f"{P}::unseal"]))
    return core_unit("awslc_public", P, "units/awslc/public.rs", "core::public::verif", hs, A_FFI + A_RS[:1] + A_RS[2:], stubs=True)


def pie_unit():
    F = f"{SRC}/core/pie_wrap.rs"
    fn = [f"{F}::{f}" for f in ("pie_wrap_key", "pie_unwrap_key", "wrap_keys", "kdf", "auth")]
    hs = []
    for k in (32, 48):
        b = f"wrapped key length {k}; contents, nonce symbolic"
        hs += [Harness(f"wrap_is_spec_{k}", ["C07", "C05", "C16"], complete=False, bound=b, functions=fn),
               Harness(f"unwrap_accepts_spec_{k}", ["C07", "C05"], complete=False, bound=b, functions=fn),
               Harness(f"roundtrip_{k}", ["C05", "C16"], complete=False, bound=b, functions=fn),
               Harness(f"unwrap_rejects_tamper_{k}", ["C06"], complete=False, bound=b + "; flip position/bit symbolic (blob, wrapping key)", functions=fn, timeout=1800),
               Harness(f"unwrap_rejects_relabel_{k}", ["C06", "C10"], complete=False, bound=b + "; header relabelled local<->secret", functions=fn)]
    for n in (0, 47, 48, 79, 80, 113):
        hs.append(Harness(f"unwrap_short_{n}", ["C04", "C06"], complete=False, bound=f"blob length {n}", functions=fn))
    hs += [Harness("wrap_fail_closed_h", ["C16"], functions=fn), Harness("canary_inputs_h", ["C05", "C06", "C07"], expect="fail")]
    return core_unit("awslc_pie", F, "units/awslc/pie.rs", "core::pie_wrap::verif", hs, A_RS[:3])


def pbkw_unit():
    F = f"{SRC}/core/pw_wrap.rs"
    fn = [f"{F}::{f}" for f in ("pw_wrap_key", "pw_unwrap_key", "get_params", "wrap_keys", "kdf", "auth")]
    hs = [Harness("wrap_is_spec_32_default", ["C07", "C05", "C16"], complete=False, bound="local key, default parameters (100000 iterations), 2-byte password", functions=fn, timeout=2400),
          Harness("wrap_is_spec_48_custom", ["C07", "C05", "C16"], complete=False, bound="secret key, 1000 iterations, 1-byte password", functions=fn, timeout=2400)]
    for k in (32, 48):
        b = f"wrapped key length {k}; contents, salt, nonce symbolic"
        hs += [Harness(f"unwrap_accepts_spec_{k}", ["C07", "C05"], complete=False, bound=b, functions=fn, timeout=2400),
               Harness(f"roundtrip_{k}", ["C05"], complete=False, bound=b, functions=fn, timeout=2400),
               Harness(f"unwrap_rejects_tamper_{k}", ["C06"], complete=False, bound=b + "; flip position/bit symbolic (blob, password)", functions=fn, timeout=2400),
               Harness(f"unwrap_rejects_relabel_{k}", ["C06", "C10"], complete=False, bound=b + "; header relabelled local<->secret", functions=fn, timeout=2400)]
    for n in (0, 51, 52, 99, 100, 133):
        hs.append(Harness(f"unwrap_short_{n}", ["C04", "C06"], complete=False, bound=f"blob length {n}, all parameter blocks with a non-zero iteration count", functions=fn, timeout=(900 if n < 100 else 3600), tier=("quick" if n < 100 else "thorough")))
    hs += [Harness("unwrap_rejects_param_flip_32", ["C06"], tier="thorough", complete=False, bound="local key; one flipped bit of the iteration count (bytes 32..36)", functions=fn, timeout=3600,
                   desc="runs the real U32::get: memo-table size symbolic after wrap_keys (slow)"),
           Harness("unwrap_zero_iterations_h", ["C04"], tier="thorough", complete=False, bound="132-byte blob, iteration count 0, everything else symbolic", functions=fn, timeout=3600),
           Harness("wrap_fail_closed_h", ["C16"], functions=fn, timeout=2400), Harness("canary_inputs_h", ["C05", "C06", "C07"], expect="fail", timeout=2400)]
    A = A_RS[:3] + ["quick-tier harnesses: zerocopy big_endian::U32::get is replaced by a function returning the harness's literal iteration count, "
                    "with the obligation that the bytes the code reads are that count (keeps the NonZeroU32 branch in wrap_keys decidable for CBMC; NOTES.md section 10)"]
    return core_unit("awslc_pbkw", F, "units/awslc/pbkw.rs", "core::pw_wrap::verif", hs, A, unsafe=True)


def pke_unit():
    F = f"{SRC}/core/pke.rs"
    fn = [f"{F}::{f}" for f in ("seal_key", "unseal_key", "seal_keys", "encode", "decode")] + [f"{LC}::diffie_hellman", f"{SRC}/core/public.rs::random"]
    D = "drawn ephemeral scalar assumed in 1..n-1"
    hs = [Harness("seal_is_spec_h", ["C07", "C05", "C16"], complete=False, bound=D, functions=fn, timeout=1800),
          Harness("unseal_accepts_spec_h", ["C07", "C05"], functions=fn, timeout=1800),
          Harness("roundtrip_h", ["C05"], complete=False, bound=D, functions=fn, timeout=1800),
          Harness("unseal_rejects_tamper_h", ["C06"], functions=fn, timeout=1800),
          Harness("seal_to_identity_h", ["C04", "C08"], complete=False, bound="the identity encoding 00 (k3.public.AA)", functions=fn),
          Harness("seal_fail_closed_h", ["C16"], complete=False, bound=D + "; SecretKey::random() replaced by its contract (decided in awslc_public::secret_key_random_h)", functions=fn), Harness("pke_key_codec_h", ["C08"], functions=fn),
          Harness("canary_inputs_h", ["C05", "C06", "C07"], expect="fail", timeout=1800)]
    for n in (0, 47, 96, 128, 129, 130):
        hs.append(Harness(f"unseal_len_{n}", ["C04", "C06"], complete=False, bound=f"blob length {n}", functions=fn))
    return core_unit("awslc_pke", F, "units/awslc/pke.rs", "core::pke::verif", hs, A_FFI + A_RS[:3], stubs=True)


def id_unit():
    F = f"{SRC}/core/mod.rs"
    fn = [f"{F}::hash_key"]
    hs = [Harness("id_is_spec_10", ["C13"], complete=False, bound="PASERK text of 10 bytes", functions=fn),
          Harness("id_is_spec_1", ["C13"], complete=False, bound="PASERK text of 1 byte", functions=fn),
          Harness("id_domain_separated_h", ["C13"], complete=False, bound="PASERK text of 10 bytes", functions=fn),
          Harness("canary_inputs_h", ["C13"], expect="fail")]
    return core_unit("awslc_id", F, "units/awslc/id.rs", "core::verif", hs, A_RS[:1])


def units():
    return [lc_unit(), local_unit(), public_unit(), pie_unit(), pbkw_unit(), pke_unit(), id_unit()]
