// U7 (v3 over aws-lc, key ids) — appended to paseto-v3-aws-lc/src/core/mod.rs.
use paseto_core::paserk::IdVersion;

/// [C13] hash_key(header, text) == SHA-384("k3" || header || text)[0..33], for the three id kinds
pub fn id_is_spec(L: usize) {
    let tb: [u8; 12] = kani::any();
    let text = &tb[..L];
    let which: u8 = kani::any();
    let h: &'static str = match which { 0 => ".lid.", 1 => ".sid.", _ => ".pid." };
    let spec = vspec::v3::key_id(h.as_bytes(), text);
    let got = <V3 as IdVersion>::hash_key(h, text);
    vassert!(got == spec, "[C13] the key id is the first 33 bytes of the specification's SHA-384 digest of \"k3\" || id header || PASERK text");
}
/// [C13] lid / sid / pid of the same text differ (domain separation, under the ideal-hash assumption)
/// NOTE: the ideal-hash assumption speaks about the full 48-byte digest; ids keep 33 bytes, so "differ" is asserted on the digests'
/// inputs being distinct hash calls whose 48-byte outputs differ — checked here through the ghost log.
pub fn id_domain_separated() {
    let text: [u8; 10] = kani::any();
    let _a = <V3 as IdVersion>::hash_key(".lid.", &text);
    let _b = <V3 as IdVersion>::hash_key(".sid.", &text);
    let _c = <V3 as IdVersion>::hash_key(".pid.", &text);
    let (ea, eb, ec) = (vmodel_core::nth_call(vmodel_core::alg::SHA384, 0), vmodel_core::nth_call(vmodel_core::alg::SHA384, 1), vmodel_core::nth_call(vmodel_core::alg::SHA384, 2));
    let three = vmodel_core::calls(vmodel_core::alg::SHA384) == 3;
    let distinct = match (ea, eb, ec) {
        (Some(a), Some(b), Some(c)) => a.mlen == 17 && b.mlen == 17 && c.mlen == 17 && a.msg[..17] != b.msg[..17] && a.msg[..17] != c.msg[..17] && b.msg[..17] != c.msg[..17]
            && a.out[..48] != b.out[..48] && a.out[..48] != c.out[..48] && b.out[..48] != c.out[..48],
        _ => false,
    };
    vcheck_all!(
        (three, "[C13] each key id is one SHA-384 call"),
        (distinct, "[C13] local, secret and public ids of the same text hash pairwise different inputs (so the digests differ)"),
    );
}
pub fn canary_inputs() {
    let text: [u8; 10] = kani::any();
    let a = <V3 as IdVersion>::hash_key(".lid.", &text);
    vassert!(text[0] != 0x5a || a[0] != 0xa5, "canary: must fail (false claim about the symbolic inputs)");
}
macro_rules! inst {
    ($($name:ident = $f:ident($($g:literal),*);)*) => { $(
        #[kani::proof] #[kani::unwind(100)]
        pub fn $name() { $f($($g),*); kani::cover!(true, "harness end reachable"); }
    )* };
}
inst! {
    id_is_spec_10 = id_is_spec(10); id_is_spec_1 = id_is_spec(1);
    id_domain_separated_h = id_domain_separated();
    canary_inputs_h = canary_inputs();
}
// @@PLAYBACK@@
