// Replacements for `Result::{unwrap, expect}` used by every awslc harness (`#[kani::stub]`, needs -Z stubbing).
// Same behaviour: return the Ok value, panic iff Err — but WITHOUT building a `&dyn Debug` of the error for the message.
// Why: core's `unwrap_failed(msg, &e as &dyn Debug)` makes rustc emit a vtable for `PasetoError`, which makes
// `drop_glue::<PasetoError>` an address-taken function; PasetoError::PayloadError holds a `Box<dyn Error>`, and CBMC resolves the
// virtual drop of that box against every address-taken function of that signature — i.e. drop_glue::<PasetoError> again: an
// (infeasible, but symbolically explored) recursion that is unrolled to the harness-wide unwind bound at every place where a
// `Result<_, PasetoError>` with a non-constant discriminant is dropped (measured: 26 s per reachable unwrap at unwind 20, no
// result within 15 min at unwind 110; 2.6 s with these stubs). The repository's `.unwrap()` / `.expect()` sites keep their
// meaning: reaching one with an Err is still reported as a failed check (the panic below).
pub fn unwrap_stub<T, E>(r: Result<T, E>) -> T {
    match r {
        Ok(t) => t,
        Err(e) => {
            core::mem::forget(e);
            panic!("called `Result::unwrap()` on an `Err` value")
        }
    }
}
pub fn expect_stub<T, E>(r: Result<T, E>, _msg: &str) -> T {
    match r {
        Ok(t) => t,
        Err(e) => {
            core::mem::forget(e);
            panic!("called `Result::expect()` on an `Err` value")
        }
    }
}
