use paseto_core::key::HasKey;
use paseto_core::version::{Public, Secret};
use paseto_v3_aws_lc::core::V3;
use p384::elliptic_curve::sec1::ToEncodedPoint;

#[test]
fn model_assumption_probes() {
    // (1) scalar with leading zero bytes: accepted, encode left-pads (BN_num_bytes is minimal, BN_bn2bin unpadded)
    let mut d = [0u8; 48];
    d[47] = 5; d[3] = 9;
    let k = <V3 as HasKey<Secret>>::decode(&d).expect("small scalar accepted");
    assert_eq!(&<V3 as HasKey<Secret>>::encode(&k)[..], &d[..]);
    println!("PROBE: scalar with 3 leading zero bytes round-trips through encode (left-padded)");
    // (2) out-of-range scalars: error kind
    let e0 = <V3 as HasKey<Secret>>::decode(&[0u8; 48]).err();
    let ef = <V3 as HasKey<Secret>>::decode(&[0xffu8; 48]).err();
    println!("PROBE: decode(0) = {:?}; decode(ff..ff) = {:?}", e0, ef);
    let n: [u8; 48] = [0xff,0xff,0xff,0xff,0xff,0xff,0xff,0xff,0xff,0xff,0xff,0xff,0xff,0xff,0xff,0xff,0xff,0xff,0xff,0xff,0xff,0xff,0xff,0xff,
        0xc7,0x63,0x4d,0x81,0xf4,0x37,0x2d,0xdf,0x58,0x1a,0x0d,0xb2,0x48,0xb0,0xa7,0x7a,0xec,0xec,0x19,0x6a,0xcc,0xc5,0x29,0x73];
    let mut n1 = n; n1[47] -= 1;
    println!("PROBE: decode(n) = {:?}; decode(n-1).is_ok() = {}", <V3 as HasKey<Secret>>::decode(&n).err(), <V3 as HasKey<Secret>>::decode(&n1).is_ok());
    // (3) SEC1 forms of a real point
    let sk = p384::SecretKey::from_slice(&d).unwrap();
    let pt = sk.public_key();
    let c = pt.to_encoded_point(true);
    let u = pt.to_encoded_point(false);
    let kc = <V3 as HasKey<Public>>::decode(c.as_bytes()).expect("compressed accepted");
    assert_eq!(&<V3 as HasKey<Public>>::encode(&kc)[..], c.as_bytes());
    let ku = <V3 as HasKey<Public>>::decode(u.as_bytes());
    println!("PROBE: 97-byte uncompressed accepted = {}; re-encodes to compressed = {}", ku.is_ok(), ku.as_ref().map(|k| &<V3 as HasKey<Public>>::encode(k)[..] == c.as_bytes()).unwrap_or(false));
    let mut h = u.as_bytes().to_vec();
    h[0] = 6 | (h[96] & 1);
    let kh = <V3 as HasKey<Public>>::decode(&h);
    println!("PROBE: 97-byte hybrid (06/07, right parity) accepted = {}", kh.is_ok());
    h[0] ^= 1;
    println!("PROBE: 97-byte hybrid with wrong parity accepted = {}", <V3 as HasKey<Public>>::decode(&h).is_ok());
    let mut bad = u.as_bytes().to_vec(); bad[96] ^= 1;
    println!("PROBE: 97-byte uncompressed off-curve accepted = {}", <V3 as HasKey<Public>>::decode(&bad).is_ok());
    println!("PROBE: lengths 0/1(01)/2/48/50/96/98 accepted = {:?}", [0usize,1,2,48,50,96,98].map(|l| { let mut b = vec![1u8; l]; if l>0 {b[0]= if l==1 {1} else {2};} <V3 as HasKey<Public>>::decode(&b).is_ok() }));
    // the public key derived by aws-lc equals p384's
    let pk = <V3 as paseto_core::version::SealingVersion<Public>>::unsealing_key(&k);
    assert_eq!(&<V3 as HasKey<Public>>::encode(&pk)[..], c.as_bytes());
    // (4) identity as PKE recipient / peer
    let id = <V3 as HasKey<paseto_core::version::PkePublic>>::decode(&[0u8]).expect("identity accepted");
    let r = std::panic::catch_unwind(std::panic::AssertUnwindSafe(|| <V3 as paseto_core::paserk::PkeSealingVersion>::seal_key(&id, paseto_v3_aws_lc::core::LocalKey::from_raw_bytes([7; 32])).is_ok()));
    println!("PROBE: seal_key to the identity key: {:?}", r.as_ref().map_err(|_| "panicked"));
}
