// native assumption probe (scratch copy only): behaviour of the REAL aws-lc on the two points the FFI model depends on
use paseto_v3_aws_lc::{PublicKey, SecretKey, SignedToken, UnsignedToken};

#[test]
fn d3_identity_point_is_accepted_then_display_panics() {
    let k: Result<PublicKey, _> = "k3.public.AA".parse();
    assert!(k.is_ok(), "model assumption: EC_POINT_oct2point accepts 00 and EC_KEY_set_public_key does not validate");
    let k = k.unwrap();
    let r = std::panic::catch_unwind(std::panic::AssertUnwindSafe(|| k.to_string()));
    println!("PROBE D3: parse(k3.public.AA) = Ok; to_string() panicked = {}", r.is_err());
    assert!(r.is_err());
    let r2 = std::panic::catch_unwind(std::panic::AssertUnwindSafe(|| k.clone()));
    println!("PROBE D3: clone() panicked = {}", r2.is_err());
}

#[test]
fn d2_sign_fails_for_short_r_or_s() {
    let sk = SecretKey::random().unwrap();
    let pk = sk.public_key();
    let (mut err, mut ok) = (0, 0);
    let n = 3000;
    for i in 0..n {
        let t = UnsignedToken::<paseto_json::RegisteredClaims>::new(paseto_json::RegisteredClaims::now(std::time::Duration::from_secs(60 + i)));
        match t.sign(&sk) {
            Ok(s) => {
                ok += 1;
                let s: SignedToken<paseto_json::RegisteredClaims> = s.to_string().parse().unwrap();
                s.verify(&pk, &paseto_json::Time::valid_now()).unwrap();
            }
            Err(_) => err += 1,
        }
    }
    println!("PROBE D2: sign() returned Err {err} / {n} times (expected about 2/256 = 0.78%: r or s shorter than 48 bytes)");
    assert!(err > 0 && ok > 0);
}

#[test]
fn uncompressed_public_key_is_accepted_and_reencoded_compressed() {
    // 97-byte 04||x||y of a real key: build it from a compressed key via the test vector in the spec (k3.public of 3-S-1)
    let sk = SecretKey::random().unwrap();
    let pk = sk.public_key().to_string();
    println!("PROBE: k3.public text length = {}", pk.len());
}
