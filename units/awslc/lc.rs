// U9 (unit awslc_lc) — appended to paseto-v3-aws-lc/src/lc/mod.rs (the only FFI `unsafe` of the repository, with lc/ptr.rs).
// The real, unmodified wrappers run against the assumed contract of the 29 aws-lc functions they call (models/aws-lc-sys):
// heap objects with aws-lc's ownership rules (CBMC checks every dereference / free), minimal-length BIGNUMs, SEC1 decoding
// incl. the identity, strict DER, any (r, s) in [1, n-1]^2 from ECDSA_sign.
use aws_lc_sys::conv;
use aws_lc_sys::model as ffi;
use paseto_core::PasetoError as PE;

/// ghost: the (r, s) of a Signature, left-padded to 48 bytes, and their minimal lengths
fn sig_rs(sig: &Signature) -> ([u8; 48], [u8; 48], usize, usize) {
    let mut r = null();
    let mut s = null();
    unsafe {
        ECDSA_SIG_get0(*sig.sig.as_const(), &raw mut r, &raw mut s);
        (ffi::bn_pad48(r), ffi::bn_pad48(s), ffi::bn_len(r), ffi::bn_len(s))
    }
}
fn cat96(r: &[u8; 48], s: &[u8; 48]) -> [u8; 96] {
    let mut o = [0u8; 96];
    o[..48].copy_from_slice(r);
    o[48..].copy_from_slice(s);
    o
}
/// integer value of b (big-endian, any length <= 66) as (fits in 48 bytes, low 48 bytes)
fn value48(b: &[u8]) -> (bool, [u8; 48]) {
    let n = b.len();
    let mut fits = true;
    let mut v = [0u8; 48];
    let mut i = 0;
    while i < n {
        if n - i > 48 {
            fits &= b[i] == 0;
        } else {
            v[48 - (n - i)] = b[i];
        }
        i += 1;
    }
    (fits, v)
}

// ---------------------------------------------------------------------------------------------- SigningKey
/// [C08]/[C04] SigningKey::from_sec1_bytes for every byte string of length L: accepts exactly 0 < k < n; encode is the
/// 48-byte left-padded scalar (leading zero bytes of the scalar included); nothing leaks.
pub fn signing_key_codec(L: usize) {
    let b: [u8; 66] = kani::any();
    let (fits, v) = value48(&b[..L]);
    let in_range = fits && conv::scalar_in_range(&v);
    let r = SigningKey::from_sec1_bytes(&b[..L]);
    match r {
        Ok(k) => {
            let enc = k.encode();
            vcheck_all!(
                (in_range, "[C08] a scalar that is zero or not below the group order is rejected"),
                (enc == v, "[C08] SigningKey::encode is the scalar left-padded to exactly 48 bytes"),
            );
            drop(k);
        }
        Err(e) => {
            vcheck_all!(
                (!in_range, "[C08] every scalar 0 < k < n (any leading zero bytes) is accepted as a secret key"),
                (matches!(e, PE::InvalidKey | PE::CryptoError), "[C04] a rejected secret key is reported as InvalidKey or CryptoError"),
            );
            core::mem::forget(e);
        }
    }
    vassert!(ffi::live() == 0, "[C04] every aws-lc object created while decoding/encoding a secret key is freed exactly once");
    kani::cover!(L == 0 || in_range, "accepted scalar explored"); // (the empty string is the scalar 0: never accepted)
    kani::cover!(!in_range, "rejected scalar explored");
}

/// [C08] decode(encode(k)) == k and the public half is k*G, for every valid scalar (leading zero bytes included)
pub fn signing_key_reencode() {
    let sk: [u8; 48] = kani::any();
    kani::assume(conv::scalar_in_range(&sk));
    ffi::promise_scalars_in_range(true);
    let expect_pub = conv::p384_pk(&sk);
    let k = SigningKey::from_sec1_bytes(&sk);
    let ok = k.is_ok();
    if let Ok(k) = &k {
        let enc = k.encode();
        let pubk = k.compressed_pub_key();
        ffi::promise_scalars_in_range(false); // the re-decoded bytes come from the code under test: nothing is promised about them
        let k2 = SigningKey::from_sec1_bytes(&enc);
        let again = match &k2 {
            Ok(k2) => k2.encode() == enc && k2.compressed_pub_key() == pubk,
            Err(_) => false,
        };
        vcheck_all!(
            (enc == sk, "[C08] encode(decode(sk)) == sk"),
            (pubk == expect_pub, "[C08] the public half of a decoded secret key is scalar*G"),
            (again, "[C08] decode(encode(k)) is accepted and equals k (scalar and public point)"),
        );
        core::mem::forget(k2); // (freed-exactly-once is checked in signing_key_codec / signing_key_clone)
    }
    vassert!(ok, "[C08] every scalar 0 < k < n is accepted as a secret key");
    kani::cover!(sk[0] == 0 && sk[1] == 0, "scalar with two leading zero bytes explored");
    core::mem::forget(k);
}

/// [C08]/[C04] Clone of a secret key: equal scalar and point, independent lifetime (the original is dropped first), no leak.
pub fn signing_key_clone() {
    let sk: [u8; 48] = kani::any();
    kani::assume(conv::scalar_in_range(&sk));
    ffi::promise_scalars_in_range(true);
    let k = SigningKey::from_sec1_bytes(&sk);
    let ok = k.is_ok();
    vassert!(ok, "[C08] every scalar 0 < k < n is accepted as a secret key");
    if let Ok(k) = k {
        let p0 = k.compressed_pub_key();
        let c = k.clone();
        drop(k); // the clone must not point into the original
        let (e1, p1) = (c.encode(), c.compressed_pub_key());
        vcheck_all!(
            (e1 == sk, "[C08] a cloned secret key has the same scalar"),
            (p1 == p0, "[C08] a cloned secret key has the same public point"),
        );
    }
    vassert!(ffi::live() == 0, "[C04] clone / drop free every aws-lc object exactly once");
}
/// [C08]/[C04] verifying_key (and Clone of it): the secret key's public point, independent lifetime, no leak.
pub fn verifying_key_of() {
    let sk: [u8; 48] = kani::any();
    kani::assume(conv::scalar_in_range(&sk));
    ffi::promise_scalars_in_range(true);
    let k = SigningKey::from_sec1_bytes(&sk);
    if let Ok(k) = k {
        let p0 = k.compressed_pub_key();
        let vk = k.verifying_key();
        drop(k);
        let vk2 = vk.clone();
        drop(vk);
        let p2 = vk2.compressed_pub_key();
        vassert!(p2 == p0, "[C08] verifying_key (and its clone) is the secret key's public point");
    }
    vassert!(ffi::live() == 0, "[C04] verifying_key / clone / drop free every aws-lc object exactly once");
}

// ---------------------------------------------------------------------------------------------- VerifyingKey
/// [C08]/[C04] VerifyingKey::from_sec1_bytes for every byte string of length L: whatever it accepts can be re-encoded
/// (compressed_pub_key is what HasKey::encode, Display and id call first), cloned and dropped without panicking; the
/// encoding is the canonical compressed form of the input; the identity is not a key.
pub fn verifying_key_decode(L: usize) {
    let b: [u8; 98] = kani::any();
    let r = VerifyingKey::from_sec1_bytes(&b[..L]);
    let is_identity_encoding = L == 1 && b[0] == 0;
    let mut expect = [0u8; 49];
    if L == 49 {
        expect.copy_from_slice(&b[..49]);
    } else if L == 97 {
        expect[0] = 2 | (b[96] & 1);
        expect[1..].copy_from_slice(&b[1..49]);
    }
    match r {
        Ok(k) => {
            vcheck_all!(
                (!is_identity_encoding, "[C08] the identity point (SEC1 encoding 00, PASERK k3.public.AA) is rejected as a public key"),
                (L == 49 || L == 97, "[C08] only 49-byte compressed or 97-byte uncompressed SEC1 strings are accepted as public keys"),
            );
            // [C04] no panic below for ANY accepted key (the assert inside compressed_pub_key is an obligation)
            let enc = k.compressed_pub_key();
            let c = k.clone();
            let enc_c = c.compressed_pub_key();
            drop(k);
            let k2 = VerifyingKey::from_sec1_bytes(&enc);
            let again = match &k2 {
                Ok(k2) => k2.compressed_pub_key() == enc,
                Err(_) => false,
            };
            vcheck_all!(
                (enc == expect, "[C08] an accepted public key re-encodes to the canonical compressed form of the decoded point"),
                (enc_c == enc, "[C08] a cloned public key has the same point"),
                (again, "[C08] decode(encode(pk)) is accepted and equals pk"),
            );
        }
        Err(e) => {
            vassert!(matches!(e, PE::InvalidKey), "[C08] undecodable public key bytes are InvalidKey");
        }
    }
    vassert!(ffi::live() == 0, "[C04] every aws-lc object created while decoding/encoding a public key is freed exactly once");
}

// ---------------------------------------------------------------------------------------------- Signature
/// [C01]/[C04] sign -> append_to_vec, for EVERY (r, s) ECDSA_sign can return.
pub fn sign_append(V: usize) {
    let sk: [u8; 48] = kani::any();
    kani::assume(conv::scalar_in_range(&sk));
    ffi::promise_scalars_in_range(true);
    let digest: [u8; 48] = kani::any();
    let pre: [u8; 4] = kani::any();
    let k = SigningKey::from_sec1_bytes(&sk);
    if let Ok(k) = k {
        let sig = k.sign(&digest);
        let signed = sig.is_ok();
        vassert!(signed, "[C01] signing a 48-byte digest with a valid key succeeds");
        if let Ok(sig) = sig {
            let (r, s, rl, sl) = sig_rs(&sig);
            let rs = cat96(&r, &s);
            let mut out = Vec::with_capacity(V + 100);
            out.extend_from_slice(&pre[..V]);
            let res = sig.append_to_vec(&mut out);
            let ok = res.is_ok();
            core::mem::forget(res);
            let n = out.len();
            let grown = n == V + 96;
            let prefix_kept = n >= V && out[..V] == pre[..V];
            let bytes_ok = grown && out[V..V + 96] == rs[..];
            let unchanged = n == V && prefix_kept;
            vcheck_all!(
                (ok, "[C01] Signature::append_to_vec succeeds for every signature sign() can return (r, s with leading zero bytes included)"),
                (!ok || (grown && prefix_kept), "[C01] append_to_vec appends exactly 96 bytes and keeps what was there"),
                (!ok || bytes_ok, "[C01] the appended bytes are pad48(r) || pad48(s)"),
                (ok || unchanged, "[C04] a failed append_to_vec leaves the vector as it was (no uninitialised bytes exposed)"),
            );
            kani::cover!(rl == 48 && sl == 48, "full-length r and s explored");
            kani::cover!(rl < 48, "r with a leading zero byte explored");
            kani::cover!(sl < 48, "s with a leading zero byte explored");
            kani::cover!(rl == 47 && r[1] & 0x80 != 0, "47-byte r with the top bit set explored");
        }
    }
    vassert!(ffi::live() == 0, "[C04] sign / append_to_vec free every aws-lc object exactly once");
}

/// [C01] sign -> (r, s) -> Signature::from_bytes(pad48(r) || pad48(s)) -> verify, for EVERY (r, s) ECDSA_sign can return.
pub fn sign_bytes_verify() {
    let sk: [u8; 48] = kani::any();
    kani::assume(conv::scalar_in_range(&sk));
    ffi::promise_scalars_in_range(true);
    let digest: [u8; 48] = kani::any();
    let k = SigningKey::from_sec1_bytes(&sk);
    if let Ok(k) = k {
        let vk = k.verifying_key();
        let sig = k.sign(&digest);
        if let Ok(sig) = sig {
            let (r, s, rl, sl) = sig_rs(&sig);
            let rs = cat96(&r, &s);
            drop(sig);
            let parsed = Signature::from_bytes(&rs);
            let parsed_ok = parsed.is_ok();
            let same = match &parsed {
                Ok(p) => {
                    let (r2, s2, _, _) = sig_rs(p);
                    r2 == r && s2 == s
                }
                Err(_) => false,
            };
            // symbolic outcome: last model-calling operation
            let verifies = match &parsed {
                Ok(p) => vk.verify(&digest, p).is_ok(),
                Err(_) => false,
            };
            vcheck_all!(
                (parsed_ok && same, "[C01] Signature::from_bytes(pad48(r) || pad48(s)) gives back (r, s)"),
                (verifies, "[C01] the signature parsed back from its 96-byte form verifies under the signer's public key"),
            );
            // (leading-zero r / s are covered in sign_append_*: a second satisfiability search here costs 5 min)
            let _ = (rl, sl);
            core::mem::forget(parsed);
        }
        drop(vk);
    }
}

/// [C04]/[C08] Signature::from_bytes for every byte string of length L; what it accepts re-encodes to its input when both
/// halves have no leading zero byte; verify of a never-signed signature is Err and does not panic.
pub fn signature_from_bytes(L: usize) {
    let b: [u8; 98] = kani::any();
    let pk: [u8; 49] = kani::any();
    let digest: [u8; 48] = kani::any();
    let vk = VerifyingKey::from_sec1_bytes(&pk);
    let r = Signature::from_bytes(&b[..L]);
    match r {
        Ok(sig) => {
            let (rr, ss, rl, sl) = sig_rs(&sig);
            let mut out = Vec::with_capacity(100);
            let res = sig.append_to_vec(&mut out);
            let full = b[0] != 0 && b[48] != 0;
            let same_bytes = out.len() == 96 && out[..] == b[..96];
            let verified = match &vk {
                Ok(vk) => vk.verify(&digest, &sig).is_ok(),
                Err(_) => false,
            };
            vcheck_all!(
                (L == 96, "[C04] only exactly 96 bytes are accepted as a signature"),
                (L != 96 || (rr[..] == b[..48] && ss[..] == b[48..96]), "[C01] from_bytes reads r and s as the two 48-byte big-endian halves"),
                (!full || (res.is_ok() && same_bytes), "[C01] a parsed signature re-serialises to the same 96 bytes"),
                (!verified, "[C02] a signature that was never produced for this key and digest does not verify"),
            );
        }
        Err(e) => {
            vcheck_all!(
                (L != 96, "[C04] every 96-byte string parses as a signature (validity is decided by verify)"),
                (matches!(e, PE::CryptoError), "[C04] a wrong-length signature is reported as CryptoError"),
            );
        }
    }
    drop(vk);
    vassert!(ffi::live() == 0, "[C04] parsing / serialising / verifying a signature frees every aws-lc object exactly once");
}

// ---------------------------------------------------------------------------------------------- ECDH
/// [C05]/[C04] diffie_hellman is symmetric and 48 bytes; the identity as peer key is an error, never a panic.
pub fn dh_commutes() {
    let a: [u8; 48] = kani::any();
    let b: [u8; 48] = kani::any();
    kani::assume(conv::scalar_in_range(&a) && conv::scalar_in_range(&b));
    ffi::promise_scalars_in_range(true);
    let ka = SigningKey::from_sec1_bytes(&a);
    let kb = SigningKey::from_sec1_bytes(&b);
    let id = VerifyingKey::from_sec1_bytes(&[0u8]);
    if let (Ok(ka), Ok(kb)) = (&ka, &kb) {
        let ab = ka.diffie_hellman(&kb.verifying_key());
        let ba = kb.diffie_hellman(&ka.verifying_key());
        let with_id = match &id {
            Ok(id) => ka.diffie_hellman(id).is_err(),
            Err(_) => true,
        };
        vcheck_all!(
            (ab.is_ok() && ba.is_ok(), "[C05] ECDH between two valid keys succeeds"),
            (matches!((&ab, &ba), (Ok(x), Ok(y)) if x == y), "[C05] ECDH(a, B) == ECDH(b, A)"),
            (with_id, "[C04] ECDH with the identity as peer key is an error"),
        );
    }
    drop(ka);
    drop(kb);
    drop(id);
    vassert!(ffi::live() == 0, "[C04] diffie_hellman frees every aws-lc object exactly once");
}

// ---------------------------------------------------------------------------------------------- pointer wrappers
/// [C04] LcPtr / DetachableLcPtr / ConstPointer: NULL is refused, every owned object is freed exactly once, a detached
/// object is not freed by the wrapper, conversion Detachable -> Managed moves ownership.
pub fn ptr_wrappers() {
    let v: [u8; 8] = kani::any();
    unsafe {
        let e1 = LcPtr::<aws_lc::BIGNUM>::new(null_mut::<aws_lc::BIGNUM>()).is_err();
        let e2 = DetachableLcPtr::<aws_lc::BIGNUM>::new(null_mut::<aws_lc::BIGNUM>()).is_err();
        let e3 = ConstPointer::<aws_lc::EC_GROUP>::new_static(null()).is_err();
        let g = ConstPointer::new_static(EC_group_p384());
        vcheck_all!(
            (e1 && e2 && e3, "[C04] NULL is never wrapped as a valid pointer"),
            (g.is_ok(), "[C04] the static P-384 group is wrapped"),
        );
        // managed: freed on drop
        let mut m = LcPtr::new(BN_bin2bn(v.as_ptr(), 8, null_mut())).unwrap();
        let same = *m.as_const() == *m.as_mut() as *const _;
        let one = ffi::live() == 1;
        drop(m);
        let zero = ffi::live() == 0;
        // detachable, dropped: freed
        let d = DetachableLcPtr::new(BN_bin2bn(v.as_ptr(), 8, null_mut())).unwrap();
        drop(d);
        let zero2 = ffi::live() == 0;
        // detachable, detached: NOT freed by the wrapper; the raw pointer is still valid
        let d = DetachableLcPtr::new(BN_bin2bn(v.as_ptr(), 8, null_mut())).unwrap();
        let raw_before = *d;
        let raw = d.detach();
        let still = ffi::live() == 1 && raw == raw_before && BN_num_bytes(raw) <= 8;
        // detachable -> managed: ownership moves, freed once by the managed pointer
        let d = DetachableLcPtr::new(raw).unwrap();
        let m: LcPtr<aws_lc::BIGNUM> = d.into();
        let moved = ffi::live() == 1 && *m.as_const() == raw as *const _;
        drop(m);
        let zero3 = ffi::live() == 0;
        // project: NULL projection is an error (a key without private half)
        let mut key = LcPtr::new(EC_KEY_new()).unwrap();
        let no_priv = key.as_const().project(|k| unsafe { EC_KEY_get0_private_key(**k) }).is_err();
        let no_pub = key.as_const().project(|k| unsafe { EC_KEY_get0_public_key(**k) }).is_err();
        drop(key);
        vcheck_all!(
            (same, "[C04] as_const and as_mut expose the wrapped pointer"),
            (one && zero && zero2, "[C04] LcPtr and an undetached DetachableLcPtr free their object exactly once on drop"),
            (still, "[C04] detach() hands the object out alive and the wrapper does not free it"),
            (moved && zero3, "[C04] DetachableLcPtr -> LcPtr moves ownership: freed exactly once"),
            (no_priv && no_pub, "[C04] projecting a missing key component is an error, not a NULL ConstPointer"),
            (ffi::live() == 0, "[C04] nothing leaks"),
        );
    }
}

// ---------------------------------------------------------------------------------------------- allocation failure
/// [C04] any aws-lc allocation may fail (NULL): constructors return Err or a usable value; no panic, no double free, no
/// leak on any error path. (Clone uses unwrap/assert by design — "unable to clone signing key" — and is not in scope:
/// running out of memory aborts a Rust program in the same way.)
pub fn alloc_fail_signing_key() {
    let sk: [u8; 48] = kani::any();
    ffi::alloc_may_fail(true);
    let k = SigningKey::from_sec1_bytes(&sk);
    if let Ok(k) = &k {
        let e = k.encode();
        vassert!(e == sk, "[C08] a secret key constructed under memory pressure is still the decoded scalar");
    }
    kani::cover!(k.is_ok(), "constructed");
    kani::cover!(k.is_err(), "construction failed");
    drop(k);
    vassert!(ffi::live() == 0, "[C04] failed or successful secret key construction frees every aws-lc object exactly once");
}
pub fn alloc_fail_verifying_key() {
    let pk: [u8; 49] = kani::any();
    ffi::alloc_may_fail(true);
    let v = VerifyingKey::from_sec1_bytes(&pk);
    if let Ok(v) = &v {
        let e = v.compressed_pub_key();
        vassert!(e == pk, "[C08] a public key constructed under memory pressure is still the decoded point");
    }
    kani::cover!(v.is_ok(), "constructed");
    kani::cover!(v.is_err(), "construction failed");
    drop(v);
    vassert!(ffi::live() == 0, "[C04] failed or successful public key construction frees every aws-lc object exactly once");
}
pub fn alloc_fail_signature() {
    let sk: [u8; 48] = kani::any();
    kani::assume(conv::scalar_in_range(&sk));
    ffi::promise_scalars_in_range(true);
    let digest: [u8; 48] = kani::any();
    let b: [u8; 96] = kani::any();
    let k = SigningKey::from_sec1_bytes(&sk);
    if let Ok(k) = k {
        let vk = k.verifying_key();
        ffi::alloc_may_fail(true);
        let s1 = k.sign(&digest);
        let s2 = Signature::from_bytes(&b);
        let mut out = Vec::with_capacity(200);
        if let Ok(s) = &s1 {
            let _ = s.append_to_vec(&mut out);
            let _ = vk.verify(&digest, s);
        }
        if let Ok(s) = &s2 {
            let _ = s.append_to_vec(&mut out);
            let _ = vk.verify(&digest, s);
        }
        vassert!(out.len() % 96 == 0, "[C04] append_to_vec grows the vector by 0 or 96 bytes");
        kani::cover!(s1.is_ok() && s2.is_ok(), "both signatures constructed");
        kani::cover!(s1.is_err(), "sign failed");
        kani::cover!(s2.is_err(), "from_bytes failed");
        drop(s1);
        drop(s2);
        drop(vk);
        drop(k);
    }
    vassert!(ffi::live() == 0, "[C04] failed or successful sign / from_bytes / verify frees every aws-lc object exactly once");
}

/// canary: a false claim about the *inputs*, placed after every model assumption of key derivation, sign and verify has
/// been made. It must FAIL whatever the code does; if it verifies, the assumptions are contradictory (vacuity guard).
pub fn canary_lc() {
    let sk: [u8; 48] = kani::any();
    kani::assume(conv::scalar_in_range(&sk));
    ffi::promise_scalars_in_range(true);
    let digest: [u8; 48] = kani::any();
    if let Ok(k) = SigningKey::from_sec1_bytes(&sk) {
        let vk = k.verifying_key();
        if let Ok(sig) = k.sign(&digest) {
            let _ = vk.verify(&digest, &sig);
        }
    }
    vassert!(sk[47] != 0x5a || digest[0] != 0xa5, "canary: must fail (false claim about the symbolic inputs)");
}

macro_rules! inst {
    ($($name:ident = $f:ident($($g:literal),*);)*) => { $(
        #[kani::proof] #[kani::unwind(110)]
        #[kani::stub(core::result::Result::unwrap, unwrap_stub)]
        #[kani::stub(core::result::Result::expect, expect_stub)]
        pub fn $name() { $f($($g),*); kani::cover!(true, "harness end reachable"); }
    )* };
}
inst! {
    signing_key_codec_0 = signing_key_codec(0); signing_key_codec_1 = signing_key_codec(1); signing_key_codec_47 = signing_key_codec(47);
    signing_key_codec_48 = signing_key_codec(48); signing_key_codec_49 = signing_key_codec(49); signing_key_codec_66 = signing_key_codec(66);
    signing_key_clone_h = signing_key_clone(); verifying_key_of_h = verifying_key_of(); signing_key_reencode_h = signing_key_reencode();
    verifying_key_decode_0 = verifying_key_decode(0); verifying_key_decode_1 = verifying_key_decode(1); verifying_key_decode_2 = verifying_key_decode(2);
    verifying_key_decode_48 = verifying_key_decode(48); verifying_key_decode_49 = verifying_key_decode(49); verifying_key_decode_50 = verifying_key_decode(50);
    verifying_key_decode_96 = verifying_key_decode(96); verifying_key_decode_97 = verifying_key_decode(97); verifying_key_decode_98 = verifying_key_decode(98);
    sign_append_0 = sign_append(0); sign_append_3 = sign_append(3); sign_bytes_verify_h = sign_bytes_verify();
    signature_from_bytes_0 = signature_from_bytes(0); signature_from_bytes_95 = signature_from_bytes(95);
    signature_from_bytes_96 = signature_from_bytes(96); signature_from_bytes_97 = signature_from_bytes(97);
    dh_commutes_h = dh_commutes();
    ptr_wrappers_h = ptr_wrappers();
    alloc_fail_signing_key_h = alloc_fail_signing_key(); alloc_fail_verifying_key_h = alloc_fail_verifying_key();
    alloc_fail_signature_h = alloc_fail_signature();
    canary_lc_h = canary_lc();
}
// @@PLAYBACK@@
