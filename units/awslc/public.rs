// U7 (v3 over aws-lc, public purpose) — appended to paseto-v3-aws-lc/src/core/public.rs. Real crate incl. the real lc/ wrappers;
// aws-lc-sys (FFI) and aws-lc-rs (digest, rand) replaced by the assumed-contract models; pre_auth_encode replaced by its contract.
// Same obligation names and the same oracle (vspec::v3) as the RustCrypto sibling (units/v3/public.rs). Differences that follow
// from the backend: aws-lc signs with a random nonce (so "equals the deterministic signer's token" is not an obligation; "verifies
// under the specification" is), and keys can only be built through the decoder (no branch-free constructor).
use aws_lc_sys::conv;
use paseto_core::version::{SealingVersion, Secret, UnsealingVersion};
use paseto_core::PasetoError as PE;

const SIG: usize = 96;
const MX: usize = 4;
const TX: usize = MX + SIG;

fn any_scalar() -> [u8; 48] {
    let d: [u8; 48] = kani::any();
    kani::assume(conv::scalar_in_range(&d));
    d
}
/// Secret key of an in-range scalar through the stable decoder. The Err path ends the harness with a failed obligation, so no
/// symbolic Ok/Err value is merged in front of the code under test (README rule 3).
fn sk_of(d: &[u8; 48]) -> SecretKey {
    // `d` was assumed in range by the caller: the FFI model may assume it too instead of branching (concretely-Ok key)
    aws_lc_sys::model::promise_scalars_in_range(true);
    match <V3 as HasKey<Secret>>::decode(d) {
        Ok(k) => k,
        Err(e) => {
            core::mem::forget(e);
            vassert!(false, "[C08] every scalar in 1..n-1 is a valid secret key");
            kani::assume(false);
            panic!()
        }
    }
}
fn pk_bytes(k: &PublicKey) -> [u8; 49] {
    let e = <V3 as HasKey<Public>>::encode(k);
    let mut o = [0u8; 49];
    if e.len() == 49 {
        o.copy_from_slice(&e);
    }
    o
}
fn payload_of(msg: &[u8]) -> Vec<u8> {
    let mut p = Vec::with_capacity(msg.len() + SIG);
    p.extend_from_slice(msg);
    p
}

/// [C03] sign: message ‖ 96-byte signature that the specification's verifier accepts; [C01] always succeeds, fixed length
pub fn sign_is_spec(M: usize, F: usize, A: usize) {
    let T = M + SIG;
    let d = any_scalar();
    let msgb: [u8; MX] = kani::any();
    let msg = &msgb[..M];
    let fb: [u8; MX] = kani::any();
    let f = &fb[..F];
    let ab: [u8; MX] = kani::any();
    let a = &ab[..A];
    let sk = sk_of(&d);
    let pk = pk_bytes(&<V3 as SealingVersion<Public>>::unsealing_key(&sk));
    let pk_is_spec = pk == vspec::v3::p384_pk(&d);
    let r = <V3 as SealingVersion<Public>>::dangerous_seal_with_nonce(&sk, "", payload_of(msg), f, a);
    let ok = r.is_ok();
    let out = r.unwrap_or_default();
    let len_ok = out.len() == T;
    let verifies = len_ok && vspec::v3::public_verify(&pk, &out, b"", f, a) == Some(M);
    vcheck_all!(
        (pk_is_spec, "[C08] the public key derived from a secret key is the compressed P-384 point of its scalar"),
        (ok, "[C01] signing always succeeds (for every signature value the library can draw, r / s with leading zero bytes included)"),
        (!ok || len_ok, "[C01] signed payload length is |message| + 96"),
        (!ok || (len_ok && out[..M] == msg[..]), "[C03] the signed payload starts with the unmodified message"),
        (!ok || verifies, "[C03] the v3.public signature verifies under the specification (ECDSA-P384-SHA384 over PAE(pk, h, m, f, i), r||s)"),
    );
}

/// [C03]/[C01] verify accepts the specification's token (every r, s in 1..n-1, leading zero bytes included) and returns the message.
/// The specification has no low-S rule and ECDSA signatures come in twins (r, s) / (r, n - s) that verify together: BOTH forms are
/// specification-conforming (the RustCrypto sibling emits the low one, this backend emits s as drawn). `twin = false`: the token as
/// the specification's signer produces it (s0 any value in 1..n-1, low or high); `twin = true`: the same token with s = n - s0.
pub fn verify_accepts_spec(M: usize, F: usize, A: usize, twin: bool) {
    let T = M + SIG;
    let d = any_scalar();
    let msgb: [u8; MX] = kani::any();
    let msg = &msgb[..M];
    let fb: [u8; MX] = kani::any();
    let f = &fb[..F];
    let ab: [u8; MX] = kani::any();
    let a = &ab[..A];
    let mut tokb = [0u8; TX];
    let tok = &mut tokb[..T];
    vspec::v3::public_sign(&d, msg, b"", f, a, tok);
    if twin {
        let neg = vspec::v3::p384_neg_scalar(&tok[M + 48..]);
        tok[M + 48..].copy_from_slice(&neg);
    }
    // the verifier's key arrives as the 49 specified bytes (k3.public), through the stable decoder
    let pkb = vspec::v3::p384_pk(&d);
    let _honest = sk_of(&d); // the key pair was honestly generated: its point is on the curve (model assumption made at derivation)
    // The verifier's key is the one derived from the secret key; that it IS the 49 specified bytes is an obligation below, and
    // that those bytes decode to it is public_key_roundtrip_h. (Not through HasKey<Public>::decode here: since the D3 repair the
    // decoder returns early on the tag byte before the model's point-validity call, so the two paths of `decode` carry a
    // different number of memo entries and merge at its end — the memo-table size would be symbolic for the hash that follows;
    // README rule 3b. Measured: no verdict in 30 min.)
    let pk = <V3 as SealingVersion<Public>>::unsealing_key(&_honest);
    let pk_is_spec = pk_bytes(&pk) == pkb;
    let r = <V3 as UnsealingVersion<Public>>::unseal(&pk, "", tok, f, a);
    let ok = r.is_ok();
    let same = match r { Ok(m) => m == msg, Err(e) => { core::mem::forget(e); false } };
    vcheck_all!(
        (pk_is_spec, "[C08] the public key derived from a secret key is the compressed P-384 point of its scalar"),
        (ok, "[C03] every specification-conforming v3.public token is accepted under the signer's public key, whichever of the two forms (r, s) / (r, n - s) its signer emitted (the specification has no low-S rule)"),
        (!ok || same, "[C01] verify returns exactly the signed message"),
    );
    // (one instance only: the extra satisfiability search costs about 4 min)
    kani::cover!(M != 0 || twin || tok[M] == 0, "spec signature whose r has a leading zero byte explored (searched in the |m| = 0 instance)");
    // (that both a high-S and a low-S token are explored is witnessed by the covers of v3_public::verify_accepts_spec_*: same
    // specification functions; every extra satisfiability search costs minutes with this backend's FFI model)
}

/// [C01] library's own nonce() (empty for public), sign, verify with the derived key
pub fn roundtrip_own_nonce(M: usize, F: usize, A: usize) {
    let d = any_scalar();
    let msgb: [u8; MX] = kani::any();
    let msg = &msgb[..M];
    let fb: [u8; MX] = kani::any();
    let f = &fb[..F];
    let ab: [u8; MX] = kani::any();
    let a = &ab[..A];
    let n = <V3 as SealingVersion<Public>>::nonce();
    let n_ok = n.is_ok();
    let mut p = n.unwrap_or_default();
    let n_empty = p.is_empty() && vmodel_core::rng_draws() == 0;
    p.extend_from_slice(msg);
    let sk = sk_of(&d);
    let pk = <V3 as SealingVersion<Public>>::unsealing_key(&sk);
    let sealed = <V3 as SealingVersion<Public>>::dangerous_seal_with_nonce(&sk, "", p, f, a);
    let s_ok = sealed.is_ok();
    let mut tok = sealed.unwrap_or_default();
    let r = <V3 as UnsealingVersion<Public>>::unseal(&pk, "", &mut tok, f, a);
    let same = match r { Ok(m) => m == msg, Err(e) => { core::mem::forget(e); false } };
    vcheck_all!(
        (n_ok && n_empty, "[C01] the public purpose uses an empty nonce prefix"),
        (s_ok, "[C01] signing with the library's own randomness succeeds for every signature value it can draw"),
        (!s_ok || same, "[C01] sign, then verify with the derived public key, returns the original message"),
    );
}

/// [C02]/[C12] any single flipped bit of message or signature, any other public key, footer or assertion change => Err.
/// ECDSA malleability: the one other byte string that verifies for the same message is the twin (r, n - s0). It is never a
/// single-bit neighbour of (r, s0): n is odd, so s0 and n - s0 differ in bit 0, and they differ in nothing else only for
/// {s0, n - s0} = {(n-1)/2, (n+1)/2} = {..b9, ..ba}, which differ in two bits. The arithmetic is exact in the models, so the
/// solver decides this itself — no assumption is made here. (The twin as a whole is accepted: verify_accepts_spec_twin_*.)
pub fn verify_rejects_tamper(M: usize, F: usize, A: usize, OTHERKEY: bool) {
    let T = M + SIG;
    let d = any_scalar();
    let msgb: [u8; MX] = kani::any();
    let msg = &msgb[..M];
    let fb: [u8; MX] = kani::any();
    let f = &fb[..F];
    let ab: [u8; MX] = kani::any();
    let a = &ab[..A];
    let mut tokb = [0u8; TX];
    let tok = &mut tokb[..T];
    vspec::v3::public_sign(&d, msg, b"", f, a, tok);
    let mut pkb = vspec::v3::p384_pk(&d);
    let _honest = sk_of(&d); // the key pair was honestly generated: its point is on the curve
    let mut f2b = fb;
    let mut a2b = ab;
    let which: u8 = kani::any();
    let idx: usize = kani::any();
    let bit: u8 = kani::any();
    kani::assume(bit < 8);
    // "another key" is a separate harness instance (OTHERKEY, concrete): only there the key goes through the decoder, whose two
    // paths (tag byte rejected early / point-validity call made) merge with a different number of memo entries (README rule 3b)
    let pk = if OTHERKEY {
        kani::assume(idx < 49);
        pkb[idx] ^= 1 << bit;
        match <V3 as HasKey<Public>>::decode(&pkb) { Ok(k) => k, Err(e) => { core::mem::forget(e); return } }
    } else {
        match which {
            0 => { kani::assume(idx < T); tok[idx] ^= 1 << bit; }
            2 => { kani::assume(idx < F); f2b[idx] ^= 1 << bit; }
            _ => { kani::assume(which == 3 && idx < A); a2b[idx] ^= 1 << bit; }
        }
        <V3 as SealingVersion<Public>>::unsealing_key(&_honest)
    };
    let mut beforeb = [0u8; TX];
    beforeb[..T].copy_from_slice(tok);
    let r = <V3 as UnsealingVersion<Public>>::unseal(&pk, "", tok, &f2b[..F], &a2b[..A]);
    let rejected = r.is_err();
    let kind_ok = matches!(r, Err(PE::CryptoError));
    core::mem::forget(r);
    let untouched = tok[..] == beforeb[..T];
    vcheck_all!(
        (rejected, "[C02][C12] a signed token with any single flipped bit, changed footer/assertion or another key is rejected"),
        (!rejected || kind_ok, "[C12] a signature failure is CryptoError, whatever the message bytes"),
        (untouched, "[C12] verification never modifies the payload"),
    );
    kani::cover!(OTHERKEY || which == 0, "token bit flip explored");
    kani::cover!(!OTHERKEY || rejected, "other key explored");
}

/// [C02] bytes moved across the footer/assertion boundary are rejected
pub fn verify_rejects_boundary_shift(M: usize) {
    let T = M + SIG;
    let d = any_scalar();
    let msgb: [u8; MX] = kani::any();
    let msg = &msgb[..M];
    let fa: [u8; 2] = kani::any();
    let mut tokb = [0u8; TX];
    let tok = &mut tokb[..T];
    vspec::v3::public_sign(&d, msg, b"", &fa[..1], &fa[1..], tok);
    let pk = <V3 as SealingVersion<Public>>::unsealing_key(&sk_of(&d));
    let split: usize = kani::any();
    kani::assume(split <= 2 && split != 1);
    let r = <V3 as UnsealingVersion<Public>>::unseal(&pk, "", tok, &fa[..split], &fa[split..]);
    let rejected = r.is_err();
    core::mem::forget(r);
    vassert!(rejected, "[C02] bytes moved across the footer/assertion boundary are rejected");
}

/// [C02] a byte moved from the message into the footer (or back) is rejected
pub fn verify_rejects_message_shift() {
    let d = any_scalar();
    let mf: [u8; 3] = kani::any();
    let mut tokb = [0u8; TX];
    // signed with message = mf[..2], footer = mf[2..]
    vspec::v3::public_sign(&d, &mf[..2], b"", &mf[2..], &[], &mut tokb[..2 + SIG]);
    let pk = <V3 as SealingVersion<Public>>::unsealing_key(&sk_of(&d));
    // presented as message = mf[..1], footer = mf[1..], same signature
    let mut t2 = [0u8; TX];
    t2[0] = mf[0];
    t2[1..1 + SIG].copy_from_slice(&tokb[2..2 + SIG]);
    let r = <V3 as UnsealingVersion<Public>>::unseal(&pk, "", &mut t2[..1 + SIG], &mf[1..], &[]);
    let rejected = r.is_err();
    core::mem::forget(r);
    vassert!(rejected, "[C02] a byte moved across the message/footer boundary is rejected");
}

/// [C04]/[C12] every length class around the minimum (96): no panic; too short => InvalidToken
pub fn verify_short(L: usize) {
    let d = any_scalar();
    let pk = <V3 as SealingVersion<Public>>::unsealing_key(&sk_of(&d));
    let mut pb: [u8; TX] = kani::any();
    let f: [u8; 1] = kani::any();
    let r = <V3 as UnsealingVersion<Public>>::unseal(&pk, "", &mut pb[..L], &f, &[]);
    let (is_err, invalid, crypto) = (r.is_err(), matches!(r, Err(PE::InvalidToken)), matches!(r, Err(PE::CryptoError)));
    core::mem::forget(r);
    if L < SIG {
        vassert!(invalid, "[C12] a too-short payload is InvalidToken, independent of its bytes");
    } else {
        vcheck_all!(
            (is_err, "[C02] a payload that was never signed is rejected"),
            (crypto || invalid, "[C12] error kind for a full-length forged payload is CryptoError or InvalidToken"),
        );
    }
}

/// [C08]/[C10]/[C04] public key bytes of length N (concrete), contents symbolic
pub fn public_key_codec(N: usize) {
    let b: [u8; 100] = kani::any();
    let r = <V3 as HasKey<Public>>::decode(&b[..N]);
    match r {
        Ok(k) => {
            vcheck_all!(
                (N == 49, "[C10] only exactly 49 bytes are accepted as a v3 public key (k3.public is the compressed point)"),
                (N != 49 || b[0] == 2 || b[0] == 3, "[C08] a 49-byte public key must be a compressed point (tag 02 or 03)"),
                (!(N == 1 && b[0] == 0), "[C08] the identity point (SEC1 00, i.e. k3.public.AA) is rejected as a public key"),
            );
            // [C04] everything the decoder accepts can be re-encoded (first step of Display / id) and cloned without panic
            let e = <V3 as HasKey<Public>>::encode(&k);
            let c = k.clone();
            let e2 = <V3 as HasKey<Public>>::encode(&c);
            vcheck_all!(
                (e.len() == 49, "[C08] an accepted public key encodes to 49 bytes"),
                (e.len() == N && e[..] == b[..N], "[C08] accepted public key bytes re-encode to exactly the same bytes"),
                (e2[..] == e[..], "[C08] a cloned public key encodes identically"),
            );
        }
        Err(e) => {
            let kind = matches!(e, PE::InvalidKey);
            core::mem::forget(e);
            vcheck_all!(
                (kind, "[C10] rejected public key bytes are InvalidKey"),
            );
        }
    }
}
/// wrong lengths (everything except the three SEC1 lengths 1, 49, 97): rejected, InvalidKey, no panic
pub fn public_key_codec_other() {
    let b: [u8; 100] = kani::any();
    let n: usize = kani::any();
    kani::assume(n <= 100 && n != 1 && n != 49 && n != 97);
    let r = <V3 as HasKey<Public>>::decode(&b[..n]);
    let kind = matches!(r, Err(PE::InvalidKey));
    core::mem::forget(r);
    vassert!(kind, "[C10] public key bytes of any other length are rejected as InvalidKey");
    kani::cover!(n == 0); kani::cover!(n == 48); kani::cover!(n == 50); kani::cover!(n == 100);
}
/// [C08] decode . encode = id on keys derived from secret keys
pub fn public_key_roundtrip() {
    let d = any_scalar();
    let pk = <V3 as SealingVersion<Public>>::unsealing_key(&sk_of(&d));
    let e = <V3 as HasKey<Public>>::encode(&pk);
    let e_ok = e.len() == 49 && (e[0] == 2 || e[0] == 3);
    let r = <V3 as HasKey<Public>>::decode(&e);
    let ok = r.is_ok();
    let same = match &r { Ok(k) => <V3 as HasKey<Public>>::encode(k)[..] == e[..], Err(_) => false };
    core::mem::forget(r);
    vcheck_all!(
        (e_ok, "[C08] a derived public key encodes to a 49-byte compressed point"),
        (ok, "[C08] the encoding of a derived public key is accepted by the decoder"),
        (!ok || same, "[C08] decode after encode is the identity on public keys"),
    );
}
/// [C04]/[C08] the PASERK path of the identity encoding: KeyText(00) -> Key -> expose_key (what Display and id() call first)
pub fn public_key_paserk_identity() {
    let kt = paseto_core::paserk::KeyText::<V3, Public>::from_raw_bytes(&[0u8]);
    let k: Result<crate::PublicKey, PE> = kt.try_into();
    let accepted = k.is_ok();
    if let Ok(k) = &k {
        let t = k.expose_key(); // [C04] must not panic for an accepted key
        vassert!(t.as_raw_bytes().len() == 49, "[C08] an accepted public key serialises to 49 bytes");
    }
    core::mem::forget(k);
    // last: kani::assert assumes its condition afterwards and would hide the panic above
    vassert!(!accepted, "[C08] the PASERK k3.public.AA (identity point) is rejected");
}

/// [C08]/[C10]/[C04] secret key bytes: exactly 48 bytes, scalar in 1..n-1, byte-identical round trip, clone, public half
pub fn secret_key_codec48() {
    let b: [u8; 48] = kani::any();
    let valid = conv::scalar_in_range(&b);
    let spec_pk = vspec::v3::p384_pk(&b);
    let r = <V3 as HasKey<Secret>>::decode(&b);
    match r {
        Ok(k) => {
            let e = <V3 as HasKey<Secret>>::encode(&k);
            let c = k.clone();
            let e2 = <V3 as HasKey<Secret>>::encode(&c);
            let pk = pk_bytes(&<V3 as SealingVersion<Public>>::unsealing_key(&k));
            let pk2 = pk_bytes(&<V3 as SealingVersion<Public>>::unsealing_key(&c));
            vcheck_all!(
                (valid, "[C08] out-of-range scalars (0, >= n) are rejected"),
                (e.len() == 48 && e[..] == b[..], "[C08] decode then encode is the identity on secret keys"),
                (e2[..] == e[..] && pk2 == pk, "[C08] a cloned secret key has the same scalar and public key"),
                (pk == spec_pk, "[C08] the public key of a secret key is the P-384 point of its scalar"),
            );
        }
        Err(e) => {
            let kind = matches!(e, PE::InvalidKey);
            core::mem::forget(e);
            vcheck_all!(
                (!valid, "[C08] every scalar in 1..n-1 is a valid secret key"),
                (kind, "[C10] rejected secret key bytes are InvalidKey"),
            );
        }
    }
    kani::cover!(valid); kani::cover!(!valid);
}
pub fn secret_key_codec_other() {
    let b: [u8; 100] = kani::any();
    let n: usize = kani::any();
    kani::assume(n <= 100 && n != 48);
    let r = <V3 as HasKey<Secret>>::decode(&b[..n]);
    let kind = matches!(r, Err(PE::InvalidKey));
    core::mem::forget(r);
    vassert!(kind, "[C10] secret key bytes of any length other than 48 are rejected as InvalidKey");
    kani::cover!(n == 0); kani::cover!(n == 47); kani::cover!(n == 49); kani::cover!(n == 97);
}

/// [C16] key generation: RNG failure at any draw => Err(CryptoError); the key is exactly the last 48 drawn bytes, in range;
/// an out-of-range draw is retried (rejection sampling), never reported as an error.
pub fn secret_key_random() {
    vmodel_core::rng_may_fail(true);
    let r = <V3 as SealingVersion<Public>>::random();
    let all_ok = vmodel_core::rng_all_ok();
    let draws = vmodel_core::rng_draws();
    match r {
        Ok(k) => {
            let e = <V3 as HasKey<Secret>>::encode(&k);
            let mut kb = [0u8; 48];
            if e.len() == 48 { kb.copy_from_slice(&e); }
            let last = vmodel_core::rng_draw(if draws >= 1 { draws - 1 } else { 0 });
            let first = vmodel_core::rng_draw(0);
            let mut fb = [0u8; 48];
            fb.copy_from_slice(&first.bytes[..48]);
            vcheck_all!(
                (all_ok, "[C16] key generation succeeds only when every RNG draw succeeded"),
                (draws >= 1 && draws <= 2 && last.len == 48 && e.len() == 48 && kb[..] == last.bytes[..48], "[C16] the generated secret scalar is exactly the 48 bytes of this call's last RNG draw"),
                (conv::scalar_in_range(&kb), "[C08] a generated secret key is a scalar in 1..n-1"),
                (draws == 1 || !conv::scalar_in_range(&fb), "[C16] a second draw happens only when the first one was out of range"),
            );
        }
        Err(e) => {
            let kind = matches!(e, PE::CryptoError);
            core::mem::forget(e);
            vcheck_all!(
                (!all_ok, "[C16] key generation fails only when the RNG failed (an out-of-range draw is retried, not reported)"),
                (kind, "[C16] RNG failure is reported as CryptoError"),
            );
        }
    }
    kani::cover!(all_ok && draws == 1, "first draw accepted");
    kani::cover!(!all_ok);
}

/// canary: a false claim about the *inputs*, placed after every model assumption of a full sign + verify has been made.
pub fn canary_wrong_aad(M: usize) {
    let T = M + SIG;
    let d = any_scalar();
    let msgb: [u8; MX] = kani::any();
    let msg = &msgb[..M];
    let mut tokb = [0u8; TX];
    let tok = &mut tokb[..T];
    vspec::v3::public_sign(&d, msg, b"", &[], &[7], tok);
    let sk = sk_of(&d);
    let pk = <V3 as SealingVersion<Public>>::unsealing_key(&sk);
    let s = <V3 as SealingVersion<Public>>::dangerous_seal_with_nonce(&sk, "", payload_of(msg), &[], &[7]);
    core::mem::forget(s);
    let r = <V3 as UnsealingVersion<Public>>::unseal(&pk, "", tok, &[], &[7]);
    core::mem::forget(r);
    vassert!(d[0] != 0x5a || msgb[0] != 0xa5, "canary: must fail (false claim about the symbolic inputs)");
}

macro_rules! inst {
    ($($name:ident = $f:ident($($g:literal),*);)*) => { $(
        #[kani::proof] #[kani::unwind(180)]
        #[kani::stub(paseto_core::pae::pre_auth_encode, pae_contract)]
        #[kani::stub(core::result::Result::unwrap, unwrap_stub)]
        #[kani::stub(core::result::Result::expect, expect_stub)]
        pub fn $name() { $f($($g),*); kani::cover!(true, "harness end reachable"); }
    )* };
}
inst! {
    sign_is_spec_0_0_0 = sign_is_spec(0, 0, 0);
    sign_is_spec_3_2_1 = sign_is_spec(3, 2, 1);
    verify_accepts_spec_0_0_0 = verify_accepts_spec(0, 0, 0, false);
    verify_accepts_spec_3_2_1 = verify_accepts_spec(3, 2, 1, false);
    verify_accepts_spec_twin_0_0_0 = verify_accepts_spec(0, 0, 0, true);
    verify_accepts_spec_twin_3_2_1 = verify_accepts_spec(3, 2, 1, true);
    roundtrip_own_nonce_0_0_0 = roundtrip_own_nonce(0, 0, 0);
    roundtrip_own_nonce_1_1_1 = roundtrip_own_nonce(1, 1, 1);
    verify_rejects_tamper_0_0_0 = verify_rejects_tamper(0, 0, 0, false);
    verify_rejects_tamper_1_1_1 = verify_rejects_tamper(1, 1, 1, false);
    verify_rejects_other_key_0_0_0 = verify_rejects_tamper(0, 0, 0, true);
    verify_rejects_boundary_shift_1 = verify_rejects_boundary_shift(1);
    verify_rejects_message_shift_h = verify_rejects_message_shift();
    verify_short_0 = verify_short(0); verify_short_95 = verify_short(95); verify_short_96 = verify_short(96); verify_short_98 = verify_short(98);
    canary_wrong_aad_1 = canary_wrong_aad(1);
}
macro_rules! plain {
    ($($name:ident = $f:ident($($g:literal),*);)*) => { $(
        #[kani::proof] #[kani::unwind(110)]
        #[kani::stub(core::result::Result::unwrap, unwrap_stub)]
        #[kani::stub(core::result::Result::expect, expect_stub)]
        pub fn $name() { $f($($g),*); kani::cover!(true, "harness end reachable"); }
    )* };
}
plain! {
    public_key_codec_49 = public_key_codec(49);
    public_key_codec_97 = public_key_codec(97);
    public_key_codec_1 = public_key_codec(1);
    public_key_codec_h = public_key_codec_other();
    public_key_roundtrip_h = public_key_roundtrip();
    public_key_paserk_identity_h = public_key_paserk_identity();
    secret_key_codec_48 = secret_key_codec48();
    secret_key_codec_h = secret_key_codec_other();
    secret_key_random_h = secret_key_random();
}
// @@PLAYBACK@@
