// U8 (v3 over aws-lc, PASERK PIE wrap k3.local-wrap.pie / k3.secret-wrap.pie) — appended to paseto-v3-aws-lc/src/core/pie_wrap.rs.
// Real crate; aws-lc-rs (hmac, cipher, rand, constant_time) replaced by the assumed-contract model. Oracle: vspec::v3::pie_wrap.
use paseto_core::PasetoError as PE;
const KX: usize = 48; // longest wrapped key (secret key = 48-byte scalar); local = 32
const FIX: usize = 80; // tag(48) + nonce(32)
const BX: usize = FIX + KX;

fn header(KL: usize) -> &'static str { if KL == 32 { ".local-wrap.pie." } else { ".secret-wrap.pie." } }
fn other_header(KL: usize) -> &'static str { if KL == 32 { ".secret-wrap.pie." } else { ".local-wrap.pie." } }

/// [C07] pie_wrap_key == spec for the nonce it drew; [C05] fixed length; [C16] one fresh 32-byte draw, embedded
pub fn wrap_is_spec(KL: usize) {
    let wk: [u8; 32] = kani::any();
    let kb: [u8; KX] = kani::any();
    let ptk = &kb[..KL];
    vmodel_core::rng_may_fail(false);
    let pre = vmodel_core::rng_preview(0);
    let mut n = [0u8; 32];
    n.copy_from_slice(&pre[..32]);
    let mut specb = [0u8; BX];
    let spec = &mut specb[..FIX + KL];
    vspec::v3::pie_wrap(header(KL).as_bytes(), &wk, &n, ptk, spec);
    let r = <V3 as PieWrapVersion>::pie_wrap_key(header(KL), &LocalKey(wk), ptk.to_vec());
    let ok = r.is_ok();
    let out = r.unwrap_or_default();
    vcheck_all!(
        (ok, "[C05] PIE wrapping always succeeds"),
        (!ok || out.len() == FIX + KL, "[C05] PIE blob has the fixed length 48 (tag) + 32 (nonce) + |key|"),
        (vmodel_core::rng_draws() == 1 && vmodel_core::rng_draw(0).len == 32, "[C16] PIE wrap draws exactly one fresh 32-byte nonce"),
        (!ok || out[..] == spec[..], "[C07] PIE wrap output equals the PASERK specification's blob for the nonce it embeds (incl. the full-width CTR counter)"),
    );
}

/// [C07]/[C05] pie_unwrap_key accepts the specification's blob and returns the wrapped key
pub fn unwrap_accepts_spec(KL: usize) {
    let wk: [u8; 32] = kani::any();
    let kb: [u8; KX] = kani::any();
    let ptk = &kb[..KL];
    let n: [u8; 32] = kani::any();
    let mut blobb = [0u8; BX];
    let blob = &mut blobb[..FIX + KL];
    vspec::v3::pie_wrap(header(KL).as_bytes(), &wk, &n, ptk, blob);
    let r = <V3 as PieWrapVersion>::pie_unwrap_key(header(KL), &LocalKey(wk), blob);
    let ok = r.is_ok();
    let same = match r { Ok(k) => k == ptk, Err(_) => false };
    vcheck_all!(
        (ok, "[C07] every specification-conforming PIE blob unwraps"),
        (!ok || same, "[C05] unwrapping returns exactly the wrapped key bytes"),
    );
}

/// [C05] wrap with the library's own randomness, then unwrap
pub fn roundtrip(KL: usize) {
    let wk: [u8; 32] = kani::any();
    let kb: [u8; KX] = kani::any();
    let ptk = &kb[..KL];
    vmodel_core::rng_may_fail(false);
    let r = <V3 as PieWrapVersion>::pie_wrap_key(header(KL), &LocalKey(wk), ptk.to_vec());
    let ok = r.is_ok();
    let mut blob = r.unwrap_or_default();
    let r2 = <V3 as PieWrapVersion>::pie_unwrap_key(header(KL), &LocalKey(wk), &mut blob);
    let same = match r2 { Ok(k) => k == ptk, Err(_) => false };
    vcheck_all!(
        (ok, "[C05] PIE wrapping always succeeds"),
        (!ok || same, "[C05] PIE wrap then unwrap returns the original key"),
    );
}

/// [C06] any flipped bit (tag, nonce, ciphertext), another wrapping key, or a relabelled header => Err, buffer untouched
pub fn unwrap_rejects_tamper(KL: usize, RELABEL: bool) {
    let wk: [u8; 32] = kani::any();
    let kb: [u8; KX] = kani::any();
    let ptk = &kb[..KL];
    let n: [u8; 32] = kani::any();
    let mut blobb = [0u8; BX];
    let blob = &mut blobb[..FIX + KL];
    vspec::v3::pie_wrap(header(KL).as_bytes(), &wk, &n, ptk, blob);
    let mut wk2 = wk;
    let which: u8 = kani::any();
    let idx: usize = kani::any();
    let bit: u8 = kani::any();
    kani::assume(bit < 8);
    // the relabelled header has another length: a concrete choice per harness instance (README rule 1), not a symbolic one
    let h = if RELABEL { other_header(KL) } else { header(KL) };
    if !RELABEL {
        match which {
            0 => { kani::assume(idx < FIX + KL); blob[idx] ^= 1 << bit; }
            _ => { kani::assume(which == 1 && idx < 32); wk2[idx] ^= 1 << bit; }
        }
    }
    // ASSUMPTION (stated in the unit): k3 PIE keeps only Ak[0:32] of the 48-byte HMAC. vmodel-core's ideal MAC says that two
    // different (key, message) inputs give 48-byte outputs that differ SOMEWHERE; for the "other wrapping key" case the
    // truncated halves have to differ as well: HMAC-SHA384 truncated to 256 bits is assumed collision-free too.
    // (unconditional model calls: the number of memo-table entries must not depend on symbolic data)
    let (_, _, ak) = vspec::v3::pie_keys(&wk, &n);
    let (_, _, ak2) = vspec::v3::pie_keys(&wk2, &n);
    kani::assume(which != 1 || ak != ak2);
    let mut beforeb = [0u8; BX];
    beforeb[..FIX + KL].copy_from_slice(blob);
    let r = <V3 as PieWrapVersion>::pie_unwrap_key(h, &LocalKey(wk2), blob);
    let rejected = r.is_err();
    let kind_ok = matches!(r, Err(PE::CryptoError));
    let untouched = blob[..] == beforeb[..FIX + KL];
    vcheck_all!(
        (rejected, "[C06] a PIE blob with any flipped bit, another wrapping key or a relabelled header is rejected"),
        (!rejected || kind_ok, "[C06] an authentication failure of a wrapped key is CryptoError"),
        (!rejected || untouched, "[C06] the wrapped key is not decrypted before authentication succeeds"),
    );
    kani::cover!(RELABEL || which == 0, "blob bit flip explored"); kani::cover!(RELABEL || which == 1, "other wrapping key explored");
}

/// [C04] blobs of every length class: no panic; shorter than tag+nonce => InvalidKey
pub fn unwrap_short(L: usize) {
    let wk: [u8; 32] = kani::any();
    let mut b: [u8; BX + 2] = kani::any();
    let r = <V3 as PieWrapVersion>::pie_unwrap_key(".local-wrap.pie.", &LocalKey(wk), &mut b[..L]);
    if L < FIX {
        vassert!(matches!(r, Err(PE::InvalidKey)), "[C04] a too-short PIE blob is InvalidKey");
    } else {
        vassert!(matches!(r, Err(PE::CryptoError)) || r.is_ok(), "[C06] a full-length PIE blob fails only with CryptoError");
    }
}

/// [C16] RNG failure => Err(CryptoError), no blob
pub fn wrap_fail_closed() {
    let wk: [u8; 32] = kani::any();
    let kb: [u8; 32] = kani::any();
    vmodel_core::rng_may_fail(true);
    let r = <V3 as PieWrapVersion>::pie_wrap_key(".local-wrap.pie.", &LocalKey(wk), kb.to_vec());
    let all_ok = vmodel_core::rng_all_ok();
    match r {
        Ok(_) => vassert!(all_ok, "[C16] PIE wrap succeeds only when every RNG draw succeeded"),
        Err(e) => vcheck_all!(
            (!all_ok, "[C16] PIE wrap fails only when the RNG failed"),
            (matches!(e, PE::CryptoError), "[C16] RNG failure is reported as CryptoError"),
        ),
    }
    kani::cover!(all_ok); kani::cover!(!all_ok);
}

pub fn canary_inputs() {
    let wk: [u8; 32] = kani::any();
    let kb: [u8; 32] = kani::any();
    vmodel_core::rng_may_fail(false);
    let mut blob = <V3 as PieWrapVersion>::pie_wrap_key(".local-wrap.pie.", &LocalKey(wk), kb.to_vec()).unwrap_or_default();
    let _ = <V3 as PieWrapVersion>::pie_unwrap_key(".local-wrap.pie.", &LocalKey(wk), &mut blob);
    vassert!(wk[0] != 0x5a || kb[31] != 0xa5, "canary: must fail (false claim about the symbolic inputs)");
}

macro_rules! inst {
    ($($name:ident = $f:ident($($g:literal),*);)*) => { $(
        #[kani::proof] #[kani::unwind(180)]
        pub fn $name() { $f($($g),*); kani::cover!(true, "harness end reachable"); }
    )* };
}
inst! {
    wrap_is_spec_32 = wrap_is_spec(32); wrap_is_spec_48 = wrap_is_spec(48);
    unwrap_accepts_spec_32 = unwrap_accepts_spec(32); unwrap_accepts_spec_48 = unwrap_accepts_spec(48);
    roundtrip_32 = roundtrip(32); roundtrip_48 = roundtrip(48);
    unwrap_rejects_tamper_32 = unwrap_rejects_tamper(32, false); unwrap_rejects_tamper_48 = unwrap_rejects_tamper(48, false);
    unwrap_rejects_relabel_32 = unwrap_rejects_tamper(32, true); unwrap_rejects_relabel_48 = unwrap_rejects_tamper(48, true);
    unwrap_short_0 = unwrap_short(0); unwrap_short_47 = unwrap_short(47); unwrap_short_48 = unwrap_short(48); unwrap_short_79 = unwrap_short(79);
    unwrap_short_80 = unwrap_short(80); unwrap_short_113 = unwrap_short(113);
    wrap_fail_closed_h = wrap_fail_closed();
    canary_inputs_h = canary_inputs();
}
// @@PLAYBACK@@
