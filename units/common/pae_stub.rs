/// Contract of `paseto_core::pae::pre_auth_encode`, proved separately in unit u1_pae for every N <= 8, every
/// fragmentation into <= 4 fragments and ALL fragment lengths; backend harnesses replace the callee by this contract
/// (`#[kani::stub(paseto_core::pae::pre_auth_encode, verif::pae_contract)]`) — a caller is checked against the callee's
/// contract, not its body. (The body's slice-iterator loops are not constant-foldable by CBMC and would be unrolled to
/// the harness-wide unwind bound: >25 min per harness, DESIGN.md section 3.)
pub fn pae_contract<const N: usize>(pieces: [&[&[u8]]; N], mut out: impl paseto_core::pae::WriteBytes) {
    out.write(&(N as u64).to_le_bytes());
    let mut i = 0;
    while i < N {
        let piece = pieces[i];
        let mut total: u64 = 0;
        let mut j = 0;
        while j < piece.len() {
            total += piece[j].len() as u64;
            j += 1;
        }
        out.write(&total.to_le_bytes());
        let mut j = 0;
        while j < piece.len() {
            out.write(piece[j]);
            j += 1;
        }
        i += 1;
    }
}

// Kani's assert! override does not reach #![no_std] crates (messages become a placeholder): use kani::assert directly.
macro_rules! vassert { ($c:expr) => { kani::assert($c, stringify!($c)) }; ($c:expr, $m:literal) => { kani::assert($c, $m) }; }

/// Check several obligations *independently*: kani::assert assumes its condition afterwards, so a failing first
/// obligation would make the later ones vacuous. A nondeterministic selector puts each on its own path.
macro_rules! vcheck_all {
    ($( ($c:expr, $m:literal) ),+ $(,)?) => {{
        let conds = [$($c),+];
        let sel: u8 = kani::any();
        let mut k = 0u8;
        $( if sel == k { kani::assert(conds[k as usize], $m); } k += 1; )+
        let _ = k;
    }};
}
