import re
from vrf.core import Unit, Harness, Undecided

E = "paseto-core/src/encodings.rs"
BACKENDS = [("V1", "paseto-v1"), ("V2", "paseto-v2"), ("V3", "paseto-v3"), ("V3B", "paseto-v3-aws-lc"), ("V4", "paseto-v4"), ("V4B", "paseto-v4-sodium")]


def extract_headers(ws):
    """Mechanically extract HEADER / PASERK_HEADER from each backend's `impl Version for ...` block (trait default for
    PASERK_HEADER is read from paseto-core/src/version.rs). Result is appended to the harness as module `vconsts`."""
    core = (ws / "paseto-core/src/version.rs").read_text()
    m = re.search(r'const\s+PASERK_HEADER\s*:\s*&\'static\s+str\s*=\s*"([^"]*)"', core)
    default_k = m.group(1) if m else None
    out = ["pub mod vconsts {"]
    for name, crate in BACKENDS:
        f = ws / crate / "src/core/mod.rs"
        if not f.exists():
            raise Undecided(f"anchor lost: {crate}/src/core/mod.rs")
        t = f.read_text()
        b = re.search(r"impl\s+(?:[\w:]+::)?Version\s+for\s+\w+\s*\{(.*?)\n\}", t, flags=re.S)
        if not b:
            raise Undecided(f"anchor lost: impl Version in {crate}/src/core/mod.rs")
        h = re.search(r'const\s+HEADER\s*:\s*&\'static\s+str\s*=\s*"([^"]*)"', b.group(1))
        k = re.search(r'const\s+PASERK_HEADER\s*:\s*&\'static\s+str\s*=\s*"([^"]*)"', b.group(1))
        if not h:
            raise Undecided(f"anchor lost: HEADER constant in {crate}")
        kv = k.group(1) if k else default_k
        if kv is None:
            raise Undecided(f"no PASERK_HEADER for {crate} and no trait default")
        out.append(f'    pub const {name}: (&str, &str) = ("{h.group(1)}", "{kv}"); // extracted from {crate}/src/core/mod.rs')
    out.append("}")
    f = ws / E
    t = f.read_text()
    t = t.replace("// @@VCONSTS@@", "\n".join(out))
    f.write_text(t)


def unit():
    fn = [f"{E}::<SealedToken as Display>::fmt", f"{E}::<SealedToken as FromStr>::from_str",
          "paseto-core/src/paserk/plaintext.rs::KeyText::{fmt,from_str}", "paseto-core/src/paserk/id.rs::KeyId::{fmt,from_str,eq,cmp}",
          "paseto-core/src/paserk/pie_wrap.rs::PieWrappedKey::{fmt,from_str}", "paseto-core/src/paserk/pw_wrap.rs::PasswordWrappedKey::{fmt,from_str}",
          "paseto-core/src/paserk/pke.rs::SealedKey::{fmt,from_str}", "paseto-core/src/key.rs::KeyType::{HEADER,ID_HEADER}", "*/src/core/mod.rs::impl Version (constants extracted)"]
    hs = []
    exacts = ["exact_keytext_local_v4_4", "exact_keytext_public_v4_3", "exact_keytext_secret_v4_6", "exact_keytext_local_v1_7", "exact_keytext_secret_v3_2",
              "exact_pie_local_v4_4", "exact_pie_secret_v2_3", "exact_pw_local_v4_4", "exact_pw_secret_v3_2", "exact_seal_v4_4", "exact_seal_v1_3",
              "exact_keyid_lid_v4_44", "exact_keyid_sid_v4_43", "exact_keyid_pid_v3_45", "exact_keyid_lid_v4_4"]
    for n in exacts:
        props = ["C09", "C04"] + (["C13"] if "keyid" in n else [])
        hs.append(Harness(n, props, complete=False, bound=f"own header + all ASCII bodies of length {n.rsplit('_', 1)[1]}", functions=fn, timeout=1500,
                          tier="quick" if n in ("exact_keytext_local_v4_4", "exact_keytext_secret_v4_6", "exact_pie_local_v4_4", "exact_pw_local_v4_4", "exact_seal_v4_4", "exact_keyid_lid_v4_44", "exact_keyid_lid_v4_4") else "thorough",
                          desc="accepted => Display gives back exactly the string (real base64 code)"))
    for n in ["binding_keytext_local_v4", "binding_keytext_public_v1", "binding_keytext_secret_v3", "binding_keyid_lid_v4", "binding_keyid_sid_v2", "binding_keyid_pid_v3",
              "binding_pie_local_v4", "binding_pie_secret_v4", "binding_pw_local_v4", "binding_pw_secret_v4", "binding_seal_v4"]:
        hs.append(Harness(n, ["C10", "C09", "C04"], complete=False, bound="all ASCII strings of one length (header + 3 characters)", functions=fn, timeout=1500,
                          tier="quick" if n in ("binding_keytext_local_v4", "binding_keytext_public_v1", "binding_keyid_lid_v4", "binding_pie_secret_v4", "binding_pw_local_v4", "binding_seal_v4") else "thorough",
                          desc="accepted => starts with own version+kind header; body is the whole remainder (base64 decoder by contract)"))
    hs.append(Harness("token_parse_concrete", ["C09", "C10", "C01", "C04"], complete=False, bound="12 concrete token strings (bounded stand-in, not a proof)", functions=fn,
                      desc="token FromStr structure on concrete strings: first-dot split, trailing dot, extra segments, foreign headers, padding"))
    hs.append(Harness("paserk_cross_kind_concrete", ["C10", "C04"], complete=False, tier="thorough", bound="16 concrete PASERK strings x foreign parsers (bounded stand-in, not a proof)", functions=fn,
                      desc="a well-formed k4 string of one kind is rejected by the parsers of the other kinds (plaintext vs wrap.pie vs pw vs seal vs id), concrete strings"))
    for n in ["token_display_local_4_3", "token_display_public_2_0", "token_display_local_0_1"]:
        hs.append(Harness(n, ["C09", "C01"], complete=False, bound="payload/footer lengths as named; contents symbolic", functions=fn, timeout=1500,
                          tier="quick" if n == "token_display_local_4_3" else "thorough",
                          desc="token Display == header || b64(payload) [. b64(footer)]"))
    hs.append(Harness("keyid_eq_ord_hash_agree_with_bytes", ["C13"], functions=fn, timeout=900, path="paserk::id::verif",
                      desc="Eq / Ord / Hash / Clone of KeyId agree with its 33 bytes, for all pairs of ids (loop bound 33: complete)"))
    hs.append(Harness("header_table_prefix_free", ["C10"], functions=fn, desc="52-entry header table: no entry is a prefix of another (exhaustive over the constants)"))
    hs.append(Harness("sibling_headers_agree", ["C10", "C03", "C07"], functions=fn))
    hs.append(Harness("kind_constants_are_spec", ["C13", "C10", "C07"], functions=["paseto-core/src/key.rs::KeyType/SealingKey constants"], desc="every kind / id / wrap header constant equals the PASERK specification's string"))
    hs.append(Harness("canary_text", ["C09", "C10"], expect="fail"))
    return Unit(
        name="u3_text", members=["paseto-core"], package="paseto-core",
        inject=[("paseto-core/src/base64.rs", "units/u2_base64/harness.rs"), (E, "units/u3_text/harness.rs"), ("paseto-core/src/paserk/id.rs", "units/u3_text/keyid.rs")], quick_cap=26, harness_path="encodings::verif", allow_unsafe=True,
        contracts="units/u2_base64/contracts.json",
        kani_flags=["-Z", "function-contracts", "-Z", "stubbing", "--no-assertion-reach-checks"], harnesses=hs, pre_build=extract_headers,
        assumptions=["strings are ASCII (non-ASCII bytes are covered at the base64 layer, unit u2_base64, which treats bytes individually)"],
        trusted=["core::fmt::write / Formatter plumbing, core::str::{strip_prefix, split_once} as compiled by Kani"],
    )
