// U3 (key ids) — appended to paseto-core/src/paserk/id.rs: equality, ordering and hashing of KeyId agree with its 33 bytes,
// for ALL pairs of ids (constructed directly; the text form is covered by exact_keyid_* in encodings.rs).
macro_rules! vcheck_all {
    ($( ($c:expr, $m:literal) ),+ $(,)?) => {{
        let conds = [$($c),+];
        let sel: u8 = kani::any();
        let mut k = 0u8;
        $( if sel == k { kani::assert(conds[k as usize], $m); } k += 1; )+
        let _ = k;
    }};
}
pub struct MV;
impl Version for MV { const HEADER: &'static str = "v4"; const PASERK_HEADER: &'static str = "k4"; }
impl IdVersion for MV { fn hash_key(_h: &'static str, _d: &[u8]) -> [u8; 33] { [0; 33] } }
/// a recording hasher: keeps the bytes it is fed (no arithmetic, so the solver only compares bytes)
struct H([u8; 48], usize);
impl core::hash::Hasher for H {
    fn finish(&self) -> u64 { self.1 as u64 }
    fn write(&mut self, b: &[u8]) { let mut i = 0; while i < b.len() { if self.1 + i < 48 { self.0[self.1 + i] = b[i]; } i += 1; } self.1 += b.len(); }
}
#[kani::proof] #[kani::unwind(50)]
pub fn keyid_eq_ord_hash_agree_with_bytes() {
    use core::hash::{Hash, Hasher};
    let a: [u8; 33] = kani::any();
    let b: [u8; 33] = kani::any();
    let ka = KeyId::<MV, crate::version::Local> { id: a, _key: PhantomData };
    let kb = KeyId::<MV, crate::version::Local> { id: b, _key: PhantomData };
    let (mut ha, mut hb, mut hr) = (H([0; 48], 0), H([0; 48], 0), H([0; 48], 0));
    ka.hash(&mut ha); kb.hash(&mut hb); a.hash(&mut hr);
    let kc = ka; // Copy / Clone
    vcheck_all!(
        (ka.as_bytes() == &a, "[C13] as_bytes returns the 33 id bytes"),
        ((ka == kb) == (a == b), "[C13] key id equality agrees with its bytes"),
        (ka.cmp(&kb) == a.cmp(&b) && ka.partial_cmp(&kb) == Some(a.cmp(&b)), "[C13] key id ordering agrees with its bytes"),
        (ha.0 == hr.0 && ha.1 == hr.1, "[C13] key id hashing feeds the hasher exactly what hashing its 33 bytes feeds it"),
        (a != b || (ha.0 == hb.0 && ha.1 == hb.1), "[C13] equal ids hash equally"),
        (kc.clone().id == a, "[C13] clone/copy of a key id keeps its bytes"),
    );
    kani::cover!(a == b); kani::cover!(a != b);
}
// @@PLAYBACK@@
