// U7 (v2, local purpose) — appended to paseto-v2/src/core/local.rs. Real crate; blake2, chacha20, chacha20poly1305, getrandom
// replaced by assumed-contract models; pre_auth_encode replaced by its contract.
use paseto_core::version::{SealingVersion, UnsealingVersion};
use paseto_core::PasetoError as PE;

const TAG: usize = 16;
const NONCE: usize = 24;
const MX: usize = 4;
const TX: usize = NONCE + MX + TAG;

fn payload_of(nonce: &[u8], msg: &[u8]) -> Vec<u8> {
    let mut p = Vec::with_capacity(nonce.len() + msg.len() + TAG);
    p.extend_from_slice(nonce);
    p.extend_from_slice(msg);
    p
}

/// [C03] dangerous_seal_with_nonce(b || m) == spec token for the random bytes b (synthetic nonce = BLAKE2b(m, key = b)); [C01] length
pub fn seal_is_spec(M: usize, F: usize) {
    let T = NONCE + M + TAG;
    let key: [u8; 32] = kani::any();
    let b: [u8; 24] = kani::any();
    let msgb: [u8; MX] = kani::any();
    let msg = &msgb[..M];
    let fb: [u8; MX] = kani::any();
    let f = &fb[..F];
    let mut specb = [0u8; TX];
    let spec = &mut specb[..T];
    vspec::v2::local_encrypt(&key, &b, msg, b"", f, spec);
    let r = <V2 as SealingVersion<Local>>::dangerous_seal_with_nonce(&LocalKey(key), "", payload_of(&b, msg), f, &[]);
    let ok = r.is_ok();
    let out = r.unwrap_or_default();
    vcheck_all!(
        (ok, "[C01] sealing with a 24-byte nonce seed always succeeds"),
        (!ok || out.len() == T, "[C01] sealed payload length is 24 (nonce) + |message| + 16 (tag)"),
        (!ok || out[..] == spec[..], "[C03] v2.local seal output equals the specification's token (nonce = BLAKE2b-24(message, key = random bytes))"),
    );
}

/// [C03]/[C01] unseal accepts every specification-conforming token (any nonce) and returns exactly the message
pub fn unseal_accepts_spec(M: usize, F: usize) {
    let T = NONCE + M + TAG;
    let key: [u8; 32] = kani::any();
    let n: [u8; 24] = kani::any();
    let msgb: [u8; MX] = kani::any();
    let msg = &msgb[..M];
    let fb: [u8; MX] = kani::any();
    let f = &fb[..F];
    let mut tokb = [0u8; TX];
    let tok = &mut tokb[..T];
    vspec::v2::local_encrypt_with_n(&key, &n, msg, b"", f, tok);
    let r = <V2 as UnsealingVersion<Local>>::unseal(&LocalKey(key), "", tok, f, &[]);
    let ok = r.is_ok();
    let same = match r { Ok(m) => m == msg, Err(_) => false };
    vcheck_all!(
        (ok, "[C03] every specification-conforming v2.local token is accepted"),
        (!ok || same, "[C01] unseal returns exactly the sealed message"),
    );
}

/// [C01]/[C16] the library's own nonce(): seal . unseal == id; one fresh draw
pub fn roundtrip_own_nonce(M: usize, F: usize) {
    let key: [u8; 32] = kani::any();
    let msgb: [u8; MX] = kani::any();
    let msg = &msgb[..M];
    let fb: [u8; MX] = kani::any();
    let f = &fb[..F];
    vmodel_core::rng_may_fail(false);
    let n = <V2 as SealingVersion<Local>>::nonce();
    let n_ok = n.is_ok();
    let mut p = n.unwrap_or_default();
    let d = vmodel_core::rng_draw(0);
    let plen = p.len();
    let fresh = vmodel_core::rng_draws() == 1 && d.len == plen && plen <= vmodel_core::DRAW_CAP && p[..] == d.bytes[..plen];
    p.extend_from_slice(msg);
    let sealed = <V2 as SealingVersion<Local>>::dangerous_seal_with_nonce(&LocalKey(key), "", p, f, &[]);
    let s_ok = sealed.is_ok();
    let mut tok = sealed.unwrap_or_default();
    let len_ok = tok.len() == NONCE + M + TAG;
    let r = <V2 as UnsealingVersion<Local>>::unseal(&LocalKey(key), "", &mut tok, f, &[]);
    let same = match r { Ok(m) => m == msg, Err(_) => false };
    vcheck_all!(
        (n_ok, "[C16] nonce() succeeds when every RNG draw succeeds"),
        (fresh, "[C16] the nonce seed is exactly the bytes of this call's single RNG draw"),
        (s_ok, "[C01] sealing with the library's own nonce succeeds"),
        (!s_ok || len_ok, "[C01] a token sealed with the library's own nonce has length 24 + |message| + 16"),
        (!s_ok || same, "[C01] seal with the library's own nonce, then unseal, returns the original message"),
    );
}

/// [C16] RNG failure => nonce() is Err(CryptoError)
pub fn nonce_fail_closed() {
    vmodel_core::rng_may_fail(true);
    let n = <V2 as SealingVersion<Local>>::nonce();
    let all_ok = vmodel_core::rng_all_ok();
    match n {
        Err(e) => vcheck_all!(
            (!all_ok, "[C16] nonce() fails only when the RNG failed"),
            (matches!(e, PE::CryptoError), "[C16] RNG failure is reported as CryptoError"),
        ),
        Ok(_) => vassert!(all_ok && vmodel_core::rng_draws() == 1, "[C16] nonce() succeeds only when its RNG draw succeeded"),
    }
    kani::cover!(all_ok); kani::cover!(!all_ok);
}

/// [C02]/[C12] any single-bit flip of the token, any footer change, any other key => Err, payload untouched
pub fn unseal_rejects_tamper(M: usize, F: usize) {
    let T = NONCE + M + TAG;
    let key: [u8; 32] = kani::any();
    let n: [u8; 24] = kani::any();
    let msgb: [u8; MX] = kani::any();
    let msg = &msgb[..M];
    let fb: [u8; MX] = kani::any();
    let mut tokb = [0u8; TX];
    let tok = &mut tokb[..T];
    vspec::v2::local_encrypt_with_n(&key, &n, msg, b"", &fb[..F], tok);
    let mut key2 = key;
    let mut f2b = fb;
    let which: u8 = kani::any();
    let idx: usize = kani::any();
    let bit: u8 = kani::any();
    kani::assume(bit < 8);
    match which {
        0 => { kani::assume(idx < T); tok[idx] ^= 1 << bit; }
        1 => { kani::assume(idx < 32); key2[idx] ^= 1 << bit; }
        _ => { kani::assume(idx < F); f2b[idx] ^= 1 << bit; }
    }
    let mut beforeb = [0u8; TX];
    beforeb[..T].copy_from_slice(tok);
    let r = <V2 as UnsealingVersion<Local>>::unseal(&LocalKey(key2), "", tok, &f2b[..F], &[]);
    let rejected = r.is_err();
    let kind_ok = matches!(r, Err(PE::CryptoError));
    let untouched = tok[..] == beforeb[..T];
    vcheck_all!(
        (rejected, "[C02][C12] a token with any single flipped bit, a changed footer or another key is rejected"),
        (!rejected || kind_ok, "[C12] an authentication failure is reported as CryptoError, whatever the payload bytes"),
        (!rejected || untouched, "[C12] nothing is decrypted before authentication succeeds (payload buffer untouched on failure)"),
    );
    kani::cover!(which == 0, "token bit flip explored");
    kani::cover!(which == 1, "other key explored");
}

/// [C02] v2 has no implicit assertions: a non-empty assertion is refused by seal and unseal, never ignored
pub fn assertion_refused(M: usize) {
    let key: [u8; 32] = kani::any();
    let n: [u8; 24] = kani::any();
    let msgb: [u8; MX] = kani::any();
    let msg = &msgb[..M];
    let a: [u8; 1] = kani::any();
    let mut tokb = [0u8; TX];
    let tok = &mut tokb[..NONCE + M + TAG];
    vspec::v2::local_encrypt_with_n(&key, &n, msg, b"", &[], tok);
    let r1 = <V2 as SealingVersion<Local>>::dangerous_seal_with_nonce(&LocalKey(key), "", payload_of(&n, msg), &[], &a);
    let r2 = <V2 as UnsealingVersion<Local>>::unseal(&LocalKey(key), "", tok, &[], &a);
    vcheck_all!(
        (matches!(r1, Err(PE::ClaimsError)), "[C02] v2 sealing refuses a non-empty implicit assertion with ClaimsError"),
        (matches!(r2, Err(PE::ClaimsError)), "[C02] v2 unsealing refuses a non-empty implicit assertion with ClaimsError instead of ignoring it"),
    );
}

/// [C04]/[C12] every payload length class around nonce+tag: no panic; too short => InvalidToken
pub fn unseal_short(L: usize) {
    let key: [u8; 32] = kani::any();
    let mut pb: [u8; TX] = kani::any();
    let f: [u8; 1] = kani::any();
    let r = <V2 as UnsealingVersion<Local>>::unseal(&LocalKey(key), "", &mut pb[..L], &f, &[]);
    if L < NONCE + TAG {
        vassert!(matches!(r, Err(PE::InvalidToken)), "[C12] a too-short payload is InvalidToken, independent of its bytes");
    } else {
        vassert!(matches!(r, Err(PE::CryptoError)) || r.is_ok(), "[C12] error kind for a full-length payload is CryptoError");
    }
}
/// [C04] sealing a payload shorter than the nonce seed does not panic
pub fn seal_short(L: usize) {
    let key: [u8; 32] = kani::any();
    let pb: [u8; TX] = kani::any();
    let r = <V2 as SealingVersion<Local>>::dangerous_seal_with_nonce(&LocalKey(key), "", pb[..L].to_vec(), &[], &[]);
    vassert!(r.is_err() == (L < NONCE), "[C04] sealing fails cleanly exactly when the payload is shorter than the 24-byte nonce seed");
}

pub fn local_key_codec() {
    let b: [u8; 40] = kani::any();
    let n: usize = kani::any();
    kani::assume(n <= 40);
    let r = <V2 as HasKey<Local>>::decode(&b[..n]);
    match r {
        Ok(k) => {
            let e = <V2 as HasKey<Local>>::encode(&k);
            let c = k.clone();
            let u = <V2 as SealingVersion<Local>>::unsealing_key(&k);
            vcheck_all!(
                (n == 32, "[C10] only exactly 32 bytes are accepted as a local key"),
                (e.len() == n && e[..] == b[..n], "[C08] decode then encode is the identity on local keys"),
                (c.0 == k.0 && u.0 == k.0, "[C08] clone / unsealing_key of a local key have identical bytes"),
            );
        }
        Err(e) => vcheck_all!(
            (n != 32, "[C08] every 32-byte string is a valid local key"),
            (matches!(e, PE::InvalidKey), "[C10] wrong-length key bytes are InvalidKey"),
        ),
    }
    kani::cover!(n == 32);
    kani::cover!(n == 33);
}
pub fn local_key_random() {
    vmodel_core::rng_may_fail(true);
    let r = <V2 as SealingVersion<Local>>::random();
    let all_ok = vmodel_core::rng_all_ok();
    let d = vmodel_core::rng_draw(0);
    match r {
        Ok(k) => vcheck_all!(
            (all_ok, "[C16] key generation succeeds only when every RNG draw succeeded"),
            (vmodel_core::rng_draws() == 1 && d.len == 32 && k.0[..] == d.bytes[..32], "[C16] the generated local key is exactly this call's 32 drawn bytes"),
        ),
        Err(e) => vcheck_all!(
            (!all_ok, "[C16] key generation fails only when the RNG failed"),
            (matches!(e, PE::CryptoError), "[C16] RNG failure is reported as CryptoError"),
        ),
    }
    kani::cover!(all_ok); kani::cover!(!all_ok);
}
pub fn canary_inputs(M: usize) {
    let key: [u8; 32] = kani::any();
    let b: [u8; 24] = kani::any();
    let msgb: [u8; MX] = kani::any();
    let msg = &msgb[..M];
    let mut tok = <V2 as SealingVersion<Local>>::dangerous_seal_with_nonce(&LocalKey(key), "", payload_of(&b, msg), &[7], &[]).unwrap_or_default();
    let _ = <V2 as UnsealingVersion<Local>>::unseal(&LocalKey(key), "", &mut tok, &[7], &[]);
    vassert!(key[0] != 0x5a || b[23] != 0xa5, "canary: must fail (false claim about the symbolic inputs)");
}

macro_rules! inst {
    ($($name:ident = $f:ident($($g:literal),*);)*) => { $(
        #[kani::proof] #[kani::unwind(180)]
        #[kani::stub(paseto_core::pae::pre_auth_encode, pae_contract)]
        pub fn $name() { $f($($g),*); kani::cover!(true, "harness end reachable"); }
    )* };
}
inst! {
    seal_is_spec_0_0 = seal_is_spec(0, 0);
    seal_is_spec_3_2 = seal_is_spec(3, 2);
    unseal_accepts_spec_0_0 = unseal_accepts_spec(0, 0);
    unseal_accepts_spec_3_2 = unseal_accepts_spec(3, 2);
    roundtrip_own_nonce_1_1 = roundtrip_own_nonce(1, 1);
    roundtrip_own_nonce_0_0 = roundtrip_own_nonce(0, 0);
    unseal_rejects_tamper_1_1 = unseal_rejects_tamper(1, 1);
    unseal_rejects_tamper_0_0 = unseal_rejects_tamper(0, 0);
    assertion_refused_1 = assertion_refused(1);
    unseal_short_0 = unseal_short(0); unseal_short_23 = unseal_short(23); unseal_short_39 = unseal_short(39);
    unseal_short_40 = unseal_short(40); unseal_short_42 = unseal_short(42);
    seal_short_0 = seal_short(0); seal_short_23 = seal_short(23); seal_short_24 = seal_short(24);
    canary_inputs_1 = canary_inputs(1);
    nonce_fail_closed_h = nonce_fail_closed();
    local_key_codec_h = local_key_codec();
    local_key_random_h = local_key_random();
}
// @@PLAYBACK@@
