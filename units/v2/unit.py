from vrf.core import Unit, Harness

MODELS = {"blake2": "models/blake2", "chacha20": "models/chacha20", "chacha20poly1305": "models/chacha20poly1305", "getrandom": "models/getrandom"}
ASSUME = [
    "BLAKE2b (keyed and unkeyed) is a deterministic collision-free uninterpreted function of (key, message, output length) [ideal MAC/hash]",
    "XChaCha20 is XOR with a deterministic uninterpreted keystream of (key, nonce, position)",
    "XChaCha20-Poly1305 = XOR with an uninterpreted keystream + ideal 16-byte MAC over (nonce, aad, ciphertext); decryption verifies before it decrypts",
    "getrandom::fill either fails or fills the buffer with arbitrary bytes",
    "pre_auth_encode is replaced by its contract (proved in unit u1_pae)",
]
L = "paseto-v2/src/core/local.rs"
MODELS_FULL = dict(MODELS, **{"ed25519-dalek": "models/ed25519-dalek", "curve25519-dalek": "models/curve25519-dalek",
                              "sha2": "models/sha2", "argon2": "models/argon2"})
ASSUME_PUB = [
    "Ed25519: public key = injective uninterpreted function of the secret scalar; seed expansion = injective uninterpreted function; "
    "signing is a deterministic collision-free uninterpreted function of (public key, hash prefix, message); "
    "IDEAL SIGNATURE: verify(pk, M, sig) holds iff sig was produced by the signing function for exactly (pk, M)",
    "validity of a compressed Edwards point / well-formedness of a signature are uninterpreted predicates that hold for everything the model itself produces",
    "getrandom::fill either fails or fills the buffer with arbitrary bytes",
    "pre_auth_encode is replaced by its contract (proved in unit u1_pae)",
]
P = "paseto-v2/src/core/public.rs"
DEPS = {"paseto-v2/Cargo.toml": ['vspec = { path = "../verif-models/vspec" }', 'vmodel-core = { path = "../verif-models/vmodel-core" }']}
TRUSTED = ["digest, cipher, crypto-common, generic-array, typenum, subtle, zerocopy (real crates, compiled by Kani)"]


def unit_public():
    fp = [f"{P}::{f}" for f in ("dangerous_seal_with_nonce", "unseal", "preauth_public", "preauth_secret", "nonce", "unsealing_key")]
    fk = [f"{P}::{f}" for f in ("decode", "encode", "clone", "unsealing_key", "random")]
    b = "contents symbolic; "
    hs = [
        Harness("sign_is_spec_0_0_0", ["C03", "C01"], complete=False, bound=b + "|m|=0,|f|=0,|a|=0", functions=fp),
        Harness("sign_is_spec_3_2_0", ["C03", "C01"], complete=False, bound=b + "|m|=3,|f|=2,|a|=1", functions=fp),
        Harness("verify_accepts_spec_0_0_0", ["C03", "C01", "C08"], complete=False, bound=b + "|m|=0,|f|=0,|a|=0", functions=fp),
        Harness("verify_accepts_spec_3_2_0", ["C03", "C01", "C08"], complete=False, bound=b + "|m|=3,|f|=2,|a|=1", functions=fp),
        Harness("roundtrip_own_nonce_1_1_0", ["C01"], complete=False, bound=b + "|m|=1,|f|=1,|a|=1", functions=fp),
        Harness("verify_rejects_tamper_0_0_0", ["C02", "C12"], complete=False, bound=b + "|m|=0,|f|=0,|a|=0; flip position/bit symbolic", functions=fp, timeout=1800),
        Harness("verify_rejects_tamper_1_1_0", ["C02", "C12"], complete=False, bound=b + "|m|=1,|f|=1,|a|=1; flip position/bit symbolic", functions=fp, timeout=1800),
        Harness("verify_rejects_boundary_shift_1", ["C02"], complete=False, bound="|m|=1, footer+assertion 2 bytes", functions=fp),
        Harness("assertion_refused_1", ["C02"], complete=False, bound="|m|=1, 1-byte assertion", functions=fp),
        Harness("canary_inputs_1", ["C01", "C02", "C03", "C08", "C12"], expect="fail"),
        Harness("public_key_codec_h", ["C08", "C10", "C04"], complete=False, bound="key byte strings of length 0..=40", functions=fk),
        Harness("secret_key_encode_h", ["C08"], functions=fk),
        Harness("secret_key_random_h", ["C16", "C08"], functions=fk),
        Harness("secret_key_random_fail_closed_h", ["C16"], functions=fk),
    ]
    for n in (0, 32, 63, 64, 65):
        hs.append(Harness(f"secret_key_decode_{n}", ["C08", "C10", "C04"], complete=False, bound=f"key byte string length {n}", functions=fk))
    for n in (0, 63, 64, 66):
        hs.append(Harness(f"verify_short_{n}", ["C04", "C12"], complete=False, bound=f"payload length {n}", functions=[f"{P}::unseal"]))
    return Unit(
        name="v2_public", group="v2", members=["paseto-core", "paseto-v2"], package="paseto-v2",
        inject=[(P, ["units/common/pae_stub.rs", "units/v2/public.rs"])],
        patches=MODELS_FULL, harness_path="core::public::verif",
        kani_flags=["-Z", "stubbing", "--no-assertion-reach-checks"], no_default_features=True, features=["signing"],
        dev_deps=DEPS, harnesses=hs, assumptions=ASSUME_PUB, trusted=TRUSTED,
    )


ASSUME_PASERK = ASSUME[:3] + [
    "Argon2id is a deterministic collision-free uninterpreted function of (password, salt, memory KiB, time, parallelism); its parameter validation is the real crate's (with wrapping p*8)",
    "X25519 is a commutative uninterpreted function of the two public points; Edwards->Montgomery conversion is injective",
]


def paserk_unit(name, file, src, path, feats, hs, assume):
    return Unit(
        name=name, group="v2", members=["paseto-core", "paseto-v2"], package="paseto-v2",
        inject=[(file, ["units/common/pae_stub.rs", src])],
        patches=MODELS_FULL, harness_path=path,
        kani_flags=["-Z", "stubbing", "--no-assertion-reach-checks"], no_default_features=True, features=feats,
        dev_deps=DEPS, harnesses=hs, assumptions=assume, trusted=TRUSTED,
    )


def unit_pie():
    F = "paseto-v2/src/core/pie_wrap.rs"
    fn = [f"{F}::{f}" for f in ("pie_wrap_key", "pie_unwrap_key", "wrap_keys", "auth")]
    hs = []
    for k in (32, 64):
        b = f"wrapped key length {k} ({'local' if k == 32 else 'secret'}); contents symbolic"
        hs += [Harness(f"wrap_is_spec_{k}", ["C07", "C05", "C16"], complete=False, bound=b, functions=fn),
               Harness(f"unwrap_accepts_spec_{k}", ["C07", "C05"], complete=False, bound=b, functions=fn),
               Harness(f"roundtrip_{k}", ["C05"], complete=False, bound=b, functions=fn),
               Harness(f"unwrap_rejects_tamper_{k}", ["C06", "C10"], complete=False, bound=b + "; flip position/bit symbolic", functions=fn, timeout=1800)]
    for n in (0, 31, 63, 64, 97):
        hs.append(Harness(f"unwrap_short_{n}", ["C04", "C06"], complete=False, bound=f"blob length {n}", functions=fn))
    hs += [Harness("wrap_fail_closed_h", ["C16"], functions=fn), Harness("canary_inputs_h", ["C05", "C06", "C07"], expect="fail")]
    return paserk_unit("v2_pie", F, "units/v2/pie.rs", "core::pie_wrap::verif", ["pie-wrap"], hs, ASSUME_PASERK)


def unit_pbkw():
    F = "paseto-v2/src/core/pw_wrap.rs"
    fn = [f"{F}::{f}" for f in ("pw_wrap_key", "pw_unwrap_key", "get_params", "wrap_keys", "kdf", "auth", "pbkdf")]
    hs = [Harness("wrap_is_spec_32_default", ["C07", "C05", "C16"], complete=False, bound="local key, default parameters, 2-byte password", functions=fn),
          Harness("wrap_is_spec_64_custom", ["C07", "C05", "C16"], complete=False, bound="secret key, mem=8MiB,time=3,para=2, 1-byte password", functions=fn)]
    for k in (32, 64):
        b = f"wrapped key length {k}; contents, salt, nonce symbolic"
        hs += [Harness(f"unwrap_accepts_spec_{k}", ["C07", "C05"], complete=False, bound=b, functions=fn),
               Harness(f"roundtrip_{k}", ["C05"], complete=False, bound=b, functions=fn),
               Harness(f"unwrap_rejects_tamper_{k}", ["C06", "C10"], complete=False, bound=b + "; flip position/bit symbolic", functions=fn, timeout=1800)]
    for n in (0, 55, 56, 87):
        hs.append(Harness(f"unwrap_short_{n}", ["C04", "C06"], complete=False, bound=f"blob length {n}, all parameter blocks", functions=fn))
    for n in (88, 121):
        hs.append(Harness(f"unwrap_len_{n}", ["C04", "C06"], complete=False, bound=f"blob length {n}, all VALID parameter blocks (Params::pbkdf by contract)", functions=fn))
    hs.append(Harness("pbkdf_contract_h", ["C04", "C07"], functions=[f"{F}::pbkdf"], desc="Params::pbkdf for ALL parameter blocks (loop-free => complete)"))
    hs += [Harness("wrap_fail_closed_h", ["C16"], functions=fn), Harness("canary_inputs_h", ["C05", "C06", "C07"], expect="fail")]
    return paserk_unit("v2_pbkw", F, "units/v2/pbkw.rs", "core::pw_wrap::verif", ["pbkw"], hs, ASSUME_PASERK)


def unit_pke():
    F = "paseto-v2/src/core/pke.rs"
    fn = [f"{F}::{f}" for f in ("seal_key", "unseal_key", "encode", "decode")]
    hs = [Harness("seal_is_spec_h", ["C07", "C05", "C16"], functions=fn), Harness("unseal_accepts_spec_h", ["C07", "C05"], functions=fn),
          Harness("roundtrip_h", ["C05"], functions=fn), Harness("unseal_rejects_tamper_h", ["C06"], functions=fn, timeout=1800),
          Harness("seal_fail_closed_h", ["C16"], functions=fn), Harness("pke_key_codec_h", ["C08"], functions=fn),
          Harness("canary_inputs_h", ["C05", "C06", "C07"], expect="fail")]
    for n in (0, 31, 64, 95, 96, 97):
        hs.append(Harness(f"unseal_len_{n}", ["C04", "C06"], complete=False, bound=f"blob length {n}", functions=fn))
    return paserk_unit("v2_pke", F, "units/v2/pke.rs", "core::pke::verif", ["pke"], hs, ASSUME_PASERK + ASSUME_PUB[:2])


def unit_id():
    F = "paseto-v2/src/core/mod.rs"
    fn = [f"{F}::hash_key"]
    hs = [Harness("id_is_spec_10", ["C13"], complete=False, bound="PASERK text of 10 bytes", functions=fn),
          Harness("id_is_spec_1", ["C13"], complete=False, bound="PASERK text of 1 byte", functions=fn),
          Harness("id_domain_separated_h", ["C13"], complete=False, bound="PASERK text of 10 bytes", functions=fn),
          Harness("canary_inputs_h", ["C13"], expect="fail")]
    return paserk_unit("v2_id", F, "units/v2/id.rs", "core::verif", ["id"], hs, ASSUME[:1])


def units():
    return [unit_local(), unit_public(), unit_pie(), unit_pbkw(), unit_pke(), unit_id()]



def unit_local():
    fl = [f"{L}::{f}" for f in ("dangerous_seal_with_nonce", "unseal", "keys", "preauth_local", "nonce")] + ["paseto-v2/src/core/mod.rs::kdf"]
    b = "contents symbolic; "
    hs = [
        Harness("seal_is_spec_0_0", ["C03", "C01"], complete=False, bound=b + "|m|=0,|f|=0", functions=fl),
        Harness("seal_is_spec_3_2", ["C03", "C01"], complete=False, bound=b + "|m|=3,|f|=2", functions=fl),
        Harness("unseal_accepts_spec_0_0", ["C03", "C01"], complete=False, bound=b + "|m|=0,|f|=0", functions=fl),
        Harness("unseal_accepts_spec_3_2", ["C03", "C01"], complete=False, bound=b + "|m|=3,|f|=2", functions=fl),
        Harness("roundtrip_own_nonce_1_1", ["C01", "C16"], complete=False, bound=b + "|m|=1,|f|=1", functions=fl),
        Harness("roundtrip_own_nonce_0_0", ["C01", "C16"], complete=False, bound=b + "|m|=0,|f|=0", functions=fl),
        Harness("unseal_rejects_tamper_0_0", ["C02", "C12"], complete=False, bound=b + "|m|=0,|f|=0; flip position/bit symbolic", functions=fl, timeout=1800),
        Harness("unseal_rejects_tamper_1_1", ["C02", "C12"], complete=False, bound=b + "|m|=1,|f|=1; flip position/bit symbolic", functions=fl, timeout=1800),
        Harness("assertion_refused_1", ["C02"], complete=False, bound="|m|=1, 1-byte assertion", functions=fl),
        Harness("canary_inputs_1", ["C01", "C02", "C03", "C12"], expect="fail"),
        Harness("local_key_codec_h", ["C08", "C10", "C04"], complete=False, bound="key byte strings of length 0..=40", functions=[f"{L}::decode", f"{L}::encode"]),
        Harness("local_key_random_h", ["C16"], functions=[f"{L}::random"]),
        Harness("nonce_fail_closed_h", ["C16"], functions=[f"{L}::nonce"]),
    ]
    for n in (0, 23, 39, 40, 42):
        hs.append(Harness(f"unseal_short_{n}", ["C04", "C12"], complete=False, bound=f"payload length {n}", functions=[f"{L}::unseal"]))
    for n in (0, 23, 24):
        hs.append(Harness(f"seal_short_{n}", ["C04"], complete=False, bound=f"payload length {n}", functions=[f"{L}::dangerous_seal_with_nonce"]))
    return Unit(
        name="v2_local", group="v2", members=["paseto-core", "paseto-v2"], package="paseto-v2",
        inject=[(L, ["units/common/pae_stub.rs", "units/v2/local.rs"])],
        patches=MODELS, harness_path="core::local::verif",
        kani_flags=["-Z", "stubbing", "--no-assertion-reach-checks"], no_default_features=True, features=["encrypting"],
        dev_deps={"paseto-v2/Cargo.toml": ['vspec = { path = "../verif-models/vspec" }', 'vmodel-core = { path = "../verif-models/vmodel-core" }']},
        harnesses=hs, assumptions=ASSUME,
        trusted=["digest, cipher, crypto-common, generic-array, typenum, subtle, zerocopy (real crates, compiled by Kani)"],
    )
