// U8 (v2, PASERK PKE seal) — appended to paseto-v2/src/core/pke.rs.
use ed25519_dalek::hazmat::ExpandedSecretKey as ESK;
use paseto_core::PasetoError as PE;

fn sk_of(seed: &[u8; 32]) -> SecretKey { super::super::SecretKey(*seed, ESK::from(seed)) }
fn pk_of(seed: &[u8; 32]) -> PublicKey { super::super::PublicKey(ed25519_dalek::VerifyingKey::from(&ESK::from(seed))) }

/// [C07] seal_key == spec for the ephemeral secret it drew; [C05] 96 bytes; [C16] one fresh 32-byte draw
pub fn seal_is_spec() {
    let seed: [u8; 32] = kani::any();
    let pdk: [u8; 32] = kani::any();
    vmodel_core::rng_may_fail(false);
    let d0 = vmodel_core::rng_preview(0);
    let mut raw = [0u8; 32];
    raw.copy_from_slice(&d0[..32]);
    let esk = curve25519_dalek::scalar::clamp_integer(raw);
    let (scalar, _) = vspec::v2::ed25519_expand(&seed);
    let pk = vspec::v2::ed25519_pk(&scalar);
    let mut spec = [0u8; 96];
    vspec::v2::pke_seal(&pk, &esk, &pdk, &mut spec);
    let r = <V2 as PkeSealingVersion>::seal_key(&pk_of(&seed), LocalKey(pdk));
    let ok = r.is_ok();
    let out = r.unwrap_or_default();
    vcheck_all!(
        (ok, "[C05] sealing a key to an honestly generated public key always succeeds"),
        (!ok || out.len() == 96, "[C05] a sealed key is exactly 96 bytes (tag || ephemeral public key || encrypted key)"),
        (vmodel_core::rng_draws() == 1 && vmodel_core::rng_draw(0).len == 32, "[C16] key sealing draws exactly one fresh 32-byte ephemeral secret"),
        (!ok || out[..] == spec[..], "[C07] sealed key equals the PASERK specification's blob for the ephemeral key it embeds"),
    );
}

/// [C07]/[C05] unseal_key accepts the specification's blob and returns the sealed key
pub fn unseal_accepts_spec() {
    let seed: [u8; 32] = kani::any();
    let pdk: [u8; 32] = kani::any();
    let raw: [u8; 32] = kani::any();
    let esk = curve25519_dalek::scalar::clamp_integer(raw);
    let (scalar, _) = vspec::v2::ed25519_expand(&seed);
    let pk = vspec::v2::ed25519_pk(&scalar);
    let mut blob = [0u8; 96];
    vspec::v2::pke_seal(&pk, &esk, &pdk, &mut blob);
    let sk = sk_of(&seed);
    let r = <V2 as PkeUnsealingVersion>::unseal_key(&sk, blob.to_vec().into_boxed_slice());
    let ok = r.is_ok();
    let same = match r { Ok(k) => k.0 == pdk, Err(_) => false };
    vcheck_all!(
        (ok, "[C07] every specification-conforming sealed key unseals with the recipient's secret key"),
        (!ok || same, "[C05] unsealing returns exactly the sealed key"),
    );
}

/// [C05] seal with the library's own randomness, then unseal
pub fn roundtrip() {
    let seed: [u8; 32] = kani::any();
    let pdk: [u8; 32] = kani::any();
    vmodel_core::rng_may_fail(false);
    let sk = sk_of(&seed);
    let r = <V2 as PkeSealingVersion>::seal_key(&pk_of(&seed), LocalKey(pdk));
    let ok = r.is_ok();
    let blob = r.unwrap_or_default();
    let r2 = <V2 as PkeUnsealingVersion>::unseal_key(&sk, blob);
    let same = match r2 { Ok(k) => k.0 == pdk, Err(_) => false };
    vcheck_all!(
        (ok, "[C05] sealing always succeeds"),
        (!ok || same, "[C05] seal then unseal returns the original key"),
    );
}

/// [C06] any flipped bit (tag, ephemeral key, encrypted key) or another recipient => Err
pub fn unseal_rejects_tamper() {
    let seed: [u8; 32] = kani::any();
    let pdk: [u8; 32] = kani::any();
    let raw: [u8; 32] = kani::any();
    let esk = curve25519_dalek::scalar::clamp_integer(raw);
    let (scalar, _) = vspec::v2::ed25519_expand(&seed);
    let pk = vspec::v2::ed25519_pk(&scalar);
    let mut blob = [0u8; 96];
    vspec::v2::pke_seal(&pk, &esk, &pdk, &mut blob);
    // "another recipient" = another secret scalar (flipping a seed bit need not change the scalar half of the
    // uninterpreted 64-byte expansion, so the scalar itself is varied)
    let mut scalar2 = scalar;
    let which: u8 = kani::any();
    let idx: usize = kani::any();
    let bit: u8 = kani::any();
    kani::assume(bit < 8);
    match which {
        0 => { kani::assume(idx < 96); blob[idx] ^= 1 << bit; }
        _ => { kani::assume(idx < 32); scalar2[idx] ^= 1 << bit; }
    }
    let sk = super::super::SecretKey(seed, ESK { scalar: curve25519_dalek::Scalar::from_bytes_mod_order(scalar2), hash_prefix: [0; 32] });
    let r = <V2 as PkeUnsealingVersion>::unseal_key(&sk, blob.to_vec().into_boxed_slice());
    let rejected = r.is_err();
    let kind_ok = matches!(r, Err(PE::CryptoError));
    vcheck_all!(
        (rejected, "[C06] a sealed key with any flipped bit, or offered to another recipient, is rejected"),
        (!rejected || kind_ok, "[C06] an authentication failure of a sealed key is CryptoError"),
    );
    kani::cover!(which == 0); kani::cover!(which == 1);
}

/// [C04]/[C06] every length: no panic; anything but exactly 96 bytes => InvalidKey
pub fn unseal_len(L: usize) {
    let seed: [u8; 32] = kani::any();
    let b: [u8; 100] = kani::any();
    let sk = sk_of(&seed);
    let r = <V2 as PkeUnsealingVersion>::unseal_key(&sk, b[..L].to_vec().into_boxed_slice());
    if L != 96 {
        vassert!(matches!(r, Err(PE::InvalidKey)), "[C06] a sealed key whose encrypted data key is not exactly 32 bytes is InvalidKey");
    } else {
        vassert!(matches!(r, Err(PE::CryptoError)) || r.is_ok(), "[C06] a 96-byte blob fails only with CryptoError");
    }
}

/// [C16] RNG failure => Err(CryptoError)
pub fn seal_fail_closed() {
    let seed: [u8; 32] = kani::any();
    let pdk: [u8; 32] = kani::any();
    let pk = pk_of(&seed);
    vmodel_core::rng_may_fail(true);
    let r = <V2 as PkeSealingVersion>::seal_key(&pk, LocalKey(pdk));
    let all_ok = vmodel_core::rng_all_ok();
    match r {
        Ok(_) => vassert!(all_ok, "[C16] key sealing succeeds only when every RNG draw succeeded"),
        Err(e) => vcheck_all!(
            (!all_ok, "[C16] key sealing fails only when the RNG failed"),
            (matches!(e, PE::CryptoError), "[C16] RNG failure is reported as CryptoError"),
        ),
    }
    kani::cover!(all_ok); kani::cover!(!all_ok);
}

/// [C08] PKE key kinds share the encoding of the signing keys
pub fn pke_key_codec() {
    let seed: [u8; 32] = kani::any();
    let (scalar, _) = vspec::v2::ed25519_expand(&seed);
    let pk = vspec::v2::ed25519_pk(&scalar);
    let e1 = <V2 as HasKey<PkePublic>>::encode(&pk_of(&seed));
    let e2 = <V2 as HasKey<PkeSecret>>::encode(&sk_of(&seed));
    vcheck_all!(
        (e1.len() == 32 && e1[..] == pk[..], "[C08] a PKE public key serialises as the 32-byte Ed25519 public key"),
        (e2.len() == 64 && e2[..32] == seed[..] && e2[32..] == pk[..], "[C08] a PKE secret key serialises as seed || public key"),
    );
}

pub fn canary_inputs() {
    let seed: [u8; 32] = kani::any();
    let pdk: [u8; 32] = kani::any();
    vmodel_core::rng_may_fail(false);
    let sk = sk_of(&seed);
    let blob = <V2 as PkeSealingVersion>::seal_key(&pk_of(&seed), LocalKey(pdk)).unwrap_or_default();
    let _ = <V2 as PkeUnsealingVersion>::unseal_key(&sk, blob);
    vassert!(seed[0] != 0x5a || pdk[31] != 0xa5, "canary: must fail (false claim about the symbolic inputs)");
}

macro_rules! inst {
    ($($name:ident = $f:ident($($g:literal),*);)*) => { $(
        #[kani::proof] #[kani::unwind(200)]
        pub fn $name() { $f($($g),*); kani::cover!(true, "harness end reachable"); }
    )* };
}
inst! {
    seal_is_spec_h = seal_is_spec();
    unseal_accepts_spec_h = unseal_accepts_spec();
    roundtrip_h = roundtrip();
    unseal_rejects_tamper_h = unseal_rejects_tamper();
    unseal_len_0 = unseal_len(0); unseal_len_31 = unseal_len(31); unseal_len_64 = unseal_len(64); unseal_len_95 = unseal_len(95);
    unseal_len_96 = unseal_len(96); unseal_len_97 = unseal_len(97);
    seal_fail_closed_h = seal_fail_closed();
    pke_key_codec_h = pke_key_codec();
    canary_inputs_h = canary_inputs();
}
// @@PLAYBACK@@
