// U7 (v2, key ids) — appended to paseto-v2/src/core/mod.rs.
use paseto_core::paserk::IdVersion;

/// [C13] hash_key(header, text) == BLAKE2b-264("k2" || header || text), for the three id kinds
pub fn id_is_spec(L: usize) {
    let tb: [u8; 12] = kani::any();
    let text = &tb[..L];
    let which: u8 = kani::any();
    let h: &'static str = match which { 0 => ".lid.", 1 => ".sid.", _ => ".pid." };
    let spec = vspec::v2::key_id(h.as_bytes(), text);
    let got = <V2 as IdVersion>::hash_key(h, text);
    vassert!(got == spec, "[C13] the key id is the specification's 33-byte BLAKE2b digest of \"k2\" || id header || PASERK text");
}
/// [C13] lid / sid / pid of the same text differ (domain separation, under the ideal-hash assumption)
pub fn id_domain_separated() {
    let text: [u8; 10] = kani::any();
    let a = <V2 as IdVersion>::hash_key(".lid.", &text);
    let b = <V2 as IdVersion>::hash_key(".sid.", &text);
    let c = <V2 as IdVersion>::hash_key(".pid.", &text);
    vcheck_all!(
        (a != b, "[C13] local and secret ids of the same text differ"),
        (a != c, "[C13] local and public ids of the same text differ"),
        (b != c, "[C13] secret and public ids of the same text differ"),
    );
}
pub fn canary_inputs() {
    let text: [u8; 10] = kani::any();
    let a = <V2 as IdVersion>::hash_key(".lid.", &text);
    vassert!(text[0] != 0x5a || a[0] != 0xa5, "canary: must fail (false claim about the symbolic inputs)");
}
macro_rules! inst {
    ($($name:ident = $f:ident($($g:literal),*);)*) => { $(
        #[kani::proof] #[kani::unwind(100)]
        pub fn $name() { $f($($g),*); kani::cover!(true, "harness end reachable"); }
    )* };
}
inst! {
    id_is_spec_10 = id_is_spec(10); id_is_spec_1 = id_is_spec(1);
    id_domain_separated_h = id_domain_separated();
    canary_inputs_h = canary_inputs();
}
// @@PLAYBACK@@
