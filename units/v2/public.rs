// U7 (v2, public purpose) — appended to paseto-v2/src/core/public.rs. Real crate; ed25519-dalek, curve25519-dalek, sha2,
// getrandom, blake2, chacha20, argon2 replaced by assumed-contract models; pre_auth_encode replaced by its contract.
use ed25519_dalek::hazmat::ExpandedSecretKey as ESK;
use paseto_core::version::{SealingVersion, UnsealingVersion};
use paseto_core::PasetoError as PE;

const SIG: usize = 64;
const MX: usize = 4;
const TX: usize = MX + SIG;

fn sk_of(seed: &[u8; 32]) -> SecretKey {
    super::super::SecretKey(*seed, ESK::from(seed))
}
fn payload_of(msg: &[u8]) -> Vec<u8> {
    let mut p = Vec::with_capacity(msg.len() + SIG);
    p.extend_from_slice(msg);
    p
}

/// [C03] sign == spec (Ed25519 is deterministic: byte-identical); [C01] length
pub fn sign_is_spec(M: usize, F: usize, A: usize) {
    let T = M + SIG;
    let seed: [u8; 32] = kani::any();
    let msgb: [u8; MX] = kani::any();
    let msg = &msgb[..M];
    let fb: [u8; MX] = kani::any();
    let f = &fb[..F];
    let ab: [u8; MX] = kani::any();
    let a = &ab[..A];
    let (scalar, prefix) = vspec::v2::ed25519_expand(&seed);
    let mut specb = [0u8; TX];
    let spec = &mut specb[..T];
    vspec::v2::public_sign(&scalar, &prefix, msg, b"", f, spec);
    let sk = sk_of(&seed).clone(); // a clone is a key like any other: it must produce the same deterministic signature
    let r = <V2 as SealingVersion<Public>>::dangerous_seal_with_nonce(&sk, "", payload_of(msg), f, a);
    let ok = r.is_ok();
    let out = r.unwrap_or_default();
    vcheck_all!(
        (ok, "[C01] signing always succeeds"),
        (!ok || out.len() == T, "[C01] signed payload length is |message| + 64"),
        (!ok || out[..] == spec[..], "[C03] v2.public sign output equals the specification's token (message || Ed25519 signature over PAE)"),
    );
}

/// [C03]/[C01] verify accepts the specification's token and returns exactly the message
pub fn verify_accepts_spec(M: usize, F: usize, A: usize) {
    let T = M + SIG;
    let seed: [u8; 32] = kani::any();
    let msgb: [u8; MX] = kani::any();
    let msg = &msgb[..M];
    let fb: [u8; MX] = kani::any();
    let f = &fb[..F];
    let ab: [u8; MX] = kani::any();
    let a = &ab[..A];
    let (scalar, prefix) = vspec::v2::ed25519_expand(&seed);
    let mut tokb = [0u8; TX];
    let tok = &mut tokb[..T];
    vspec::v2::public_sign(&scalar, &prefix, msg, b"", f, tok);
    let pk = <V2 as SealingVersion<Public>>::unsealing_key(&sk_of(&seed));
    let pk_is_spec = pk.0.as_bytes() == &vspec::v2::ed25519_pk(&scalar);
    let r = <V2 as UnsealingVersion<Public>>::unseal(&pk, "", tok, f, a);
    let ok = r.is_ok();
    let same = match r { Ok(m) => m == msg, Err(_) => false };
    vcheck_all!(
        (pk_is_spec, "[C08] the public key derived from a secret key is the Ed25519 public key of its seed"),
        (ok, "[C03] every specification-conforming v2.public token is accepted under the derived public key"),
        (!ok || same, "[C01] verify returns exactly the signed message"),
    );
}

/// [C01] library's own nonce() (empty for public), sign, verify
pub fn roundtrip_own_nonce(M: usize, F: usize, A: usize) {
    let seed: [u8; 32] = kani::any();
    let msgb: [u8; MX] = kani::any();
    let msg = &msgb[..M];
    let fb: [u8; MX] = kani::any();
    let f = &fb[..F];
    let ab: [u8; MX] = kani::any();
    let a = &ab[..A];
    let n = <V2 as SealingVersion<Public>>::nonce();
    let n_ok = n.is_ok();
    let mut p = n.unwrap_or_default();
    let n_empty = p.is_empty() && vmodel_core::rng_draws() == 0;
    p.extend_from_slice(msg);
    let sk = sk_of(&seed);
    let pk = <V2 as SealingVersion<Public>>::unsealing_key(&sk);
    let sealed = <V2 as SealingVersion<Public>>::dangerous_seal_with_nonce(&sk, "", p, f, a);
    let s_ok = sealed.is_ok();
    let mut tok = sealed.unwrap_or_default();
    let r = <V2 as UnsealingVersion<Public>>::unseal(&pk, "", &mut tok, f, a);
    let same = match r { Ok(m) => m == msg, Err(_) => false };
    vcheck_all!(
        (n_ok && n_empty, "[C01] the public purpose uses an empty nonce prefix"),
        (s_ok, "[C01] signing with the library's own nonce succeeds"),
        (!s_ok || same, "[C01] sign, then verify with the derived public key, returns the original message"),
    );
}

/// [C02]/[C12] any single flipped bit of message or signature, any other public key, footer or assertion change => Err
pub fn verify_rejects_tamper(M: usize, F: usize, A: usize) {
    let T = M + SIG;
    let seed: [u8; 32] = kani::any();
    let msgb: [u8; MX] = kani::any();
    let msg = &msgb[..M];
    let fb: [u8; MX] = kani::any();
    let f = &fb[..F];
    let ab: [u8; MX] = kani::any();
    let a = &ab[..A];
    let (scalar, prefix) = vspec::v2::ed25519_expand(&seed);
    let mut tokb = [0u8; TX];
    let tok = &mut tokb[..T];
    vspec::v2::public_sign(&scalar, &prefix, msg, b"", f, tok);
    let mut pkb = vspec::v2::ed25519_pk(&scalar);
    let mut f2b = fb;
    let mut a2b = ab;
    let which: u8 = kani::any();
    let idx: usize = kani::any();
    let bit: u8 = kani::any();
    kani::assume(bit < 8);
    match which {
        0 => { kani::assume(idx < T); tok[idx] ^= 1 << bit; }
        1 => { kani::assume(idx < 32); pkb[idx] ^= 1 << bit; }
        2 => { kani::assume(idx < F); f2b[idx] ^= 1 << bit; }
        _ => { kani::assume(idx < A); a2b[idx] ^= 1 << bit; }
    }
    let pk = match <V2 as HasKey<Public>>::decode(&pkb) { Ok(k) => k, Err(_) => return };
    let mut beforeb = [0u8; TX];
    beforeb[..T].copy_from_slice(tok);
    let r = <V2 as UnsealingVersion<Public>>::unseal(&pk, "", tok, &f2b[..F], &a2b[..A]);
    let rejected = r.is_err();
    let kind_ok = matches!(r, Err(PE::CryptoError));
    let untouched = tok[..] == beforeb[..T];
    vcheck_all!(
        (rejected, "[C02][C12] a signed token with any single flipped bit, changed footer/assertion or another key is rejected"),
        (!rejected || kind_ok, "[C12] a signature failure is reported as CryptoError, whatever the payload bytes"),
        (untouched, "[C12] verification never modifies the payload"),
    );
    kani::cover!(which == 0, "token bit flip explored");
    kani::cover!(which == 1, "other key explored");
}

/// [C02] bytes moved across the footer/assertion boundary are rejected
pub fn verify_rejects_boundary_shift(M: usize) {
    let T = M + SIG;
    let seed: [u8; 32] = kani::any();
    let msgb: [u8; MX] = kani::any();
    let msg = &msgb[..M];
    let fa: [u8; 2] = kani::any();
    let (scalar, prefix) = vspec::v2::ed25519_expand(&seed);
    let mut tokb = [0u8; TX];
    let tok = &mut tokb[..T];
    vspec::v2::public_sign(&scalar, &prefix, msg, b"", &fa[..2], tok);
    let pk = <V2 as SealingVersion<Public>>::unsealing_key(&sk_of(&seed));
    let split: usize = kani::any();
    kani::assume(split < 2); // sealed with a 2-byte footer and no assertion
    let r = <V2 as UnsealingVersion<Public>>::unseal(&pk, "", tok, &fa[..split], &fa[split..]);
    vassert!(r.is_err(), "[C02] bytes moved across the footer/assertion boundary are rejected");
}

/// [C02] v2 has no implicit assertions: a non-empty assertion is refused by sign and verify, never ignored
pub fn assertion_refused(M: usize) {
    let seed: [u8; 32] = kani::any();
    let msgb: [u8; MX] = kani::any();
    let msg = &msgb[..M];
    let a: [u8; 1] = kani::any();
    let (scalar, prefix) = vspec::v2::ed25519_expand(&seed);
    let mut tokb = [0u8; TX];
    let tok = &mut tokb[..M + SIG];
    vspec::v2::public_sign(&scalar, &prefix, msg, b"", &[], tok);
    let sk = sk_of(&seed);
    let pk = <V2 as SealingVersion<Public>>::unsealing_key(&sk);
    let r1 = <V2 as SealingVersion<Public>>::dangerous_seal_with_nonce(&sk, "", payload_of(msg), &[], &a);
    let r2 = <V2 as UnsealingVersion<Public>>::unseal(&pk, "", tok, &[], &a);
    vcheck_all!(
        (matches!(r1, Err(PE::ClaimsError)), "[C02] v2 signing refuses a non-empty implicit assertion with ClaimsError"),
        (matches!(r2, Err(PE::ClaimsError)), "[C02] v2 verification refuses a non-empty implicit assertion with ClaimsError instead of ignoring it"),
    );
}

/// [C04]/[C12] payloads around the minimum length: no panic, too short => InvalidToken
pub fn verify_short(L: usize) {
    let seed: [u8; 32] = kani::any();
    let pk = <V2 as SealingVersion<Public>>::unsealing_key(&sk_of(&seed));
    let mut pb: [u8; TX] = kani::any();
    let f: [u8; 1] = kani::any();
    let r = <V2 as UnsealingVersion<Public>>::unseal(&pk, "", &mut pb[..L], &f, &[]);
    if L < SIG {
        vassert!(matches!(r, Err(PE::InvalidToken)), "[C12] a too-short payload is InvalidToken, independent of its bytes");
    } else {
        vassert!(matches!(r, Err(PE::CryptoError)) || r.is_ok(), "[C12] error kind for a full-length payload is CryptoError");
    }
}

/// [C08]/[C10] public keys: exact length, decode/encode identity, clone
pub fn public_key_codec() {
    let b: [u8; 40] = kani::any();
    let n: usize = kani::any();
    kani::assume(n <= 40);
    let r = <V2 as HasKey<Public>>::decode(&b[..n]);
    match r {
        Ok(k) => {
            let e = <V2 as HasKey<Public>>::encode(&k);
            let c = k.clone();
            vcheck_all!(
                (n == 32, "[C10] only exactly 32 bytes are accepted as a v2 public key"),
                (e.len() == n && e[..] == b[..n], "[C08] decode then encode is the identity on public keys"),
                (c.0 == k.0, "[C08] clone of a public key is equal"),
            );
        }
        Err(e) => vassert!(matches!(e, PE::InvalidKey), "[C10] rejected key bytes are InvalidKey"),
    }
    kani::cover!(n == 32);
}

/// [C08] secret keys: encode = seed || public key of the seed; clone field by field; unsealing_key = public half
pub fn secret_key_encode() {
    let seed: [u8; 32] = kani::any();
    let (scalar, prefix) = vspec::v2::ed25519_expand(&seed);
    let pk = vspec::v2::ed25519_pk(&scalar);
    let k = sk_of(&seed);
    let e = <V2 as HasKey<Secret>>::encode(&k);
    let c = k.clone();
    let u = <V2 as SealingVersion<Public>>::unsealing_key(&k);
    vcheck_all!(
        (e.len() == 64 && e[..32] == seed[..] && e[32..] == pk[..], "[C08] a secret key serialises as seed || Ed25519 public key of the seed (64 bytes)"),
        (c.0 == k.0 && c.1.scalar == k.1.scalar && c.1.hash_prefix == k.1.hash_prefix, "[C08] clone of a secret key equals the original field by field"),
        (u.0.as_bytes() == &pk, "[C08] unsealing_key(secret) is the public half of its serialisation"),
    );
}

/// [C08]/[C10] secret key decoding, for byte strings of length N: accepted iff N == 64 and the public half is the public key
/// of the seed; the decoded key is the expansion of the seed (so decode . encode == id and encode . decode == id)
pub fn secret_key_decode(N: usize) {
    let b: [u8; 66] = kani::any();
    let mut seed = [0u8; 32];
    seed.copy_from_slice(&b[..32]);
    // everything that touches the models happens BEFORE the call whose outcome is symbolic
    let (scalar, prefix) = vspec::v2::ed25519_expand(&seed);
    let pk = vspec::v2::ed25519_pk(&scalar);
    let consistent = N == 64 && b[32..64] == pk[..];
    let r = <V2 as HasKey<Secret>>::decode(&b[..N]);
    match r {
        Ok(k) => vcheck_all!(
            (N == 64, "[C10] only exactly 64 bytes are accepted as a v2 secret key"),
            (consistent, "[C08] a secret key is accepted only if its public half is the public key of its seed"),
            (k.0 == seed && k.1.scalar.to_bytes() == scalar && k.1.hash_prefix == prefix, "[C08] the decoded secret key is the expansion of its seed"),
        ),
        Err(e) => vcheck_all!(
            (!consistent, "[C08] every consistent 64-byte seed||public-key string is accepted"),
            (matches!(e, PE::InvalidKey), "[C10] rejected key bytes are InvalidKey"),
        ),
    }
    kani::cover!(consistent || N != 64, "an accepted key exists");
    kani::cover!(!consistent, "a rejected key exists");
}

/// [C16] secret key generation fails closed: RNG failure => Err(CryptoError); success => the seed is this call's draw
pub fn secret_key_random_fail_closed() {
    vmodel_core::rng_may_fail(true);
    let r = <V2 as SealingVersion<Public>>::random();
    let all_ok = vmodel_core::rng_all_ok();
    let d = vmodel_core::rng_draw(0);
    match r {
        Ok(k) => vcheck_all!(
            (all_ok, "[C16] key generation succeeds only when every RNG draw succeeded"),
            (vmodel_core::rng_draws() == 1 && d.len == 32 && k.0[..] == d.bytes[..32], "[C16] the generated seed is exactly this call's 32 drawn bytes"),
        ),
        Err(e) => vcheck_all!(
            (!all_ok, "[C16] key generation fails only when the RNG failed"),
            (matches!(e, PE::CryptoError), "[C16] RNG failure is reported as CryptoError"),
        ),
    }
    kani::cover!(all_ok); kani::cover!(!all_ok);
}

/// [C08]/[C16] a generated secret key is the expansion of the drawn seed
pub fn secret_key_random() {
    vmodel_core::rng_may_fail(false);
    let r = <V2 as SealingVersion<Public>>::random();
    let ok = r.is_ok();
    let d = vmodel_core::rng_draw(0);
    let mut seed = [0u8; 32];
    seed.copy_from_slice(&d.bytes[..32]);
    let (scalar, prefix) = vspec::v2::ed25519_expand(&seed);
    let good = match r { Ok(k) => k.0 == seed && k.1.scalar.to_bytes() == scalar && k.1.hash_prefix == prefix, Err(_) => false };
    vcheck_all!(
        (ok, "[C16] key generation succeeds when the RNG succeeds"),
        (!ok || good, "[C08] a generated secret key is the expansion of its freshly drawn seed"),
    );
}

/// canary (vacuity guard): false claim about the symbolic inputs after a full sign + verify
pub fn canary_inputs(M: usize) {
    let seed: [u8; 32] = kani::any();
    let msgb: [u8; MX] = kani::any();
    let msg = &msgb[..M];
    let sk = sk_of(&seed);
    let pk = <V2 as SealingVersion<Public>>::unsealing_key(&sk);
    let mut tok = <V2 as SealingVersion<Public>>::dangerous_seal_with_nonce(&sk, "", payload_of(msg), &[7], &[]).unwrap_or_default();
    let _ = <V2 as UnsealingVersion<Public>>::unseal(&pk, "", &mut tok, &[7], &[]);
    vassert!(seed[0] != 0x5a || msgb[0] != 0xa5, "canary: must fail (false claim about the symbolic inputs)");
}

macro_rules! inst {
    ($($name:ident = $f:ident($($g:literal),*);)*) => { $(
        #[kani::proof] #[kani::unwind(180)]
        #[kani::stub(paseto_core::pae::pre_auth_encode, pae_contract)]
        pub fn $name() { $f($($g),*); kani::cover!(true, "harness end reachable"); }
    )* };
}
inst! {
    sign_is_spec_0_0_0 = sign_is_spec(0, 0, 0);
    sign_is_spec_3_2_0 = sign_is_spec(3, 2, 0);
    verify_accepts_spec_0_0_0 = verify_accepts_spec(0, 0, 0);
    verify_accepts_spec_3_2_0 = verify_accepts_spec(3, 2, 0);
    roundtrip_own_nonce_1_1_0 = roundtrip_own_nonce(1, 1, 0);
    verify_rejects_tamper_1_1_0 = verify_rejects_tamper(1, 1, 0);
    verify_rejects_tamper_0_0_0 = verify_rejects_tamper(0, 0, 0);
    verify_rejects_boundary_shift_1 = verify_rejects_boundary_shift(1);
    assertion_refused_1 = assertion_refused(1);
    verify_short_0 = verify_short(0); verify_short_63 = verify_short(63); verify_short_64 = verify_short(64); verify_short_66 = verify_short(66);
    canary_inputs_1 = canary_inputs(1);
    public_key_codec_h = public_key_codec();
    secret_key_encode_h = secret_key_encode();
    secret_key_decode_0 = secret_key_decode(0); secret_key_decode_32 = secret_key_decode(32); secret_key_decode_63 = secret_key_decode(63);
    secret_key_decode_64 = secret_key_decode(64); secret_key_decode_65 = secret_key_decode(65);
    secret_key_random_h = secret_key_random();
    secret_key_random_fail_closed_h = secret_key_random_fail_closed();
}
// @@PLAYBACK@@
