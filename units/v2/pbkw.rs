// U8 (v2, PASERK PBKW password wrap) — appended to paseto-v2/src/core/pw_wrap.rs.
use paseto_core::PasetoError as PE;
const KX: usize = 64;
const BX: usize = 56 + KX + 32;
const PWX: usize = 4;

fn header(KL: usize) -> &'static str { if KL == 32 { ".local-pw." } else { ".secret-pw." } }
fn other_header(KL: usize) -> &'static str { if KL == 32 { ".secret-pw." } else { ".local-pw." } }
fn params(mem: u64, time: u32, para: u32) -> Params {
    Params { mem: big_endian::U64::new(mem), time: big_endian::U32::new(time), para: big_endian::U32::new(para) }
}

/// Specification-level validity of a PBKW parameter block (PASERK PBKW.md + Argon2 RFC 9106 ranges as enforced by the
/// reference implementations): memory is a whole number of KiB that fits 32 bits, >= 8 KiB and >= 8*parallelism KiB,
/// time >= 1, 1 <= parallelism <= 2^24-1.
fn params_valid(mem: u64, time: u32, para: u32) -> bool {
    mem % 1024 == 0 && mem / 1024 <= u32::MAX as u64 && argon2::Params::model_valid((mem / 1024) as u32, time, para)
}

/// Contract of `Params::pbkdf` (proved by `pbkdf_contract_h` below for ALL parameter blocks): Ok(Argon2id(mem/1024, time, para))
/// iff params_valid, else Err(InvalidKey). The flow harnesses use it in its *assume-valid* form: they are checked against the
/// callee's contract under the precondition that the embedded parameters are valid (the invalid case ends in the contract's
/// Err(InvalidKey), which `pbkdf_contract_h` and `unwrap_short_*` cover). Needed because CBMC does not constant-fold the
/// validity of parameters read back through zerocopy, and a symbolic early return would make every later model call symbolic.
fn pbkdf_assume_valid(p: &Params) -> Result<argon2::Argon2<'static>, PasetoError> {
    let (mem, time, para) = (p.mem.get(), p.time.get(), p.para.get());
    kani::assume(params_valid(mem, time, para));
    Ok(argon2::Argon2::new(argon2::Algorithm::Argon2id, argon2::Version::V0x13, argon2::Params::model_unchecked((mem / 1024) as u32, time, para)))
}

/// [C04]/[C07] Params::pbkdf accepts exactly the valid parameter blocks, never panics, and passes (mem/1024, time, para) on
pub fn pbkdf_contract() {
    let mem: u64 = kani::any();
    let time: u32 = kani::any();
    let para: u32 = kani::any();
    let p = params(mem, time, para);
    let r = p.pbkdf();
    let valid = params_valid(mem, time, para);
    match r {
        Ok(_) => vassert!(valid, "[C07] only valid PBKW parameter blocks (whole KiB, Argon2 ranges) are accepted"),
        Err(e) => vcheck_all!(
            (!valid, "[C07] every valid PBKW parameter block is accepted"),
            (matches!(e, PE::InvalidKey), "[C04] an unusable parameter block is InvalidKey"),
        ),
    }
    kani::cover!(valid); kani::cover!(!valid);
}

/// [C07] pw_wrap_key == spec for the salt/nonce it drew and the given parameters; [C05] fixed length; [C16] two fresh draws
pub fn wrap_is_spec(KL: usize, PL: usize, mem: u64, time: u32, para: u32, default_params: bool) {
    let pwb: [u8; PWX] = kani::any();
    let pw = &pwb[..PL];
    let kb: [u8; KX] = kani::any();
    let ptk = &kb[..KL];
    vmodel_core::rng_may_fail(false);
    let d0 = vmodel_core::rng_preview_len(16);
    let d1 = vmodel_core::rng_preview_len(24);
    let mut salt = [0u8; 16];
    salt.copy_from_slice(&d0[..16]);
    let mut n = [0u8; 24];
    n.copy_from_slice(&d1[..24]);
    let mut specb = [0u8; BX];
    let spec = &mut specb[..88 + KL];
    vspec::v2::pbkw_wrap(header(KL).as_bytes(), pw, &salt, mem, time, para, &n, ptk, spec);
    let p = if default_params { Params::default() } else { params(mem, time, para) };
    let r = <V2 as PwWrapVersion>::pw_wrap_key(header(KL), pw, &p, ptk.to_vec());
    let ok = r.is_ok();
    let out = r.unwrap_or_default();
    vcheck_all!(
        (ok, "[C05] password wrapping with valid parameters always succeeds"),
        (!ok || out.len() == 88 + KL, "[C05] PBKW blob has the fixed length 16+8+4+4+24+|key|+32"),
        (vmodel_core::rng_draws() == 2 && vmodel_core::rng_has_len(16) && vmodel_core::rng_has_len(24), "[C16] PBKW draws a fresh 16-byte salt and a fresh 24-byte nonce"),
        (!ok || out[..] == spec[..], "[C07] PBKW output equals the PASERK specification's blob for the salt, nonce and parameters it embeds"),
    );
}

/// [C07]/[C05] pw_unwrap_key accepts the specification's blob (any salt, nonce) and returns the wrapped key; params() reads them back
pub fn unwrap_accepts_spec(KL: usize, PL: usize, mem: u64, time: u32, para: u32) {
    let pwb: [u8; PWX] = kani::any();
    let pw = &pwb[..PL];
    let kb: [u8; KX] = kani::any();
    let ptk = &kb[..KL];
    let salt: [u8; 16] = kani::any();
    let n: [u8; 24] = kani::any();
    let mut blobb = [0u8; BX];
    let blob = &mut blobb[..88 + KL];
    vspec::v2::pbkw_wrap(header(KL).as_bytes(), pw, &salt, mem, time, para, &n, ptk, blob);
    let gp = <V2 as PwWrapVersion>::get_params(blob);
    let params_ok = match gp { Ok(p) => p.mem.get() == mem && p.time.get() == time && p.para.get() == para, Err(_) => false };
    let r = <V2 as PwWrapVersion>::pw_unwrap_key(header(KL), pw, blob);
    let ok = r.is_ok();
    let same = match r { Ok(k) => k == ptk, Err(_) => false };
    vcheck_all!(
        (params_ok, "[C05] the parameters read back from a blob are those it was wrapped with"),
        (ok, "[C07] every specification-conforming PBKW blob unwraps with the right password"),
        (!ok || same, "[C05] unwrapping returns exactly the wrapped key bytes"),
    );
}

/// [C05] wrap with default parameters and the library's own randomness, then unwrap
pub fn roundtrip(KL: usize, PL: usize) {
    let pwb: [u8; PWX] = kani::any();
    let pw = &pwb[..PL];
    let kb: [u8; KX] = kani::any();
    let ptk = &kb[..KL];
    vmodel_core::rng_may_fail(false);
    let r = <V2 as PwWrapVersion>::pw_wrap_key(header(KL), pw, &Params::default(), ptk.to_vec());
    let ok = r.is_ok();
    let mut blob = r.unwrap_or_default();
    let r2 = <V2 as PwWrapVersion>::pw_unwrap_key(header(KL), pw, &mut blob);
    let same = match r2 { Ok(k) => k == ptk, Err(_) => false };
    vcheck_all!(
        (ok, "[C05] password wrapping always succeeds"),
        (!ok || same, "[C05] password wrap then unwrap returns the original key"),
    );
}

/// [C06] any flipped bit (salt, parameters, nonce, ciphertext, tag), another password, a relabelled header => Err
pub fn unwrap_rejects_tamper(KL: usize, PL: usize) {
    let pwb: [u8; PWX] = kani::any();
    let kb: [u8; KX] = kani::any();
    let ptk = &kb[..KL];
    let salt: [u8; 16] = kani::any();
    let n: [u8; 24] = kani::any();
    let mut blobb = [0u8; BX];
    let blob = &mut blobb[..88 + KL];
    vspec::v2::pbkw_wrap(header(KL).as_bytes(), &pwb[..PL], &salt, 8192 * 1024, 2, 1, &n, ptk, blob);
    let mut pw2 = pwb;
    let which: u8 = kani::any();
    let idx: usize = kani::any();
    let bit: u8 = kani::any();
    kani::assume(bit < 8);
    let mut h = header(KL);
    match which {
        0 => { kani::assume(idx < 88 + KL); blob[idx] ^= 1 << bit; }
        1 => { kani::assume(idx < PL); pw2[idx] ^= 1 << bit; }
        _ => { h = other_header(KL); }
    }
    let in_params = which == 0 && idx >= 16 && idx < 32;
    let mut beforeb = [0u8; BX];
    beforeb[..88 + KL].copy_from_slice(blob);
    let r = <V2 as PwWrapVersion>::pw_unwrap_key(h, &pw2[..PL], blob);
    let rejected = r.is_err();
    let kind_ok = matches!(r, Err(PE::CryptoError)) || (in_params && matches!(r, Err(PE::InvalidKey)));
    let untouched = blob[..] == beforeb[..88 + KL];
    vcheck_all!(
        (rejected, "[C06] a PBKW blob with any flipped bit, another password or a relabelled header is rejected"),
        (!rejected || kind_ok, "[C06] failure kinds: CryptoError (authentication) or InvalidKey (unusable parameters)"),
        (!rejected || untouched, "[C06] the wrapped key is not decrypted before authentication succeeds"),
    );
    kani::cover!(which == 0 && !in_params); kani::cover!(in_params); kani::cover!(which == 2);
}

/// [C04] every blob length class and every parameter block: no panic; shorter than the fixed part => InvalidKey
pub fn unwrap_short(L: usize) {
    let pw: [u8; 2] = kani::any();
    let mut b: [u8; BX] = kani::any();
    let gp = <V2 as PwWrapVersion>::get_params(&b[..L]);
    let r = <V2 as PwWrapVersion>::pw_unwrap_key(".local-pw.", &pw, &mut b[..L]);
    if L < 88 {
        vassert!(matches!(r, Err(PE::InvalidKey)), "[C04] a too-short PBKW blob is InvalidKey");
    } else {
        vassert!(matches!(r, Err(PE::CryptoError)) || matches!(r, Err(PE::InvalidKey)) || r.is_ok(), "[C06] a full-length PBKW blob fails only with CryptoError or InvalidKey");
    }
    vassert!(gp.is_ok() == (L >= 56), "[C04] parameters are readable exactly when the fixed prefix is present");
}

/// [C16] RNG failure at either draw => Err(CryptoError), no blob
pub fn wrap_fail_closed() {
    let pw: [u8; 2] = kani::any();
    let kb: [u8; 32] = kani::any();
    vmodel_core::rng_may_fail(true);
    let r = <V2 as PwWrapVersion>::pw_wrap_key(".local-pw.", &pw, &Params::default(), kb.to_vec());
    let all_ok = vmodel_core::rng_all_ok();
    match r {
        Ok(_) => vassert!(all_ok && vmodel_core::rng_draws() == 2, "[C16] PBKW succeeds only when both RNG draws succeeded"),
        Err(e) => vcheck_all!(
            (!all_ok, "[C16] PBKW fails only when the RNG failed"),
            (matches!(e, PE::CryptoError), "[C16] RNG failure is reported as CryptoError"),
        ),
    }
    kani::cover!(all_ok); kani::cover!(!all_ok && vmodel_core::rng_draws() == 2, "failure at the second draw explored");
}

pub fn canary_inputs() {
    let pw: [u8; 2] = kani::any();
    let kb: [u8; 32] = kani::any();
    vmodel_core::rng_may_fail(false);
    let mut blob = <V2 as PwWrapVersion>::pw_wrap_key(".local-pw.", &pw, &Params::default(), kb.to_vec()).unwrap_or_default();
    let _ = <V2 as PwWrapVersion>::pw_unwrap_key(".local-pw.", &pw, &mut blob);
    vassert!(pw[0] != 0x5a || kb[31] != 0xa5, "canary: must fail (false claim about the symbolic inputs)");
}

macro_rules! inst {
    ($($name:ident = $f:ident($($g:literal),*);)*) => { $(
        #[kani::proof] #[kani::unwind(200)]
        #[kani::stub(Params::pbkdf, pbkdf_assume_valid)]
        pub fn $name() { $f($($g),*); kani::cover!(true, "harness end reachable"); }
    )* };
}
inst! {
    wrap_is_spec_32_default = wrap_is_spec(32, 2, 19922944, 2, 1, true);
    wrap_is_spec_64_custom = wrap_is_spec(64, 1, 8388608, 3, 2, false);
    unwrap_accepts_spec_32 = unwrap_accepts_spec(32, 2, 19922944, 2, 1);
    unwrap_accepts_spec_64 = unwrap_accepts_spec(64, 1, 8388608, 3, 2);
    roundtrip_32 = roundtrip(32, 2); roundtrip_64 = roundtrip(64, 1);
    unwrap_rejects_tamper_32 = unwrap_rejects_tamper(32, 2); unwrap_rejects_tamper_64 = unwrap_rejects_tamper(64, 1);
    unwrap_len_88 = unwrap_short(88); unwrap_len_121 = unwrap_short(121);
    wrap_fail_closed_h = wrap_fail_closed();
    canary_inputs_h = canary_inputs();
}
// harnesses that run the REAL Params::pbkdf
#[kani::proof] #[kani::unwind(200)]
pub fn pbkdf_contract_h() { pbkdf_contract(); kani::cover!(true, "harness end reachable"); }
#[kani::proof] #[kani::unwind(200)]
pub fn unwrap_short_0() { unwrap_short(0); }
#[kani::proof] #[kani::unwind(200)]
pub fn unwrap_short_55() { unwrap_short(55); }
#[kani::proof] #[kani::unwind(200)]
pub fn unwrap_short_56() { unwrap_short(56); }
#[kani::proof] #[kani::unwind(200)]
pub fn unwrap_short_87() { unwrap_short(87); }
// @@PLAYBACK@@
