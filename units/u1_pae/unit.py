from vrf.core import Unit, Harness

F = "paseto-core/src/pae.rs"


def unit():
    fn = [f"{F}::pre_auth_encode", "paseto-core/src/encodings.rs::<&mut W as WriteBytes>::write"]
    hs = [Harness(f"pae_n{n}", ["C15", "C02"], tier="quick" if n <= 3 else ("thorough" if n <= 5 else "manual"), functions=fn, timeout=3600 if n <= 5 else 7200,
                  desc=f"N={n} pieces, every fragmentation into 0..=4 fragments, ALL fragment lengths (unbounded symbolic): writer receives exactly le64(N) || per piece le64(total) || fragments by identity")
          for n in range(0, 9)]
    hs += [Harness(f"pae_focus_n{n}", ["C15", "C02"], functions=fn, timeout=3000, complete=False, tier="quick" if n <= 5 else "thorough",
                   bound=f"N={n}: one piece (symbolic position) with 0..=4 fragments, the others with exactly one; ALL fragment lengths",
                   desc="same postcondition, fragmentation of one piece at a time") for n in range(4, 9)]
    hs.append(Harness("vec_writer_appends", ["C15"], complete=False, bound="slices of <= 4 and <= 8 bytes", functions=["paseto-core/src/encodings.rs::<Vec<u8> as WriteBytes>::write", "paseto-core/src/encodings.rs::<&mut W as WriteBytes>::write"]))
    hs.append(Harness("canary_pae", ["C15"], expect="fail"))
    return Unit(
        name="u1_pae", members=["paseto-core"], package="paseto-core",
        inject=[(F, "units/u1_pae/harness.rs")], harness_path="pae::verif", allow_unsafe=True,
        kani_flags=["--no-assertion-reach-checks"], harnesses=hs, quick_cap=9,
        assumptions=["slices handed to pre_auth_encode are real objects: each fragment shorter than 2^40 bytes (so the u64 sum of <= 4 lengths cannot overflow; the overflow check itself is an obligation)",
                     "a streaming writer that is handed the same (pointer, length) receives the same bytes"],
        trusted=["alloc::alloc::alloc as modelled by Kani (objects of symbolic size)"],
    )
