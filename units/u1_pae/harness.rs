// U1 — paseto-core/src/pae.rs (pre_auth_encode) and encodings.rs (WriteBytes for Vec<u8>, &mut W).
// Postcondition (property C15): the writer receives exactly
//     le64(N) ‖ for each piece i: le64(Σ_j |frag_ij|) ‖ frag_i0 ‖ frag_i1 ‖ …
// in this order, every fragment *by identity* (same pointer, same length — hence same bytes), nothing else.
// Fragment lengths are UNBOUNDED symbolic usize values (objects of symbolic size; the code never reads fragment bytes), the
// number of fragments of every piece is symbolic in 0..=4, N is the const generic (one harness per N in 0..=8):
// exactly the property's quantifier, so these obligations are complete.
use alloc::vec::Vec; use alloc::vec;
macro_rules! vassert { ($c:expr, $m:literal) => { kani::assert($c, $m) }; }

const MAXF: usize = 4;
const MAXREC: usize = 1 + 8 * (1 + MAXF);

/// Ghost log of the writes, as parallel arrays of plain integers (no bool / padding: values read at a symbolic index stay exact).
struct Log<const N: usize> { n: usize, ptr: [usize; MAXREC], len: [usize; MAXREC], is_head: [u8; MAXREC], head: [u64; MAXREC], frags: [[(usize, usize); MAXF]; N] }
impl<const N: usize> Log<N> {
    fn new(frags: [[(usize, usize); MAXF]; N]) -> Self { Log { n: 0, ptr: [0; MAXREC], len: [0; MAXREC], is_head: [0; MAXREC], head: [0; MAXREC], frags } }
}
impl<const N: usize> WriteBytes for Log<N> {
    fn write(&mut self, slice: &[u8]) {
        let p = slice.as_ptr() as usize;
        // a write is a fragment iff it is (pointer, length)-identical to one of the fragments handed in; empty fragments
        // carry no bytes, so their identity is their (zero) length. Fragment memory is never dereferenced.
        let mut is_frag = slice.len() == 0;
        let mut i = 0;
        while i < N {
            let mut j = 0;
            while j < MAXF {
                let (q, l) = self.frags[i][j];
                if l != 0 && q == p && l == slice.len() { is_frag = true; }
                j += 1;
            }
            i += 1;
        }
        let mut head = 0u64;
        if !is_frag {
            vassert!(slice.len() == 8, "[C15] every non-fragment write is an 8-byte length/count header");
            let mut h = [0u8; 8];
            h.copy_from_slice(slice);
            head = u64::from_le_bytes(h);
        }
        vassert!(self.n < MAXREC, "[C15] no more writes than count + per piece (length + fragments)");
        let k = self.n;
        self.ptr[k] = p; self.len[k] = slice.len(); self.is_head[k] = (!is_frag) as u8; self.head[k] = head;
        self.n += 1;
    }
}

fn frag(len: usize) -> &'static [u8] {
    if len == 0 { return &[]; }
    unsafe {
        let p = alloc::alloc::alloc(core::alloc::Layout::from_size_align(len, 1).unwrap());
        kani::assume(!p.is_null());
        core::slice::from_raw_parts(p as *const u8, len)
    }
}

/// `focus`: None = every piece has a symbolic number of fragments (full product, N <= 5 tractable);
/// Some = only ONE piece, at a symbolic position, has a symbolic fragment count 0..=4, all others have exactly one fragment
/// (the loop body of pre_auth_encode treats pieces independently; used for N = 4..=8 in the quick tier).
fn pae_shape<const N: usize>() { pae_shape_f::<N>(false) }
fn pae_focus<const N: usize>() { pae_shape_f::<N>(true) }
fn pae_shape_f<const N: usize>(focus: bool) {
    // real memory: the total length of everything that exists fits isize (precondition "slices are real objects")
    const LIM: usize = 1 << 40;
    let lens: [[usize; MAXF]; N] = kani::any();
    let cnt: [usize; N] = kani::any();
    let empty: &'static [u8] = &[];
    let mut store: [[&'static [u8]; MAXF]; N] = [[empty; MAXF]; N];
    let mut ids: [[(usize, usize); MAXF]; N] = [[(0, 0); MAXF]; N];
    let fp: usize = kani::any();
    let mut i = 0;
    while i < N {
        kani::assume(cnt[i] <= MAXF);
        if focus { kani::assume(fp < N && (i == fp || cnt[i] == 1)); }
        let mut j = 0;
        while j < MAXF {
            kani::assume(lens[i][j] < LIM);
            let f = frag(lens[i][j]);
            store[i][j] = f;
            ids[i][j] = (f.as_ptr() as usize, lens[i][j]);
            j += 1;
        }
        i += 1;
    }
    let mut pieces: [&[&[u8]]; N] = [&[]; N];
    let mut i = 0;
    while i < N { pieces[i] = &store[i][..cnt[i]]; i += 1; }

    let mut log = Log::<N>::new(ids);
    pre_auth_encode(pieces, &mut log);

    // expected trace
    let mut k = 0usize;
    vassert!(log.n >= 1 && log.is_head[0] == 1 && log.head[0] == N as u64, "[C15] first the little-endian 64-bit piece count");
    k += 1;
    let mut i = 0;
    while i < N {
        let mut total: u64 = 0;
        let mut j = 0;
        while j < MAXF { if j < cnt[i] { total += lens[i][j] as u64; } j += 1; }
        vassert!(k < log.n && log.is_head[k] == 1 && log.head[k] == total,
            "[C15] each piece starts with the little-endian 64-bit total length of its fragments");
        k += 1;
        let mut j = 0;
        while j < MAXF {
            if j < cnt[i] {
                vassert!(k < log.n && log.len[k] == lens[i][j] && (lens[i][j] == 0 || (log.is_head[k] == 0 && log.ptr[k] == ids[i][j].0)),
                    "[C15] then every fragment of the piece, in order, by identity (same bytes)");
                k += 1;
            }
            j += 1;
        }
        i += 1;
    }
    vassert!(k == log.n, "[C15] nothing else is written");
}

macro_rules! shapes { ($($name:ident = $n:literal unwind $u:literal;)*) => { $(
    #[kani::proof] #[kani::unwind($u)]
    pub fn $name() { pae_shape::<$n>(); kani::cover!(true, "harness end reachable"); }
)* }; }
shapes! {
    pae_n0 = 0 unwind 10; pae_n1 = 1 unwind 10; pae_n2 = 2 unwind 10; pae_n3 = 3 unwind 10; pae_n4 = 4 unwind 10;
    pae_n5 = 5 unwind 10; pae_n6 = 6 unwind 10; pae_n7 = 7 unwind 10; pae_n8 = 8 unwind 10;
}
macro_rules! focus { ($($name:ident = $n:literal;)*) => { $(
    #[kani::proof] #[kani::unwind(10)]
    pub fn $name() { pae_focus::<$n>(); kani::cover!(true, "harness end reachable"); }
)* }; }
focus! { pae_focus_n4 = 4; pae_focus_n5 = 5; pae_focus_n6 = 6; pae_focus_n7 = 7; pae_focus_n8 = 8; }

/// Vec<u8> writer: appends exactly the slice (streaming writers receive the same byte sequence as a buffer would hold)
#[kani::proof] #[kani::unwind(12)]
pub fn vec_writer_appends() {
    let a: [u8; 4] = kani::any();
    let b: [u8; 8] = kani::any();
    let la: usize = kani::any(); let lb: usize = kani::any();
    kani::assume(la <= 4 && lb <= 8);
    let mut v: alloc::vec::Vec<u8> = alloc::vec::Vec::new();
    WriteBytes::write(&mut v, &a[..la]);
    let mut r = &mut v;
    WriteBytes::write(&mut r, &b[..lb]); // &mut W forwards to W
    vassert!(v.len() == la + lb, "[C15] the Vec writer grows by exactly the slice length");
    let i: usize = kani::any();
    kani::assume(i < la + lb);
    vassert!(v[i] == if i < la { a[i] } else { b[i - la] }, "[C15] the Vec writer (and &mut W) append exactly the bytes, in order");
}

#[kani::proof] #[kani::unwind(10)]
pub fn canary_pae() {
    let l: usize = kani::any();
    kani::assume(l < (1 << 40));
    let f0 = frag(l);
    let ids = [[(f0.as_ptr() as usize, l), (0, 0), (0, 0), (0, 0)]];
    let mut log = Log::<1>::new(ids);
    let fr = [f0];
    pre_auth_encode([&fr[..]], &mut log);
    vassert!(l != 600, "canary: must fail (false claim about the symbolic fragment length)");
}
// @@PLAYBACK@@
