// native probe against the REAL crates (scratch copy only): facts the p384/ctr models rely on
use paseto_core::key::HasKey;
use paseto_core::version::{Public, SealingVersion, Local};
use paseto_v3::core::V3;

#[test]
fn public_key_decoder_accepts_uncompressed_and_compact() {
    let sk = <V3 as SealingVersion<Public>>::random().unwrap();
    let pk = <V3 as SealingVersion<Public>>::unsealing_key(&sk);
    let c = <V3 as HasKey<Public>>::encode(&pk);
    assert_eq!(c.len(), 49);
    assert!(c[0] == 2 || c[0] == 3);
    // uncompressed 04 || X || Y via the real p384 crate
    let vk = p384::ecdsa::VerifyingKey::from_sec1_bytes(&c).unwrap();
    let unc = vk.to_encoded_point(false);
    assert_eq!(unc.as_bytes().len(), 97);
    let k97 = <V3 as HasKey<Public>>::decode(unc.as_bytes());
    println!("97-byte uncompressed accepted: {}", k97.is_ok());
    assert!(k97.is_ok());
    assert_eq!(&<V3 as HasKey<Public>>::encode(&k97.unwrap())[..], &c[..]);
    // compact 05 || X
    let mut compact = c.to_vec();
    compact[0] = 5;
    let k05 = <V3 as HasKey<Public>>::decode(&compact);
    println!("49-byte tag-05 accepted: {}", k05.is_ok());
    assert!(k05.is_ok());
    let re = <V3 as HasKey<Public>>::encode(&k05.unwrap());
    println!("re-encoded tag: {:02x} (input tag 05)", re[0]);
    assert_ne!(&re[..], &compact[..]);
    // identity and tag 04 with 49 bytes are rejected
    assert!(<V3 as HasKey<Public>>::decode(&[0u8]).is_err());
    let mut bad = c.to_vec(); bad[0] = 4;
    assert!(<V3 as HasKey<Public>>::decode(&bad).is_err());
}

#[test]
fn ctr64_differs_from_ctr128_when_low_word_wraps() {
    use cipher::{KeyIvInit, StreamCipher};
    let key = [7u8; 32];
    let mut iv = [0x11u8; 16];
    for b in &mut iv[8..] { *b = 0xff; }
    let mut a = [0u8; 32];
    let mut b = [0u8; 32];
    ctr::Ctr64BE::<aes::Aes256>::new(&key.into(), &iv.into()).apply_keystream(&mut a);
    ctr::Ctr128BE::<aes::Aes256>::new(&key.into(), &iv.into()).apply_keystream(&mut b);
    assert_eq!(a[..16], b[..16]);
    assert_ne!(a[16..], b[16..]);
    println!("block 1 differs between Ctr64BE and Ctr128BE for iv low word = ff..ff");
    let _ = <V3 as SealingVersion<Local>>::random();
}
