from vrf.core import Unit, Harness

SYM = {"sha2": "models/sha2", "hmac": "models/hmac", "hkdf": "models/hkdf", "aes": "models/aes", "ctr": "models/ctr",
       "getrandom": "models/getrandom"}
A_SHA = "SHA-384 is a deterministic collision-free uninterpreted function of the message [ideal hash]"
A_HMAC = "HMAC-SHA384 is a deterministic collision-free uninterpreted function of (key, message) [ideal MAC]"
A_HKDF = "HKDF-SHA384 is a deterministic collision-free uninterpreted function of (ikm, salt, info, length) [ideal KDF]"
A_AES = "the AES-256 block function is a deterministic uninterpreted function of (key, block); ctr::Ctr64BE/Ctr128BE carry their TRUE counter arithmetic (64-bit / 128-bit big-endian increment) over it"
A_RNG = "getrandom::fill either fails or fills the buffer with arbitrary bytes"
A_PAE = "pre_auth_encode is replaced by its contract (proved in unit u1_pae)"
A_PBKDF = "PBKDF2-HMAC-SHA384 is a deterministic collision-free uninterpreted function of (password, salt, iterations, length); iterations are data, never executed"
A_P384 = ("P-384: public key = collision-free uninterpreted function of the scalar (valid iff 0 < d < n, exact); point validity = uninterpreted predicate of X; "
          "ECDSA (RFC 6979) = deterministic uninterpreted function of (public key, digest) with 0 < r,s < n; IDEAL SIGNATURE: verify(pk, digest, sig) iff sig was produced for exactly (pk, digest); "
          "ECDH = commutative uninterpreted function of the two X coordinates")
TRUSTED = ["digest, cipher, crypto-common, inout, generic-array, typenum, subtle, zerocopy, signature (real crates, compiled by Kani)"]
DEV = {"paseto-v3/Cargo.toml": ['vspec = { path = "../verif-models/vspec" }', 'vmodel-core = { path = "../verif-models/vmodel-core" }']}
FLAGS = ["-Z", "stubbing", "--no-assertion-reach-checks"]

L = "paseto-v3/src/core/local.rs"


def v3_local():
    fl = [f"{L}::{f}" for f in ("dangerous_seal_with_nonce", "unseal", "keys", "kdf", "preauth_local", "nonce")]
    B = "contents symbolic"
    hs = [
        Harness("seal_is_spec_0_0_0", ["C03", "C01"], complete=False, bound=f"|m|=0,|f|=0,|a|=0; {B}", functions=fl),
        Harness("seal_is_spec_1_0_0", ["C03", "C01"], complete=False, bound=f"|m|=1,|f|=0,|a|=0; {B}", functions=fl),
        Harness("seal_is_spec_3_2_1", ["C03", "C01"], complete=False, bound=f"|m|=3,|f|=2,|a|=1; {B}", functions=fl),
        Harness("seal_is_spec_16_0_0", ["C03", "C01"], complete=False, bound=f"|m|=16 (one AES block),|f|=0,|a|=0; {B}", functions=fl),
        Harness("seal_is_spec_17_0_0", ["C03", "C01"], complete=False, bound=f"|m|=17 (two AES blocks: counter-width obligation),|f|=0,|a|=0; {B}", functions=fl),
        Harness("unseal_accepts_spec_0_0_0", ["C03", "C01"], complete=False, bound="|m|=0,|f|=0,|a|=0", functions=fl),
        Harness("unseal_accepts_spec_3_2_1", ["C03", "C01"], complete=False, bound="|m|=3,|f|=2,|a|=1", functions=fl),
        Harness("unseal_accepts_spec_17_0_0", ["C03", "C01"], complete=False, bound="|m|=17 (two AES blocks: counter-width obligation),|f|=0,|a|=0", functions=fl),
        Harness("roundtrip_own_nonce_1_1_1", ["C01", "C16"], complete=False, bound="|m|=1,|f|=1,|a|=1", functions=fl),
        Harness("roundtrip_own_nonce_0_0_0", ["C01", "C16"], complete=False, bound="|m|=0,|f|=0,|a|=0", functions=fl),
        Harness("roundtrip_own_nonce_17_0_0", ["C01", "C16"], complete=False, bound="|m|=17,|f|=0,|a|=0", functions=fl),
        Harness("unseal_rejects_tamper_0_0_0", ["C02", "C12"], complete=False, bound="|m|=0,|f|=0,|a|=0; flip position and bit symbolic", functions=fl, timeout=1800),
        Harness("unseal_rejects_tamper_1_1_1", ["C02", "C12"], complete=False, bound="|m|=1,|f|=1,|a|=1; flip position and bit symbolic", functions=fl, timeout=1800),
        Harness("unseal_rejects_boundary_shift_1", ["C02"], complete=False, bound="|m|=1, footer+assertion 2 bytes", functions=fl),
        Harness("canary_wrong_aad_1", ["C01", "C02", "C03", "C12"], expect="fail"),
        Harness("local_key_codec_h", ["C08", "C10", "C04"], complete=False, bound="key byte strings of length 0..=40", functions=[f"{L}::decode", f"{L}::encode"]),
        Harness("local_key_random_h", ["C16"], functions=[f"{L}::random"]),
        Harness("nonce_fail_closed_h", ["C16"], functions=[f"{L}::nonce"]),
    ]
    for n in (0, 47, 79, 80, 82):
        hs.append(Harness(f"unseal_short_{n}", ["C04", "C12"], complete=False, bound=f"payload length {n}", functions=[f"{L}::unseal"]))
    return Unit(
        name="v3_local", members=["paseto-core", "paseto-v3"], package="paseto-v3",
        inject=[(L, ["units/common/pae_stub.rs", "units/v3/local.rs"])],
        patches=SYM, harness_path="core::local::verif",
        kani_flags=FLAGS, no_default_features=True, features=["encrypting"],
        dev_deps=DEV, harnesses=hs, assumptions=[A_HKDF, A_HMAC, A_AES, A_RNG, A_PAE], trusted=TRUSTED,
    )

P = "paseto-v3/src/core/public.rs"
ASYM = {"p384": "models/p384", "sha2": "models/sha2", "getrandom": "models/getrandom"}


def v3_public():
    fl = [f"{P}::{f}" for f in ("dangerous_seal_with_nonce", "unseal", "preauth_public", "unsealing_key", "nonce")]
    kd = [f"{P}::decode", f"{P}::encode"]
    hs = [
        Harness("sign_is_spec_0_0_0", ["C03", "C01"], complete=False, bound="|m|=0,|f|=0,|a|=0; contents symbolic", functions=fl),
        Harness("sign_is_spec_3_2_1", ["C03", "C01"], complete=False, bound="|m|=3,|f|=2,|a|=1; contents symbolic", functions=fl),
        Harness("verify_accepts_spec_0_0_0", ["C03", "C01"], complete=False, bound="|m|=0,|f|=0,|a|=0", functions=fl + kd),
        Harness("verify_accepts_spec_3_2_1", ["C03", "C01"], complete=False, bound="|m|=3,|f|=2,|a|=1", functions=fl + kd),
        Harness("verify_accepts_spec_twin_0_0_0", ["C03", "C01"], complete=False, bound="|m|=0,|f|=0,|a|=0; the specification token with s replaced by n - s", functions=fl + kd),
        Harness("verify_accepts_spec_twin_3_2_1", ["C03", "C01"], complete=False, bound="|m|=3,|f|=2,|a|=1; the specification token with s replaced by n - s", functions=fl + kd),
        Harness("roundtrip_own_nonce_0_0_0", ["C01"], complete=False, bound="|m|=0,|f|=0,|a|=0", functions=fl),
        Harness("roundtrip_own_nonce_1_1_1", ["C01"], complete=False, bound="|m|=1,|f|=1,|a|=1", functions=fl),
        Harness("verify_rejects_tamper_0_0_0", ["C02", "C12"], complete=False, bound="|m|=0,|f|=0,|a|=0; flip position and bit symbolic", functions=fl + kd, timeout=1800),
        Harness("verify_rejects_tamper_1_1_1", ["C02", "C12"], complete=False, bound="|m|=1,|f|=1,|a|=1; flip position and bit symbolic", functions=fl + kd, timeout=1800),
        Harness("verify_rejects_boundary_shift_1", ["C02"], complete=False, bound="|m|=1, footer+assertion 2 bytes", functions=fl),
        Harness("verify_rejects_message_shift_h", ["C02"], complete=False, bound="message+footer 3 bytes", functions=fl),
        Harness("canary_wrong_aad_1", ["C01", "C02", "C03", "C12"], expect="fail"),
        Harness("public_key_codec_49", ["C08", "C10", "C04"], complete=False, bound="all 49-byte strings", functions=kd),
        Harness("public_key_codec_97", ["C08", "C10", "C04"], complete=False, bound="all 97-byte strings", functions=kd),
        Harness("public_key_codec_1", ["C08", "C10", "C04"], complete=False, bound="all 1-byte strings (incl. the identity encoding 00)", functions=kd),
        Harness("public_key_codec_h", ["C08", "C10", "C04"], complete=False, bound="all strings of length 0..=100 other than 1, 49, 97", functions=kd),
        Harness("public_key_roundtrip_h", ["C08"], functions=kd + [f"{P}::unsealing_key"]),
        Harness("secret_key_codec_48", ["C08", "C10", "C04"], functions=kd + [f"{P}::unsealing_key"]),
        Harness("secret_key_codec_h", ["C08", "C10", "C04"], complete=False, bound="all strings of length 0..=100 other than 48", functions=kd),
        Harness("secret_key_random_h", ["C16"], complete=False, bound="rejection-sampling loop: at most one rejected draw (second draw assumed in range)", functions=[f"{P}::random"]),
    ]
    for n in (0, 95, 96, 98):
        hs.append(Harness(f"verify_short_{n}", ["C04", "C12"], complete=False, bound=f"payload length {n}", functions=[f"{P}::unseal"]))
    return Unit(
        name="v3_public", members=["paseto-core", "paseto-v3"], package="paseto-v3",
        inject=[(P, ["units/common/pae_stub.rs", "units/v3/public.rs"])],
        patches=ASYM, harness_path="core::public::verif",
        kani_flags=FLAGS, no_default_features=True, features=["signing"],
        dev_deps=DEV, harnesses=hs, assumptions=[A_SHA, A_P384, A_RNG, A_PAE], trusted=TRUSTED,
    )

ALL = dict(SYM, **{"p384": "models/p384", "pbkdf2": "models/pbkdf2"})
PIE = "paseto-v3/src/core/pie_wrap.rs"
PBKW = "paseto-v3/src/core/pw_wrap.rs"
PKE = "paseto-v3/src/core/pke.rs"
MOD = "paseto-v3/src/core/mod.rs"
CTR_NOTE = "two/three AES blocks: counter-width obligation"


def v3_pie():
    fl = [f"{PIE}::{f}" for f in ("pie_wrap_key", "pie_unwrap_key", "wrap_keys", "kdf", "auth")]
    hs = [
        Harness("wrap_is_spec_16", ["C07", "C05"], complete=False, bound="|key data|=16 (one AES block; not a key length)", functions=fl),
        Harness("wrap_is_spec_32", ["C07", "C05"], complete=False, bound=f"local key (32 bytes; {CTR_NOTE})", functions=fl),
        Harness("wrap_is_spec_48", ["C07", "C05"], complete=False, bound=f"secret key (48 bytes; {CTR_NOTE})", functions=fl),
        Harness("unwrap_accepts_spec_16", ["C07", "C05"], complete=False, bound="|key data|=16 (one AES block; not a key length)", functions=fl),
        Harness("unwrap_accepts_spec_32", ["C07", "C05"], complete=False, bound=f"local key (32 bytes; {CTR_NOTE})", functions=fl),
        Harness("unwrap_accepts_spec_48", ["C07", "C05"], complete=False, bound=f"secret key (48 bytes; {CTR_NOTE})", functions=fl),
        Harness("roundtrip_32", ["C05", "C16"], complete=False, bound="local key", functions=fl),
        Harness("roundtrip_48", ["C05", "C16"], complete=False, bound="secret key", functions=fl),
        Harness("unwrap_rejects_tamper_32", ["C06"], complete=False, bound="local key; flip position and bit symbolic", functions=fl, timeout=1800),
        Harness("unwrap_rejects_tamper_48", ["C06"], complete=False, bound="secret key; flip position and bit symbolic", functions=fl, timeout=1800),
        Harness("wrap_fail_closed_h", ["C16"], functions=fl),
        Harness("canary_inputs_h", ["C05", "C06", "C07", "C16"], expect="fail"),
    ]
    for n in (0, 47, 79, 80, 113):
        hs.append(Harness(f"unwrap_short_{n}", ["C04"], complete=False, bound=f"blob length {n}", functions=[f"{PIE}::pie_unwrap_key"]))
    return Unit(
        name="v3_pie", members=["paseto-core", "paseto-v3"], package="paseto-v3",
        inject=[(PIE, ["units/common/pae_stub.rs", "units/v3/pie.rs"])],
        patches=SYM, harness_path="core::pie_wrap::verif",
        kani_flags=FLAGS, no_default_features=True, features=["pie-wrap"],
        dev_deps=DEV, harnesses=hs, assumptions=[A_HMAC, "unwrap_rejects_tamper_*, other-wrapping-key case only: HMAC-SHA384 truncated to 256 bits (the k3 PIE authentication key) is collision-free on the explored inputs", A_AES, A_RNG], trusted=TRUSTED,
    )


def v3_pbkw():
    fl = [f"{PBKW}::{f}" for f in ("pw_wrap_key", "pw_unwrap_key", "get_params", "wrap_keys", "kdf", "auth")]
    hs = [
        Harness("wrap_is_spec_16_default", ["C07", "C05"], complete=False, bound="|key data|=16 (one AES block; not a key length), |pw|=2, default parameters", functions=fl),
        Harness("wrap_is_spec_32_default", ["C07", "C05"], complete=False, bound=f"local key ({CTR_NOTE}), |pw|=2, default parameters", functions=fl),
        Harness("wrap_is_spec_48_custom", ["C07", "C05"], complete=False, bound=f"secret key ({CTR_NOTE}), |pw|=1, any iteration count >= 1", functions=fl),
        Harness("unwrap_accepts_spec_16", ["C07", "C05"], complete=False, bound="|key data|=16 (one AES block), |pw|=2, any iteration count >= 1", functions=fl),
        Harness("unwrap_accepts_spec_32", ["C07", "C05"], complete=False, bound=f"local key ({CTR_NOTE}), |pw|=2, any iteration count >= 1", functions=fl),
        Harness("unwrap_accepts_spec_48", ["C07", "C05"], complete=False, bound=f"secret key ({CTR_NOTE}), empty password, any iteration count >= 1", functions=fl),
        Harness("roundtrip_32_default", ["C05", "C16"], complete=False, bound="local key, |pw|=2, default parameters", functions=fl),
        Harness("roundtrip_48_custom", ["C05", "C16"], complete=False, bound="secret key, empty password, any iteration count", functions=fl),
        Harness("unwrap_rejects_tamper_32", ["C06"], complete=False, bound="local key, |pw|=2; flip position and bit symbolic", functions=fl, timeout=1800),
        Harness("unwrap_rejects_tamper_48", ["C06"], complete=False, bound="secret key, |pw|=1; flip position and bit symbolic", functions=fl, timeout=1800),
        Harness("wrap_fail_closed_h", ["C16"], functions=fl),
        Harness("canary_inputs_h", ["C05", "C06", "C07", "C16"], expect="fail"),
    ]
    for n in (0, 51, 52, 99, 100, 133):
        hs.append(Harness(f"unwrap_short_{n}", ["C04"], complete=False, bound=f"blob length {n}, any parameter block", functions=[f"{PBKW}::pw_unwrap_key", f"{PBKW}::get_params"]))
    return Unit(
        name="v3_pbkw", members=["paseto-core", "paseto-v3"], package="paseto-v3",
        inject=[(PBKW, ["units/common/pae_stub.rs", "units/v3/pbkw.rs"])],
        patches=dict(SYM, pbkdf2="models/pbkdf2"), harness_path="core::pw_wrap::verif",
        kani_flags=FLAGS, no_default_features=True, features=["pbkw"],
        dev_deps=DEV, harnesses=hs, assumptions=[A_PBKDF, A_SHA, A_HMAC, A_AES, A_RNG], trusted=TRUSTED,
    )


def v3_pke():
    fl = [f"{PKE}::{f}" for f in ("seal_key", "unseal_key")]
    B = "32-byte data key (two AES blocks: counter-width obligation)"
    hs = [
        Harness("seal_is_spec_h", ["C07", "C05"], complete=False, bound=f"{B}; ephemeral draw assumed in 1..n-1", functions=fl),
        Harness("unseal_accepts_spec_h", ["C07", "C05"], complete=False, bound=B, functions=fl),
        Harness("roundtrip_h", ["C05", "C16"], complete=False, bound="ephemeral draw assumed in 1..n-1", functions=fl),
        Harness("unseal_rejects_tamper_h", ["C06"], complete=False, bound="flip position and bit symbolic", functions=fl, timeout=1800),
        Harness("seal_fail_closed_h", ["C16"], complete=False, bound="ephemeral draw assumed in 1..n-1 (retry loop: v3_public::secret_key_random_h)", functions=fl),
        Harness("pke_key_codec_h", ["C08"], functions=[f"{PKE}::decode", f"{PKE}::encode"]),
        Harness("pke_secret_key_codec_h", ["C08"], functions=[f"{PKE}::decode", f"{PKE}::encode"]),
        Harness("canary_inputs_h", ["C05", "C06", "C07", "C16"], expect="fail"),
    ]
    for n in (0, 47, 96, 97, 128, 129, 130):
        hs.append(Harness(f"unseal_len_{n}", ["C04", "C06"], complete=False, bound=f"blob length {n}", functions=[f"{PKE}::unseal_key"]))
    return Unit(
        name="v3_pke", members=["paseto-core", "paseto-v3"], package="paseto-v3",
        inject=[(PKE, ["units/common/pae_stub.rs", "units/v3/pke.rs"])],
        patches=dict(SYM, p384="models/p384"), harness_path="core::pke::verif",
        kani_flags=FLAGS, no_default_features=True, features=["pke"],
        dev_deps=DEV, harnesses=hs, assumptions=[A_P384, A_SHA, A_HMAC, A_AES, A_RNG], trusted=TRUSTED,
    )


def v3_id():
    fl = [f"{MOD}::hash_key"]
    hs = [
        Harness("id_is_spec_52", ["C13"], complete=False, bound="PASERK text of 52 bytes (k3.local.*), all three id kinds", functions=fl),
        Harness("id_is_spec_74", ["C13"], complete=False, bound="PASERK text of 74 bytes (k3.secret.*)", functions=fl),
        Harness("id_is_spec_76", ["C13"], complete=False, bound="PASERK text of 76 bytes (k3.public.*)", functions=fl),
        Harness("id_is_spec_1", ["C13"], complete=False, bound="text of 1 byte", functions=fl),
        Harness("id_domain_separated_h", ["C13"], complete=False, bound="text of 10 bytes", functions=fl),
        Harness("canary_inputs_h", ["C13"], expect="fail"),
    ]
    return Unit(
        name="v3_id", members=["paseto-core", "paseto-v3"], package="paseto-v3",
        inject=[(MOD, ["units/common/pae_stub.rs", "units/v3/id.rs"])],
        patches={"sha2": "models/sha2"}, harness_path="core::verif",
        kani_flags=FLAGS, no_default_features=True, features=["id"],
        dev_deps=DEV, harnesses=hs, assumptions=[A_SHA], trusted=TRUSTED,
    )


def units():
    return [v3_local(), v3_public(), v3_pie(), v3_pbkw(), v3_pke(), v3_id()]
