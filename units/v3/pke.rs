// U8 (v3, PASERK PKE seal) — appended to paseto-v3/src/core/pke.rs. Blob: tag(48) ‖ epk(49, compressed) ‖ edk(32).
use paseto_core::version::SealingVersion;
use paseto_core::PasetoError as PE;

const BL: usize = 129;

/// Secret key of an (assumed in-range) scalar, built without a symbolic accept/reject branch (README rule 3).
fn sk_of(d: &[u8; 48]) -> SecretKey {
    SecretKey(p384::ecdsa::SigningKey::from(p384::NonZeroScalar::model_new_unchecked(d)))
}
fn pk_of(d: &[u8; 48]) -> PublicKey {
    <V3 as SealingVersion<Public>>::unsealing_key(&sk_of(d))
}
fn any_scalar() -> [u8; 48] {
    let d: [u8; 48] = kani::any();
    kani::assume(p384::model::in_range(&d));
    d
}
/// SecretKey::random() is a rejection-sampling loop. In the seal harnesses the ephemeral draw is ASSUMED in range (the excluded
/// event — a 384-bit draw that is 0 or >= n — has probability < 2^-190); the loop itself is explored in v3_public::secret_key_random_h.
fn from_bytes_assumed_in_range(bytes: &p384::FieldBytes) -> Result<p384::ecdsa::SigningKey, p384::ecdsa::Error> {
    let mut d = [0u8; 48];
    d.copy_from_slice(bytes);
    kani::assume(p384::model::in_range(&d));
    Ok(p384::ecdsa::SigningKey::from(p384::NonZeroScalar::model_new_unchecked(&d)))
}
/// For seal_fail_closed_h: the key pair of the (previewed, assumed in-range) ephemeral draw is derived by the harness BEFORE
/// seal_key runs and handed out here without model calls, so that the path on which the RNG fails (no derivation) and the
/// path on which it succeeds leave the same model-call count behind (README rule 3).
fn from_bytes_precomputed(bytes: &p384::FieldBytes) -> Result<p384::ecdsa::SigningKey, p384::ecdsa::Error> {
    let s = p384::model::stashed();
    kani::assume(s.model_bytes()[..] == bytes[..]);
    Ok(p384::ecdsa::SigningKey::from(s))
}

/// [C07] seal_key == spec for the ephemeral secret it drew; [C05] 129 bytes; [C16] one fresh 48-byte draw
pub fn seal_is_spec() {
    let d = any_scalar();
    let pdk: [u8; 32] = kani::any();
    vmodel_core::rng_may_fail(false);
    let d0 = vmodel_core::rng_preview(0);
    let mut esk = [0u8; 48];
    esk.copy_from_slice(&d0[..48]);
    kani::assume(p384::model::in_range(&esk));
    let pk = vspec::v3::p384_pk(&d);
    let spec = vspec::v3::pke_seal(&pk, &esk, &pdk);
    let r = <V3 as PkeSealingVersion>::seal_key(&pk_of(&d), LocalKey(pdk));
    let ok = r.is_ok();
    let out = r.unwrap_or_default();
    let len_ok = out.len() == BL;
    vcheck_all!(
        (ok, "[C05] sealing a key to an honestly generated public key always succeeds"),
        (!ok || len_ok, "[C05] a sealed key is exactly 129 bytes (tag || compressed ephemeral public key || encrypted key)"),
        (vmodel_core::rng_draws() == 1 && vmodel_core::rng_draw(0).len == 48, "[C16] key sealing draws exactly one fresh 48-byte ephemeral secret"),
        (!ok || (len_ok && out[48..97] == spec[48..97]), "[C07] the blob carries the compressed public key of this call's ephemeral secret"),
        (!ok || (len_ok && out[97..113] == spec[97..113]), "[C07] the first cipher block of the encrypted key equals the specification's (key/nonce derivation, domain byte 0x01)"),
        (!ok || out[..] == spec[..], "[C07] sealed key equals the PASERK specification's blob for the ephemeral key it embeds"),
    );
}

/// [C07]/[C05] unseal_key accepts the specification's blob and returns the sealed key
pub fn unseal_accepts_spec() {
    let d = any_scalar();
    let esk = any_scalar();
    let pdk: [u8; 32] = kani::any();
    let pk = vspec::v3::p384_pk(&d);
    let blob = vspec::v3::pke_seal(&pk, &esk, &pdk);
    let _honest = p384::NonZeroScalar::model_new_unchecked(&esk); // the sender's ephemeral key pair was honestly generated: epk is on the curve
    let sk = sk_of(&d);
    let r = <V3 as PkeUnsealingVersion>::unseal_key(&sk, blob.to_vec().into_boxed_slice());
    let ok = r.is_ok();
    let (same, first_block) = match &r { Ok(k) => (k.0 == pdk, k.0[..16] == pdk[..16]), Err(_) => (false, false) };
    vcheck_all!(
        (ok, "[C07] every specification-conforming sealed key unseals with the recipient's secret key"),
        (!ok || first_block, "[C07] the first cipher block of a specification-conforming sealed key decrypts correctly"),
        (!ok || same, "[C05] unsealing returns exactly the sealed key"),
    );
}

/// [C05] seal with the library's own randomness, then unseal
pub fn roundtrip() {
    let d = any_scalar();
    let pdk: [u8; 32] = kani::any();
    vmodel_core::rng_may_fail(false);
    let sk = sk_of(&d);
    let pk = <V3 as SealingVersion<Public>>::unsealing_key(&sk);
    let r = <V3 as PkeSealingVersion>::seal_key(&pk, LocalKey(pdk));
    let ok = r.is_ok();
    let blob = r.unwrap_or_default();
    let r2 = <V3 as PkeUnsealingVersion>::unseal_key(&sk, blob);
    let same = match r2 { Ok(k) => k.0 == pdk, Err(_) => false };
    vcheck_all!(
        (ok, "[C05] sealing always succeeds"),
        (!ok || same, "[C05] seal then unseal returns the original key"),
    );
}

/// [C06] any flipped bit (tag, ephemeral key, encrypted key) or another recipient => Err
pub fn unseal_rejects_tamper() {
    let d = any_scalar();
    let esk = any_scalar();
    let pdk: [u8; 32] = kani::any();
    let pk = vspec::v3::p384_pk(&d);
    let mut blob = vspec::v3::pke_seal(&pk, &esk, &pdk);
    let _honest = p384::NonZeroScalar::model_new_unchecked(&esk);
    let mut d2 = d;
    let which: u8 = kani::any();
    let idx: usize = kani::any();
    let bit: u8 = kani::any();
    kani::assume(bit < 8);
    match which {
        0 => { kani::assume(idx < BL); blob[idx] ^= 1 << bit; }
        _ => { kani::assume(idx < 48); d2[idx] ^= 1 << bit; kani::assume(p384::model::in_range(&d2)); }
    }
    let sk = sk_of(&d2);
    let r = <V3 as PkeUnsealingVersion>::unseal_key(&sk, blob.to_vec().into_boxed_slice());
    let rejected = r.is_err();
    let kind_ok = matches!(r, Err(PE::CryptoError));
    vcheck_all!(
        (rejected, "[C06] a sealed key with any flipped bit, or offered to another recipient, is rejected"),
        (!rejected || kind_ok, "[C06] an authentication failure of a sealed key is CryptoError"),
    );
    kani::cover!(which == 0 && idx < 48, "tag flip explored");
    kani::cover!(which == 0 && idx >= 48 && idx < 97, "ephemeral key flip explored");
    kani::cover!(which == 0 && idx >= 97, "encrypted key flip explored");
    kani::cover!(which == 1, "other recipient explored");
}

/// [C04]/[C06] every length class: no panic; anything but exactly 129 bytes => InvalidKey
pub fn unseal_len(L: usize) {
    let d = any_scalar();
    let b: [u8; 132] = kani::any();
    let sk = sk_of(&d);
    let r = <V3 as PkeUnsealingVersion>::unseal_key(&sk, b[..L].to_vec().into_boxed_slice());
    if L != BL {
        vassert!(matches!(r, Err(PE::InvalidKey)), "[C06] a sealed key that is not exactly 48+49+32 bytes is InvalidKey");
    } else {
        vassert!(matches!(r, Err(PE::CryptoError)) || r.is_ok(), "[C06] a 129-byte blob fails only with CryptoError");
    }
}

/// [C16] RNG failure at the ephemeral-key draw => Err(CryptoError), no blob. (The rejection-sampling loop of
/// SecretKey::random() with a failure at its second draw is explored in v3_public::secret_key_random_h — same function;
/// here the draw is assumed in range and its key pair precomputed, see from_bytes_precomputed.)
pub fn seal_fail_closed() {
    let d = any_scalar();
    let pdk: [u8; 32] = kani::any();
    let pk = pk_of(&d);
    let d0 = vmodel_core::rng_preview(0);
    let mut esk = [0u8; 48];
    esk.copy_from_slice(&d0[..48]);
    kani::assume(p384::model::in_range(&esk));
    p384::model::stash(&esk);
    vmodel_core::rng_may_fail(true);
    let r = <V3 as PkeSealingVersion>::seal_key(&pk, LocalKey(pdk));
    let all_ok = vmodel_core::rng_all_ok();
    let draws = vmodel_core::rng_draws();
    match r {
        Ok(_) => vassert!(all_ok && draws == 1, "[C16] key sealing succeeds only when every RNG draw succeeded"),
        Err(e) => vcheck_all!(
            (!all_ok, "[C16] key sealing fails only when the RNG failed"),
            (matches!(e, PE::CryptoError), "[C16] RNG failure is reported as CryptoError"),
        ),
    }
    kani::cover!(all_ok); kani::cover!(!all_ok);
}

/// [C08] PKE key kinds share the encoding of the signing keys
pub fn pke_key_codec() {
    let d = any_scalar();
    let pk = vspec::v3::p384_pk(&d);
    let e1 = <V3 as HasKey<PkePublic>>::encode(&pk_of(&d));
    let e2 = <V3 as HasKey<PkeSecret>>::encode(&sk_of(&d));
    let r1 = <V3 as HasKey<PkePublic>>::decode(&e1);
    let back1 = match r1 { Ok(k) => <V3 as HasKey<Public>>::encode(&k)[..] == pk[..], Err(_) => false };
    vcheck_all!(
        (e1.len() == 49 && e1[..] == pk[..], "[C08] a PKE public key serialises as the 49-byte compressed P-384 point"),
        (e2.len() == 48 && e2[..] == d[..], "[C08] a PKE secret key serialises as the 48-byte scalar"),
        (back1, "[C08] a serialised PKE public key parses back to the same key"),
    );
}
pub fn pke_secret_key_codec() {
    let d: [u8; 48] = kani::any();
    let valid = p384::model::in_range(&d);
    let r2 = <V3 as HasKey<PkeSecret>>::decode(&d);
    let ok = r2.is_ok();
    let back2 = match r2 { Ok(k) => <V3 as HasKey<Secret>>::encode(&k)[..] == d[..], Err(_) => false };
    vcheck_all!(
        (ok == valid, "[C08] a PKE secret key is accepted iff its scalar is in 1..n-1"),
        (!ok || back2, "[C08] a parsed PKE secret key serialises to the same bytes"),
    );
}

pub fn canary_inputs() {
    let d = any_scalar();
    let pdk: [u8; 32] = kani::any();
    vmodel_core::rng_may_fail(false);
    let sk = sk_of(&d);
    let pk = <V3 as SealingVersion<Public>>::unsealing_key(&sk);
    let blob = <V3 as PkeSealingVersion>::seal_key(&pk, LocalKey(pdk)).unwrap_or_default();
    let _ = <V3 as PkeUnsealingVersion>::unseal_key(&sk, blob);
    vassert!(d[0] != 0x5a || pdk[31] != 0xa5, "canary: must fail (false claim about the symbolic inputs)");
}

macro_rules! inst {
    ($stub:ident: $($name:ident = $f:ident($($g:literal),*);)*) => { $(
        #[kani::proof] #[kani::unwind(200)]
        #[kani::stub(p384::ecdsa::SigningKey::from_bytes, $stub)]
        pub fn $name() { $f($($g),*); kani::cover!(true, "harness end reachable"); }
    )* };
}
inst! { from_bytes_assumed_in_range:
    seal_is_spec_h = seal_is_spec();
    unseal_accepts_spec_h = unseal_accepts_spec();
    roundtrip_h = roundtrip();
    unseal_rejects_tamper_h = unseal_rejects_tamper();
    unseal_len_0 = unseal_len(0); unseal_len_47 = unseal_len(47); unseal_len_96 = unseal_len(96); unseal_len_97 = unseal_len(97);
    unseal_len_128 = unseal_len(128); unseal_len_129 = unseal_len(129); unseal_len_130 = unseal_len(130);
    pke_key_codec_h = pke_key_codec();
    pke_secret_key_codec_h = pke_secret_key_codec();
    canary_inputs_h = canary_inputs();
}
inst! { from_bytes_precomputed:
    seal_fail_closed_h = seal_fail_closed();
}
// @@PLAYBACK@@
