from vrf.core import Unit, Harness


def unit():
    return Unit(
        name="vl_lemmas", kind="verus", members=[], package="", inject=[],
        harnesses=[Harness("verus/pae_injective.rs", ["C15", "C02"], timeout=600, functions=["spec: pae, le64 (mirrors units/u1_pae postcondition)"],
                           desc="Verus: small(a) && small(b) && pae(a) == pae(b) ==> a == b (unbounded induction over the piece list)"),
                   Harness("verus/b64_blocks.tmpl.rs", ["C09", "C04"], timeout=600,
                           functions=["paseto-core/src/base64.rs: decode_6bits, encode_6bits, decode_3bytes, encode_3bytes, decoded_len (text spliced from /repo on every run by verus/gen_b64.py)"],
                           desc="Verus function contracts on the repository's base64 leaf functions (all inputs, overflow-free): decode_6bits == alphabet inverse / -1, "
                                "encode_6bits == alphabet, decode_3bytes error flag exact and octets == 24-bit group of the sextets, encode_3bytes the converse, "
                                "decoded_len == floor(3n/4) for every usize; block round trip derived from the contracts alone; alphabet bijection lemma. min_verified=21")],
        assumptions=["the spec function pae in verus/pae_injective.rs is the postcondition proved for pre_auth_encode in u1_pae (same definition: le64(count) then per piece le64(len) || bytes)"],
        trusted=["Verus 0.2026.09.13 + Z3", "verus/gen_b64.py (splices function text; drops attributes/doc comments, names the return value, inserts contract + ghost proof block)"],
    )
