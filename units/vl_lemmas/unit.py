from vrf.core import Unit, Harness


def unit():
    return Unit(
        name="vl_lemmas", kind="verus", members=[], package="", inject=[],
        harnesses=[Harness("verus/pae_injective.rs", ["C15", "C02"], timeout=600, functions=["spec: pae, le64 (mirrors units/u1_pae postcondition)"],
                           desc="Verus: small(a) && small(b) && pae(a) == pae(b) ==> a == b (unbounded induction over the piece list)")],
        assumptions=["the spec function pae in verus/pae_injective.rs is the postcondition proved for pre_auth_encode in u1_pae (same definition: le64(count) then per piece le64(len) || bytes)"],
        trusted=["Verus 0.2026.09.13 + Z3"],
    )
