from vrf.core import Unit, Harness

MODELS = {"blake2": "models/blake2", "chacha20": "models/chacha20", "getrandom": "models/getrandom"}
ASSUME = [
    "BLAKE2b (keyed and unkeyed) is a deterministic collision-free uninterpreted function of (key, message, output length) [ideal MAC/hash]",
    "XChaCha20 is XOR with a deterministic uninterpreted keystream of (key, nonce, position)",
    "getrandom::fill either fails or fills the buffer with arbitrary bytes",
    "pre_auth_encode is replaced by its contract (proved in unit u1_pae)",
]
L = "paseto-v4/src/core/local.rs"


def unit():
    fl = [f"{L}::{f}" for f in ("dangerous_seal_with_nonce", "unseal", "keys", "preauth_local", "nonce")] + ["paseto-v4/src/core/mod.rs::kdf"]
    hs = [
        Harness("seal_is_spec_0_0_0", ["C03", "C01"], complete=False, bound="|m|=0,|f|=0,|a|=0; contents symbolic", functions=fl),
        Harness("seal_is_spec_1_0_0", ["C03", "C01"], complete=False, bound="|m|=1,|f|=0,|a|=0; contents symbolic", functions=fl),
        Harness("seal_is_spec_3_2_1", ["C03", "C01"], complete=False, bound="|m|=3,|f|=2,|a|=1; contents symbolic", functions=fl),
        Harness("unseal_accepts_spec_0_0_0", ["C03", "C01"], complete=False, bound="|m|=0,|f|=0,|a|=0", functions=fl),
        Harness("unseal_accepts_spec_3_2_1", ["C03", "C01"], complete=False, bound="|m|=3,|f|=2,|a|=1", functions=fl),
        Harness("roundtrip_own_nonce_1_1_1", ["C01", "C16"], complete=False, bound="|m|=1,|f|=1,|a|=1", functions=fl),
        Harness("roundtrip_own_nonce_0_0_0", ["C01", "C16"], complete=False, bound="|m|=0,|f|=0,|a|=0", functions=fl),
        Harness("unseal_rejects_tamper_0_0_0", ["C02", "C12"], complete=False, bound="|m|=0,|f|=0,|a|=0; flip position and bit symbolic", functions=fl, timeout=1800),
        Harness("unseal_rejects_tamper_1_1_1", ["C02", "C12"], complete=False, bound="|m|=1,|f|=1,|a|=1; flip position and bit symbolic", functions=fl, timeout=1800),
        Harness("unseal_rejects_boundary_shift_1", ["C02"], complete=False, bound="|m|=1, footer+assertion 2 bytes", functions=fl),
        Harness("canary_wrong_aad_1", ["C01", "C02", "C03", "C12"], expect="fail"),
        Harness("local_key_codec_h", ["C08", "C10", "C04"], complete=False, bound="key byte strings of length 0..=40", functions=[f"{L}::decode", f"{L}::encode"]),
        Harness("local_key_random_h", ["C16"], functions=[f"{L}::random"]),
        Harness("nonce_fail_closed_h", ["C16"], functions=[f"{L}::nonce"]),
    ]
    for n in (0, 31, 63, 64, 66):
        hs.append(Harness(f"unseal_short_{n}", ["C04", "C12"], complete=False, bound=f"payload length {n}", functions=[f"{L}::unseal"]))
    return Unit(
        name="v4_local", members=["paseto-core", "paseto-v4"], package="paseto-v4",
        inject=[(L, ["units/common/pae_stub.rs", "units/v4/local.rs"])],
        patches=MODELS, harness_path="core::local::verif",
        kani_flags=["-Z", "stubbing", "--no-assertion-reach-checks"], no_default_features=True, features=["encrypting"],
        dev_deps={"paseto-v4/Cargo.toml": ['vspec = { path = "../verif-models/vspec" }', 'vmodel-core = { path = "../verif-models/vmodel-core" }']},
        harnesses=hs, assumptions=ASSUME,
        trusted=["digest, cipher, crypto-common, generic-array, typenum, subtle, zerocopy (real crates, compiled by Kani)"],
    )
