//! MODEL of `aes` 0.8.4 — assumed contract, not the algorithm.
//!   Aes256::new(key32): never fails; new_from_slice: Err iff |key| != 32 (as the real crate).
//!   encrypt_block(b) = uf(AES256_BLOCK, key, b): a deterministic uninterpreted function of (key, 16-byte block).
//!   Nothing else is assumed (no injectivity/permutation property, no relation between different keys or blocks);
//!   only the encryption direction is modelled (CTR mode never decrypts blocks).
//! The real `cipher` traits (KeyInit, BlockSizeUser, BlockCipher, BlockEncrypt) are implemented, so the `ctr` model and any
//! other user of the block-cipher interface work with this type unchanged.
#![no_std]
pub use cipher;
use cipher::consts::{U1, U16, U32};
use cipher::inout::InOut;
use cipher::{Block, BlockBackend, BlockCipher, BlockClosure, BlockEncrypt, BlockSizeUser, Key, KeyInit, KeySizeUser, ParBlocksSizeUser};
use vmodel_core::{alg, uf};

#[derive(Clone)]
pub struct Aes256 {
    key: [u8; 32],
}
impl KeySizeUser for Aes256 {
    type KeySize = U32;
}
impl KeyInit for Aes256 {
    fn new(key: &Key<Self>) -> Self {
        let mut k = [0u8; 32];
        k.copy_from_slice(key);
        Aes256 { key: k }
    }
}
impl BlockSizeUser for Aes256 {
    type BlockSize = U16;
}
impl BlockCipher for Aes256 {}

struct Enc<'a>(&'a Aes256);
impl BlockSizeUser for Enc<'_> {
    type BlockSize = U16;
}
impl ParBlocksSizeUser for Enc<'_> {
    type ParBlocksSize = U1;
}
impl BlockBackend for Enc<'_> {
    fn proc_block(&mut self, mut block: InOut<'_, '_, Block<Self>>) {
        let mut i = [0u8; 16];
        i.copy_from_slice(block.get_in());
        let mut o = [0u8; 16];
        uf(alg::AES256_BLOCK, false, &self.0.key, &i, &mut o);
        block.get_out().copy_from_slice(&o);
    }
}
impl BlockEncrypt for Aes256 {
    fn encrypt_with_backend(&self, f: impl BlockClosure<BlockSize = U16>) {
        f.call(&mut Enc(self))
    }
}
