//! MODEL of `sha2` 0.10 — assumed contract, not the algorithm: `update` concatenates, `finalize` returns
//! uf(SHA256|SHA384|SHA512, message): deterministic, collision-free (ideal hash). The streamed message is also readable
//! through `vmodel_core::Collect` (used by models of APIs that take a digest *context*, e.g. Ed25519 "sign by update").
#![no_std]
use digest::typenum::{U32, U48, U64};
use digest::{FixedOutput, FixedOutputReset, HashMarker, Output, OutputSizeUser, Reset, Update};
use vmodel_core::{alg, uf, Buf, Collect, MCAP};
pub use digest::{self, Digest};

macro_rules! hash {
    ($name:ident, $size:ty, $alg:expr) => {
        #[derive(Clone)]
        pub struct $name(Buf<MCAP>);
        impl Default for $name {
            fn default() -> Self {
                $name(Buf::new())
            }
        }
        impl HashMarker for $name {}
        impl Update for $name {
            fn update(&mut self, d: &[u8]) {
                self.0.push(d)
            }
        }
        impl OutputSizeUser for $name {
            type OutputSize = $size;
        }
        impl FixedOutput for $name {
            fn finalize_into(self, out: &mut Output<Self>) {
                uf($alg, true, &[], self.0.as_slice(), out.as_mut_slice());
            }
        }
        impl Reset for $name {
            fn reset(&mut self) {
                self.0 = Buf::new();
            }
        }
        impl FixedOutputReset for $name {
            fn finalize_into_reset(&mut self, out: &mut Output<Self>) {
                uf($alg, true, &[], self.0.as_slice(), out.as_mut_slice());
                self.0 = Buf::new();
            }
        }
        impl Collect for $name {
            fn collected(&self) -> &[u8] {
                self.0.as_slice()
            }
        }
    };
}
hash!(Sha256, U32, alg::SHA256);
hash!(Sha384, U48, alg::SHA384);
hash!(Sha512, U64, alg::SHA512);
