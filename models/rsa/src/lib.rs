//! MODEL of `rsa` 0.9.8 (with the pkcs1 / pkcs8 / spki / rand_core / num-bigint-dig pieces paseto-v1 touches flattened into one
//! crate) — assumed contract, not the arithmetic. Only the API surface paseto-v1 uses is present.
//!
//! Key material is OPAQUE. A private key is (modulus bit length `bits`, 32-byte identifier `id`); its public key is
//!   (bits, pid) with pid = uf(RSA_MISC, key = id ‖ be16(bits), msg = [1]) — deterministic, collision-free (different private keys
//!   have different public keys). `n()` is a `BigUint` of which only `bits()` is known; `size()` = ceil(bits / 8). So the
//!   "exactly 2048 / 4096 bit" checks of paseto-v1 are decidable, nothing else about the modulus is.
//! Encodings are MODEL encodings — injective, fixed length, NOT ASN.1 (the real DER of a 2048-bit key is 294 / ~1190 bytes):
//!   SPKI  "DER" (36 bytes)  = 30 82 ‖ be16(bits) ‖ pid(32)          PKCS#1 "DER" (36 bytes) = 30 83 ‖ be16(bits) ‖ id(32)
//!   "PEM" (79 bytes, ASCII) = "-----" ‖ 'P' | 'S' ‖ lower-hex(be16(bits) ‖ identifier) ‖ "-----"
//!   decode(encode(k)) == k by construction; for arbitrary bytes of the right length and framing, acceptance is an
//!   UNINTERPRETED PREDICATE of (kind, bits, identifier): bit 0 of uf(RSA_MISC, key = identifier ‖ be16(bits), msg = [2 | 3])
//!   ("the integers form a valid RSA key": real checks of RsaPublicKey::new / RsaPrivateKey::from_components), and bits <= 4096
//!   (RsaPublicKey::MAX_SIZE, exact). Keys made by key generation, and public keys derived from accepted private keys, are
//!   assumed valid. Every other length / framing is rejected. Every decode of a right-length input performs the same uf calls
//!   whatever the bytes are (units/README.md rule 3b).
//! Key generation `RsaPrivateKey::new(rng, bits)` / `pss::SigningKey::random`: ONE 32-byte draw (`rng.fill_bytes`) is the
//!   identifier (the real prime search makes an unbounded number of draws); never returns Err for bits in 64..=4096.
//! `rand_core::OsRng`: `try_fill_bytes` = vmodel_core::rng_fill (Err when the OS RNG fails); `fill_bytes` PANICS in the real
//!   crate when the OS RNG fails ("Error: ..."). A panic cannot be observed by a harness, so the model records it in the ghost
//!   flag `model::os_rng_panicked()` and continues with the buffer untouched; harnesses assert the flag.
//! RSASSA-PSS (`pss::SigningKey<D>` / `VerifyingKey<D>`, salt length = digest length = 48, 2048-bit keys only):
//!   signing draws the 48-byte salt with `rng.fill_bytes` (blinding is off in `try_sign_digest_with_rng`, as in the real crate)
//!   and returns four 64-byte chunks chunk_j = uf(RSA_PSS_SIG, key = pid ‖ salt[0..32], msg = digest ‖ [j]) (vmodel-core outputs
//!   are at most 64 bytes; the last 16 salt bytes do not influence the model signature). Signing never fails.
//!   IDEAL SIGNATURE: `verify_digest(pk, digest, sig)` is Ok iff |sig| == size(pk) and all four chunks were produced by the
//!   signing function for exactly (pid, digest) — "no signature verifies for a message it was not made for". The real
//!   "sig >= n" rejection is subsumed. `Signature::try_from(bytes)` accepts every byte string (as the real crate).
//! RSA-KEM (`hazmat::rsa_encrypt`, `rsa_decrypt_and_check`) and `BigUint::{from_bytes_be, to_bytes_be}`: see `hazmat` below.
#![no_std]
#![allow(static_mut_refs)]
extern crate alloc;
use alloc::boxed::Box;
use alloc::vec::Vec;
use core::marker::PhantomData;
use vmodel_core::{alg, uf, was_output_of_kp};

pub use signature;

#[cfg(kani)]
fn assume(c: bool) {
    kani::assume(c)
}
#[cfg(not(kani))]
fn assume(_c: bool) {}

// ---------------------------------------------------------------------------------------------------- errors
pub mod errors {
    #[derive(Debug, Clone, Copy, PartialEq, Eq)]
    pub enum Error {
        InvalidModulus,
        ModulusTooLarge,
        Decryption,
        Verification,
        MessageTooLong,
        Internal,
    }
    impl core::fmt::Display for Error {
        fn fmt(&self, f: &mut core::fmt::Formatter<'_>) -> core::fmt::Result {
            f.write_str("rsa error")
        }
    }
    pub type Result<T> = core::result::Result<T, Error>;
}
pub use errors::{Error, Result};

// ---------------------------------------------------------------------------------------------------- rng
pub mod rand_core {
    pub use ::rand_core::{CryptoRng, CryptoRngCore, Error, RngCore};
    /// see the crate header
    #[derive(Clone, Copy, Debug, Default)]
    pub struct OsRng;
    impl CryptoRng for OsRng {}
    impl RngCore for OsRng {
        fn next_u32(&mut self) -> u32 {
            let mut b = [0u8; 4];
            self.fill_bytes(&mut b);
            u32::from_le_bytes(b)
        }
        fn next_u64(&mut self) -> u64 {
            let mut b = [0u8; 8];
            self.fill_bytes(&mut b);
            u64::from_le_bytes(b)
        }
        fn fill_bytes(&mut self, dest: &mut [u8]) {
            if !vmodel_core::rng_fill(dest) {
                crate::model::record_os_rng_panic();
            }
        }
        fn try_fill_bytes(&mut self, dest: &mut [u8]) -> core::result::Result<(), Error> {
            if vmodel_core::rng_fill(dest) {
                Ok(())
            } else {
                Err(Error::from(core::num::NonZeroU32::new(Error::CUSTOM_START).unwrap()))
            }
        }
    }
}
use crate::rand_core::CryptoRngCore;

/// Model controls and ghost state (not part of the real crate's API).
pub mod model {
    // a small mutable static must not share its bytes with a program constant (Kani 0.68 pitfall): distinctive magic, not 0
    const MAGIC: u64 = 0x7273_615f_6d6f_6400;
    static mut PANICKED: u64 = MAGIC;
    pub(crate) fn record_os_rng_panic() {
        unsafe { PANICKED = MAGIC | 1 }
    }
    /// did `OsRng::fill_bytes` hit an OS RNG failure (where the real crate panics)?
    pub fn os_rng_panicked() -> bool {
        unsafe { PANICKED == MAGIC | 1 }
    }
    /// HARNESS SUPPORT — contract used in place of `core::str::from_utf8` (`#[kani::stub]`) by the key-codec harnesses, whose
    /// inputs are symbolic bytes (the real validator's multi-byte state machine over symbolic bytes does not terminate in CBMC
    /// within the time-out): Ok(the same bytes as text) iff every byte is ASCII, Err otherwise. It differs from the real
    /// function only on non-ASCII valid UTF-8, which is never a PEM document (real PEM and the model's PEM are ASCII-only), so
    /// the code under test — `from_utf8(bytes)` followed by a PEM parser — cannot observe the difference.
    pub fn from_utf8_ascii(v: &[u8]) -> core::result::Result<&str, core::str::Utf8Error> {
        let mut ascii = true;
        let mut i = 0;
        while i < v.len() {
            ascii &= v[i] < 0x80;
            i += 1;
        }
        if ascii {
            Ok(unsafe { core::str::from_utf8_unchecked(v) })
        } else {
            let mut bad = [0xffu8];
            match core::str::from_utf8_mut(&mut bad) {
                Err(e) => Err(e),
                Ok(_) => unreachable!(),
            }
        }
    }
    pub const SPKI_LEN: usize = 36;
    pub const PKCS1_LEN: usize = 36;
    pub const PEM_LEN: usize = 79;
    /// MODEL-ONLY constructors for harnesses: a key pair "as key generation would have produced it" for a given identifier,
    /// without an accept/reject branch (3 uf calls: public id, validity of both halves assumed).
    pub fn private_key(bits: u16, id: &[u8; 32]) -> crate::RsaPrivateKey {
        crate::RsaPrivateKey::model_new(bits, id)
    }
    pub fn private_id(k: &crate::RsaPrivateKey) -> [u8; 32] {
        k.id
    }
    pub fn public_id(k: &crate::RsaPublicKey) -> [u8; 32] {
        k.pid
    }
    pub fn spki_der(bits: u16, pid: &[u8; 32]) -> [u8; SPKI_LEN] {
        crate::enc36(0x82, bits, pid)
    }
    pub fn pkcs1_der(bits: u16, id: &[u8; 32]) -> [u8; PKCS1_LEN] {
        crate::enc36(0x83, bits, id)
    }
    pub fn pem(kind: u8, bits: u16, id: &[u8; 32]) -> [u8; PEM_LEN] {
        crate::enc_pem(kind, bits, id)
    }
    /// select the number of leading zero bytes of RSA results (ciphertexts, decrypted plaintexts) for this harness
    pub fn kem_leading_zeros(enc: usize, dec: usize) {
        crate::hazmat::set_lz(enc, dec)
    }
    /// the RSA-KEM ciphertext of the 512-byte string `r` under `k` as the 512-byte big-endian string the specification means
    /// (same memo table as `hazmat::rsa_encrypt`)
    pub fn kem_encrypt_512(k: &crate::RsaPublicKey, r: &[u8; 512]) -> [u8; 512] {
        crate::hazmat::encrypt_raw(&k.pid, r)
    }
}

// ---------------------------------------------------------------------------------------------------- BigUint
pub const BIG_CAP: usize = 512;
const LZ_UNKNOWN: usize = usize::MAX;
/// num-bigint-dig's BigUint as far as paseto-v1 needs it. Two kinds of values:
///  * a modulus: only its bit length is known (`known == 0`);
///  * a value given by bytes (`from_bytes_be`, RSA results): `len` big-endian bytes (leading zero bytes included) in `b`.
///    `lz` is the number of leading zero bytes when it is known BY CONSTRUCTION (RSA results, see `hazmat`: the harness
///    selects the case, the model assumes the fresh value falls into it) — `to_bytes_be` then has a concrete length for CBMC;
///    otherwise it is counted from the (symbolic) bytes.
#[derive(Clone, PartialEq, Eq)]
pub struct BigUint {
    known: u8,
    nbits: usize,
    len: usize,
    lz: usize,
    b: [u8; BIG_CAP],
}
impl BigUint {
    fn modulus(bits: usize) -> Self {
        BigUint { known: 0, nbits: bits, len: 0, lz: 0, b: [0; BIG_CAP] }
    }
    /// bit length (exact for moduli; for byte-given values: 8 * minimal byte length, i.e. rounded up to whole bytes)
    pub fn bits(&self) -> usize {
        if self.known == 0 {
            self.nbits
        } else {
            8 * (self.len - self.leading_zero_bytes())
        }
    }
    pub fn from_bytes_be(bytes: &[u8]) -> Self {
        assert!(bytes.len() <= BIG_CAP, "[model] capacity: BigUint longer than 512 bytes");
        let mut b = [0u8; BIG_CAP];
        let mut i = 0;
        while i < bytes.len() {
            b[i] = bytes[i];
            i += 1;
        }
        BigUint { known: 1, nbits: 0, len: bytes.len(), lz: LZ_UNKNOWN, b }
    }
    fn leading_zero_bytes(&self) -> usize {
        if self.lz != LZ_UNKNOWN {
            return self.lz;
        }
        let mut z = 0;
        let mut all = true;
        let mut i = 0;
        while i < self.len {
            all &= self.b[i] == 0;
            if all {
                z += 1;
            }
            i += 1;
        }
        z
    }
    /// minimal big-endian bytes: leading zero bytes STRIPPED (zero is `[0]`), exactly as num-bigint-dig
    pub fn to_bytes_be(&self) -> Vec<u8> {
        assert!(self.known == 1, "[model] capacity: the bytes of an abstract modulus are not modelled");
        let z = self.leading_zero_bytes();
        if z == self.len {
            return alloc::vec![0u8];
        }
        self.b[z..self.len].to_vec()
    }
}

// ---------------------------------------------------------------------------------------------------- keys
pub mod traits {
    use crate::BigUint;
    pub trait PublicKeyParts {
        fn n(&self) -> &BigUint;
        fn size(&self) -> usize {
            (self.n().bits() + 7) / 8
        }
    }
}
use traits::PublicKeyParts;

#[derive(Clone, PartialEq, Eq)]
pub struct RsaPublicKey {
    n: BigUint,
    bits: u16,
    pid: [u8; 32],
}
#[derive(Clone, PartialEq, Eq)]
pub struct RsaPrivateKey {
    n: BigUint,
    bits: u16,
    id: [u8; 32],
    pid: [u8; 32],
}
impl PublicKeyParts for RsaPublicKey {
    fn n(&self) -> &BigUint {
        &self.n
    }
}
impl PublicKeyParts for RsaPrivateKey {
    fn n(&self) -> &BigUint {
        &self.n
    }
}
fn key34(id: &[u8; 32], bits: u16) -> [u8; 34] {
    let mut k = [0u8; 34];
    k[..32].copy_from_slice(id);
    k[32..].copy_from_slice(&bits.to_be_bytes());
    k
}
fn public_id_of(id: &[u8; 32], bits: u16) -> [u8; 32] {
    let mut o = [0u8; 32];
    uf(alg::RSA_MISC, true, &key34(id, bits), &[1], &mut o);
    o
}
/// uninterpreted "these integers form a valid key" bit; kind 2 = public, 3 = private
fn valid_bit(kind: u8, id: &[u8; 32], bits: u16) -> bool {
    let mut o = [0u8; 1];
    uf(alg::RSA_MISC, false, &key34(id, bits), &[kind], &mut o);
    o[0] & 1 == 1
}
impl RsaPublicKey {
    pub const MAX_SIZE: usize = 4096;
    fn make(bits: u16, pid: [u8; 32]) -> Self {
        RsaPublicKey { n: BigUint::modulus(bits as usize), bits, pid }
    }
}
impl RsaPrivateKey {
    fn model_new(bits: u16, id: &[u8; 32]) -> Self {
        let pid = public_id_of(id, bits);
        assume(valid_bit(3, id, bits));
        assume(valid_bit(2, &pid, bits)); // the public half of a generated key is a valid public key
        RsaPrivateKey { n: BigUint::modulus(bits as usize), bits, id: *id, pid }
    }
    /// key generation: see the crate header
    pub fn new<R: CryptoRngCore + ?Sized>(rng: &mut R, bit_size: usize) -> Result<Self> {
        if bit_size < 64 || bit_size > 4096 {
            return Err(Error::InvalidModulus);
        }
        let mut id = [0u8; 32];
        rng.fill_bytes(&mut id);
        Ok(Self::model_new(bit_size as u16, &id))
    }
    pub fn to_public_key(&self) -> RsaPublicKey {
        RsaPublicKey::make(self.bits, self.pid)
    }
}
impl From<&RsaPrivateKey> for RsaPublicKey {
    fn from(k: &RsaPrivateKey) -> Self {
        k.to_public_key()
    }
}
impl From<RsaPrivateKey> for RsaPublicKey {
    fn from(k: RsaPrivateKey) -> Self {
        k.to_public_key()
    }
}
impl AsRef<RsaPublicKey> for RsaPublicKey {
    fn as_ref(&self) -> &RsaPublicKey {
        self
    }
}

// ---------------------------------------------------------------------------------------------------- model encodings
fn enc36(tag: u8, bits: u16, id: &[u8; 32]) -> [u8; 36] {
    let mut o = [0u8; 36];
    o[0] = 0x30;
    o[1] = tag;
    o[2..4].copy_from_slice(&bits.to_be_bytes());
    o[4..].copy_from_slice(id);
    o
}
const HEX: &[u8; 16] = b"0123456789abcdef";
fn enc_pem(kind: u8, bits: u16, id: &[u8; 32]) -> [u8; 79] {
    let mut o = [b'-'; 79];
    o[5] = kind;
    let mut raw = [0u8; 34];
    raw[..2].copy_from_slice(&bits.to_be_bytes());
    raw[2..].copy_from_slice(id);
    let mut i = 0;
    while i < 34 {
        o[6 + 2 * i] = HEX[(raw[i] >> 4) as usize];
        o[7 + 2 * i] = HEX[(raw[i] & 15) as usize];
        i += 1;
    }
    o
}
fn unhex(c: u8) -> (u8, bool) {
    if c >= b'0' && c <= b'9' {
        (c - b'0', true)
    } else if c >= b'a' && c <= b'f' {
        (c - b'a' + 10, true)
    } else {
        (0, false)
    }
}
/// (framing ok, bits, identifier) of a 36-byte model DER
fn dec36(tag: u8, b: &[u8]) -> (bool, u16, [u8; 32]) {
    let mut id = [0u8; 32];
    let mut i = 0;
    while i < 32 {
        id[i] = b[4 + i];
        i += 1;
    }
    (b[0] == 0x30 && b[1] == tag, u16::from_be_bytes([b[2], b[3]]), id)
}
fn dec_pem(kind: u8, b: &[u8]) -> (bool, u16, [u8; 32]) {
    let mut ok = b[5] == kind;
    let mut i = 0;
    while i < 5 {
        ok &= b[i] == b'-' && b[74 + i] == b'-';
        i += 1;
    }
    let mut raw = [0u8; 34];
    let mut i = 0;
    while i < 34 {
        let (h, ok1) = unhex(b[6 + 2 * i]);
        let (l, ok2) = unhex(b[7 + 2 * i]);
        ok &= ok1 && ok2;
        raw[i] = (h << 4) | l;
        i += 1;
    }
    let mut id = [0u8; 32];
    id.copy_from_slice(&raw[2..]);
    (ok, u16::from_be_bytes([raw[0], raw[1]]), id)
}
fn public_from(framing_ok: bool, bits: u16, pid: [u8; 32]) -> Option<RsaPublicKey> {
    let v = valid_bit(2, &pid, bits); // evaluated whatever the framing is: constant uf-call count
    if framing_ok && v && bits as usize <= RsaPublicKey::MAX_SIZE {
        Some(RsaPublicKey::make(bits, pid))
    } else {
        None
    }
}
fn private_from(framing_ok: bool, bits: u16, id: [u8; 32]) -> Option<RsaPrivateKey> {
    let pid = public_id_of(&id, bits);
    let v = valid_bit(3, &id, bits);
    let vp = valid_bit(2, &pid, bits);
    assume(!v || vp); // the public half of a valid private key is a valid public key
    if framing_ok && v && bits as usize <= RsaPublicKey::MAX_SIZE {
        // the public half of an accepted private key is a valid public key
        Some(RsaPrivateKey { n: BigUint::modulus(bits as usize), bits, id, pid })
    } else {
        None
    }
}

/// der::Document / SecretDocument: owned encoding
pub struct Document(Vec<u8>);
impl Document {
    pub fn as_bytes(&self) -> &[u8] {
        &self.0
    }
    pub fn to_vec(&self) -> Vec<u8> {
        self.0.clone()
    }
    pub fn into_vec(self) -> Vec<u8> {
        self.0
    }
    pub fn len(&self) -> usize {
        self.0.len()
    }
}
pub struct SecretDocument(Vec<u8>);
impl SecretDocument {
    pub fn as_bytes(&self) -> &[u8] {
        &self.0
    }
    pub fn to_bytes(&self) -> Vec<u8> {
        self.0.clone()
    }
    pub fn len(&self) -> usize {
        self.0.len()
    }
}

pub mod pkcs8 {
    pub mod spki {
        pub use crate::Document;
        #[derive(Debug, Clone, Copy, PartialEq, Eq)]
        pub enum Error {
            KeyMalformed,
        }
        pub type Result<T> = core::result::Result<T, Error>;
        pub trait DecodePublicKey: Sized {
            fn from_public_key_der(bytes: &[u8]) -> Result<Self>;
            fn from_public_key_pem(s: &str) -> Result<Self>;
        }
        pub trait EncodePublicKey {
            fn to_public_key_der(&self) -> Result<Document>;
        }
    }
    pub use spki::{DecodePublicKey, EncodePublicKey};
}
pub mod pkcs1 {
    pub use crate::SecretDocument;
    #[derive(Debug, Clone, Copy, PartialEq, Eq)]
    pub enum Error {
        KeyMalformed,
    }
    pub type Result<T> = core::result::Result<T, Error>;
    pub trait DecodeRsaPrivateKey: Sized {
        fn from_pkcs1_der(bytes: &[u8]) -> Result<Self>;
        fn from_pkcs1_pem(s: &str) -> Result<Self>;
    }
    pub trait EncodeRsaPrivateKey {
        fn to_pkcs1_der(&self) -> Result<SecretDocument>;
    }
}
impl pkcs8::spki::DecodePublicKey for RsaPublicKey {
    fn from_public_key_der(bytes: &[u8]) -> pkcs8::spki::Result<Self> {
        if bytes.len() != model::SPKI_LEN {
            return Err(pkcs8::spki::Error::KeyMalformed);
        }
        let (ok, bits, pid) = dec36(0x82, bytes);
        public_from(ok, bits, pid).ok_or(pkcs8::spki::Error::KeyMalformed)
    }
    fn from_public_key_pem(s: &str) -> pkcs8::spki::Result<Self> {
        let b = s.as_bytes();
        if b.len() != model::PEM_LEN {
            return Err(pkcs8::spki::Error::KeyMalformed);
        }
        let (ok, bits, pid) = dec_pem(b'P', b);
        public_from(ok, bits, pid).ok_or(pkcs8::spki::Error::KeyMalformed)
    }
}
impl pkcs8::spki::EncodePublicKey for RsaPublicKey {
    fn to_public_key_der(&self) -> pkcs8::spki::Result<Document> {
        Ok(Document(enc36(0x82, self.bits, &self.pid).to_vec()))
    }
}
impl pkcs1::DecodeRsaPrivateKey for RsaPrivateKey {
    fn from_pkcs1_der(bytes: &[u8]) -> pkcs1::Result<Self> {
        if bytes.len() != model::PKCS1_LEN {
            return Err(pkcs1::Error::KeyMalformed);
        }
        let (ok, bits, id) = dec36(0x83, bytes);
        private_from(ok, bits, id).ok_or(pkcs1::Error::KeyMalformed)
    }
    fn from_pkcs1_pem(s: &str) -> pkcs1::Result<Self> {
        let b = s.as_bytes();
        if b.len() != model::PEM_LEN {
            return Err(pkcs1::Error::KeyMalformed);
        }
        let (ok, bits, id) = dec_pem(b'S', b);
        private_from(ok, bits, id).ok_or(pkcs1::Error::KeyMalformed)
    }
}
impl pkcs1::EncodeRsaPrivateKey for RsaPrivateKey {
    fn to_pkcs1_der(&self) -> pkcs1::Result<SecretDocument> {
        Ok(SecretDocument(enc36(0x83, self.bits, &self.id).to_vec()))
    }
}

// ---------------------------------------------------------------------------------------------------- RSASSA-PSS
pub mod pss {
    use super::*;
    use digest::{Digest, FixedOutputReset};
    use signature::{DigestVerifier, Keypair, RandomizedDigestSigner};

    /// any byte string; `len` bytes significant (at most 256 kept — longer ones can never verify under a 2048-bit key)
    #[derive(Clone, PartialEq, Eq)]
    pub struct Signature {
        len: usize,
        b: [u8; 256],
    }
    impl TryFrom<&[u8]> for Signature {
        type Error = signature::Error;
        fn try_from(bytes: &[u8]) -> signature::Result<Self> {
            let mut b = [0u8; 256];
            let mut i = 0;
            while i < bytes.len() && i < 256 {
                b[i] = bytes[i];
                i += 1;
            }
            Ok(Signature { len: bytes.len(), b })
        }
    }
    impl From<Signature> for Box<[u8]> {
        fn from(s: Signature) -> Box<[u8]> {
            assert!(s.len <= 256, "[model] capacity: signatures longer than 256 bytes are not kept");
            s.b[..s.len].to_vec().into_boxed_slice()
        }
    }
    impl signature::SignatureEncoding for Signature {
        type Repr = Box<[u8]>;
    }

    pub struct VerifyingKey<D> {
        inner: RsaPublicKey,
        _d: PhantomData<D>,
    }
    impl<D> Clone for VerifyingKey<D> {
        fn clone(&self) -> Self {
            VerifyingKey { inner: self.inner.clone(), _d: PhantomData }
        }
    }
    impl<D> VerifyingKey<D> {
        pub fn new(key: RsaPublicKey) -> Self {
            VerifyingKey { inner: key, _d: PhantomData }
        }
    }
    impl<D> From<RsaPublicKey> for VerifyingKey<D> {
        fn from(key: RsaPublicKey) -> Self {
            Self::new(key)
        }
    }
    impl<D> From<VerifyingKey<D>> for RsaPublicKey {
        fn from(k: VerifyingKey<D>) -> Self {
            k.inner
        }
    }
    impl<D> AsRef<RsaPublicKey> for VerifyingKey<D> {
        fn as_ref(&self) -> &RsaPublicKey {
            &self.inner
        }
    }
    impl<D> pkcs8::spki::EncodePublicKey for VerifyingKey<D> {
        fn to_public_key_der(&self) -> pkcs8::spki::Result<Document> {
            self.inner.to_public_key_der()
        }
    }
    fn chunk_msg(d: &[u8], j: u8) -> [u8; 49] {
        let mut m = [0u8; 49];
        m[..48].copy_from_slice(d);
        m[48] = j;
        m
    }
    impl<D> DigestVerifier<D, Signature> for VerifyingKey<D>
    where
        D: Digest + FixedOutputReset,
    {
        fn verify_digest(&self, digest: D, signature: &Signature) -> signature::Result<()> {
            let d = digest.finalize();
            assert!(d.len() == 48, "[model] capacity: only PSS with SHA-384 is modelled");
            let mut ok = signature.len == self.inner.size() && signature.len == 256;
            let mut j = 0;
            while j < 4 {
                ok &= was_output_of_kp(alg::RSA_PSS_SIG, &self.inner.pid, &chunk_msg(&d, j as u8), &signature.b[64 * j..64 * j + 64]);
                j += 1;
            }
            if ok {
                Ok(())
            } else {
                Err(signature::Error::new())
            }
        }
    }

    pub struct SigningKey<D> {
        inner: RsaPrivateKey,
        salt_len: usize,
        _d: PhantomData<D>,
    }
    impl<D> Clone for SigningKey<D> {
        fn clone(&self) -> Self {
            SigningKey { inner: self.inner.clone(), salt_len: self.salt_len, _d: PhantomData }
        }
    }
    impl<D: Digest> SigningKey<D> {
        pub fn new(key: RsaPrivateKey) -> Self {
            SigningKey { inner: key, salt_len: <D as Digest>::output_size(), _d: PhantomData }
        }
        pub fn random<R: CryptoRngCore + ?Sized>(rng: &mut R, bit_size: usize) -> Result<Self> {
            Ok(Self::new(RsaPrivateKey::new(rng, bit_size)?))
        }
        pub fn salt_len(&self) -> usize {
            self.salt_len
        }
    }
    impl<D: Digest> From<RsaPrivateKey> for SigningKey<D> {
        fn from(key: RsaPrivateKey) -> Self {
            Self::new(key)
        }
    }
    impl<D> From<SigningKey<D>> for RsaPrivateKey {
        fn from(k: SigningKey<D>) -> Self {
            k.inner
        }
    }
    impl<D> AsRef<RsaPrivateKey> for SigningKey<D> {
        fn as_ref(&self) -> &RsaPrivateKey {
            &self.inner
        }
    }
    impl<D> pkcs1::EncodeRsaPrivateKey for SigningKey<D> {
        fn to_pkcs1_der(&self) -> pkcs1::Result<SecretDocument> {
            self.inner.to_pkcs1_der()
        }
    }
    impl<D> Keypair for SigningKey<D> {
        type VerifyingKey = VerifyingKey<D>;
        fn verifying_key(&self) -> Self::VerifyingKey {
            VerifyingKey { inner: self.inner.to_public_key(), _d: PhantomData }
        }
    }
    impl<D> RandomizedDigestSigner<D, Signature> for SigningKey<D>
    where
        D: Digest + FixedOutputReset,
    {
        fn try_sign_digest_with_rng(&self, rng: &mut impl CryptoRngCore, digest: D) -> signature::Result<Signature> {
            assert!(self.salt_len == 48 && self.inner.bits == 2048, "[model] capacity: only 2048-bit PSS with SHA-384 is modelled");
            let mut salt = [0u8; 48];
            rng.fill_bytes(&mut salt);
            let d = digest.finalize();
            let mut k = [0u8; 64];
            k[..32].copy_from_slice(&self.inner.pid);
            k[32..].copy_from_slice(&salt[..32]);
            let mut b = [0u8; 256];
            let mut j = 0;
            while j < 4 {
                let mut o = [0u8; 64];
                uf(alg::RSA_PSS_SIG, true, &k, &chunk_msg(&d, j as u8), &mut o);
                b[64 * j..64 * j + 64].copy_from_slice(&o);
                j += 1;
            }
            Ok(Signature { len: 256, b })
        }
    }
}

// ---------------------------------------------------------------------------------------------------- RSA-KEM (hazmat)
pub mod hazmat {
    //! Raw RSA as an uninterpreted PERMUTATION pair per key: `rsa_encrypt(pk, m)` and `rsa_decrypt_and_check(sk, _, c)` are
    //! inverse bijections on byte-given values of the key's width (size() bytes, leading zeros significant for identity but
    //! stripped by `to_bytes_be`): a small table in this crate records (pid, m, c) pairs; a new `rsa_encrypt(pid, m)` returns
    //! the recorded c for a recorded m and otherwise a fresh c different from every recorded c of that key; `rsa_decrypt`
    //! returns the recorded m for a recorded c and otherwise a fresh m different from every recorded m. IDEAL-RSA assumption
    //! across keys: two different keys never map the same recorded input to the same output (k1.seal binds a sealed key to
    //! its recipient only through this: the recipient's key is not hashed into Ek / Ak). Results may have
    //! leading zero bytes: HOW MANY is selected per harness with `model::kem_leading_zeros(enc, dec)` and assumed of the fresh
    //! value (so `BigUint::to_bytes_be`, which strips them like num-bigint-dig, has a concrete length; instances with 0 and
    //! with 1 leading zero byte together cover all but 2^-16 of the values). 512-byte values do not fit vmodel-core's uf
    //! (KCAP/MCAP), hence the dedicated table.
    use super::*;
    pub const KEM_SLOTS: usize = 3;
    pub const W: usize = 512;
    #[derive(Clone, Copy)]
    struct Pair {
        pid: [u8; 32],
        m: [u8; W],
        c: [u8; W],
    }
    struct Table {
        n: usize,
        e: [Pair; KEM_SLOTS],
    }
    static mut T: Table = Table { n: 0x6b65_6d00, e: [Pair { pid: [0; 32], m: [0; W], c: [0; W] }; KEM_SLOTS] };
    const N_MAGIC: usize = 0x6b65_6d00;
    #[cfg(kani)]
    fn fresh() -> [u8; W] {
        kani::any()
    }
    #[cfg(not(kani))]
    fn fresh() -> [u8; W] {
        panic!("rsa model: no native implementation")
    }
    fn eq_w(a: &[u8; W], b: &[u8; W]) -> bool {
        let mut same = true;
        let mut i = 0;
        while i < W {
            same &= a[i] == b[i];
            i += 1;
        }
        same
    }
    /// the value as a W-byte big-endian string. Values longer than the key width are "[model] capacity" (the real crate
    /// compares with the modulus; paseto-v1 only passes 512-byte strings to a 4096-bit key).
    fn widen(v: &BigUint, width: usize) -> [u8; W] {
        assert!(v.known == 1, "[model] capacity: RSA on an abstract value");
        assert!(v.len <= width && width == W, "[model] capacity: raw RSA is modelled for 512-byte values under 4096-bit keys only");
        let off = W - v.len;
        let mut o = [0u8; W];
        let mut i = 0;
        while i < W {
            if i >= off {
                o[i] = v.b[i - off];
            }
            i += 1;
        }
        o
    }
    /// forward = true: look up by m, produce c; false: look up by c, produce m
    fn permute(pid: &[u8; 32], x: &[u8; W], forward: bool) -> [u8; W] {
        unsafe {
            let n = T.n - N_MAGIC;
            assert!(n < KEM_SLOTS, "[model] capacity: more raw RSA operations than KEM_SLOTS");
            let y = fresh();
            let mut j = 0;
            while j < n {
                let e = &T.e[j];
                let mut same_key = true;
                let mut i = 0;
                while i < 32 {
                    same_key &= e.pid[i] == pid[i];
                    i += 1;
                }
                let (ex, ey) = if forward { (&e.m, &e.c) } else { (&e.c, &e.m) };
                if same_key {
                    if eq_w(ex, x) {
                        assume(eq_w(ey, &y)); // function
                    } else {
                        assume(!eq_w(ey, &y)); // injective
                    }
                } else if eq_w(ex, x) {
                    // IDEAL: the permutations of two different keys do not agree on a recorded point (decrypting a ciphertext
                    // with another recipient's key does not give the sender's integer back)
                    assume(!eq_w(ey, &y));
                }
                j += 1;
            }
            let e = &mut T.e[n];
            e.pid = *pid;
            if forward {
                e.m = *x;
                e.c = y;
            } else {
                e.c = *x;
                e.m = y;
            }
            T.n = N_MAGIC + n + 1;
            y
        }
    }
    // Leading zero bytes of the results (ciphertexts of rsa_encrypt / plaintexts of rsa_decrypt): selected by the harness
    // (`model::kem_leading_zeros`), ASSUMED of the fresh value — so that `to_bytes_be()` of a result has a concrete length.
    const LZ_MAGIC: usize = 0x6c7a_0000;
    static mut ENC_LZ: usize = LZ_MAGIC;
    static mut DEC_LZ: usize = LZ_MAGIC;
    pub(crate) fn set_lz(enc: usize, dec: usize) {
        unsafe {
            ENC_LZ = LZ_MAGIC + enc;
            DEC_LZ = LZ_MAGIC + dec;
        }
    }
    fn result(y: &[u8; W], lz: usize) -> BigUint {
        let mut i = 0;
        while i < lz {
            assume(y[i] == 0);
            i += 1;
        }
        assume(y[lz] != 0);
        BigUint { known: 1, nbits: 0, len: W, lz, b: *y }
    }
    pub(crate) fn encrypt_raw(pid: &[u8; 32], m: &[u8; W]) -> [u8; W] {
        let y = permute(pid, m, true);
        let _ = result(&y, unsafe { ENC_LZ - LZ_MAGIC });
        y
    }
    /// m^e mod n (the real crate's `m < n` check against the abstract modulus is not modelled: every 512-byte string is in the domain)
    pub fn rsa_encrypt<K: PublicKeyParts + AsRef<RsaPublicKey>>(key: &K, m: &BigUint) -> Result<BigUint> {
        let x = widen(m, key.size());
        Ok(result(&permute(&key.as_ref().pid, &x, true), unsafe { ENC_LZ - LZ_MAGIC }))
    }
    /// c^d mod n with the real crate's consistency check (which cannot fail for a well-formed key); `c < n` not modelled
    pub fn rsa_decrypt_and_check<R: CryptoRngCore + ?Sized>(priv_key: &RsaPrivateKey, _rng: Option<&mut R>, c: &BigUint) -> Result<BigUint> {
        let x = widen(c, priv_key.size());
        Ok(result(&permute(&priv_key.pid, &x, false), unsafe { DEC_LZ - LZ_MAGIC }))
    }
}
