//! MODEL of `argon2` 0.5.3 (the API paseto-v2/v4 pw_wrap.rs use) — assumed contracts:
//!  * `ParamsBuilder::build` / `Params::new` validate exactly like the real crate (MIN_M_COST = 8, m >= 8*p, t >= 1,
//!    1 <= p <= 0xFFFFFF). NOTE: the real crate computes `p_cost * 8` in u32 *before* the p <= MAX_P_COST check; with
//!    overflow checks on (debug builds) p >= 2^29 panics inside the dependency, in release builds it wraps and the later
//!    range check rejects. The model uses the release semantics (wrapping) — recorded as an assumption.
//!  * `hash_password_into(pwd, salt, out)`: Err if |salt| < 8 or |out| < 4, else
//!    out = uf(ARGON2ID, key = pwd, msg = be32(m_cost KiB) ‖ be32(t_cost) ‖ be32(p_cost) ‖ salt): deterministic, collision-free.
//!    The cost of the real function (memory/time) is not modelled: resource budgets only matter at native replay.
#![no_std]
use vmodel_core::{alg, uf, Buf};

#[derive(Debug, Clone, Copy, PartialEq, Eq)]
pub enum Error {
    MemoryTooLittle,
    TimeTooSmall,
    ThreadsTooFew,
    ThreadsTooMany,
    OutputTooShort,
    OutputTooLong,
    SaltTooShort,
}
impl core::fmt::Display for Error {
    fn fmt(&self, f: &mut core::fmt::Formatter<'_>) -> core::fmt::Result {
        f.write_str("argon2 error")
    }
}
pub type Result<T> = core::result::Result<T, Error>;

#[derive(Debug, Clone, Copy, PartialEq, Eq)]
pub enum Algorithm {
    Argon2d,
    Argon2i,
    Argon2id,
}
#[derive(Debug, Clone, Copy, PartialEq, Eq)]
pub enum Version {
    V0x10,
    V0x13,
}

#[derive(Debug, Clone, Copy, PartialEq, Eq)]
pub struct Params {
    m_cost: u32,
    t_cost: u32,
    p_cost: u32,
}
impl Params {
    pub const DEFAULT_M_COST: u32 = 19 * 1024;
    pub const MIN_M_COST: u32 = 8;
    pub const DEFAULT_T_COST: u32 = 2;
    pub const MIN_T_COST: u32 = 1;
    pub const DEFAULT_P_COST: u32 = 1;
    pub const MIN_P_COST: u32 = 1;
    pub const MAX_P_COST: u32 = 0xFFFFFF;
    pub const DEFAULT: Params = Params { m_cost: Self::DEFAULT_M_COST, t_cost: Self::DEFAULT_T_COST, p_cost: Self::DEFAULT_P_COST };
    pub const fn new(m_cost: u32, t_cost: u32, p_cost: u32, _output_len: Option<usize>) -> Result<Self> {
        if m_cost < Params::MIN_M_COST {
            return Err(Error::MemoryTooLittle);
        }
        if m_cost < p_cost.wrapping_mul(8) {
            return Err(Error::MemoryTooLittle);
        }
        if t_cost < Params::MIN_T_COST {
            return Err(Error::TimeTooSmall);
        }
        if p_cost < Params::MIN_P_COST {
            return Err(Error::ThreadsTooFew);
        }
        if p_cost > Params::MAX_P_COST {
            return Err(Error::ThreadsTooMany);
        }
        Ok(Params { m_cost, t_cost, p_cost })
    }
    /// model helper for contract stubs: the parameter-validity rule of `Params::new` as a predicate
    pub const fn model_valid(m_cost: u32, t_cost: u32, p_cost: u32) -> bool {
        m_cost >= Params::MIN_M_COST && m_cost >= p_cost.wrapping_mul(8) && t_cost >= Params::MIN_T_COST && p_cost >= Params::MIN_P_COST && p_cost <= Params::MAX_P_COST
    }
    /// model helper for contract stubs: build without the (already established) validity check
    pub const fn model_unchecked(m_cost: u32, t_cost: u32, p_cost: u32) -> Params {
        Params { m_cost, t_cost, p_cost }
    }
    pub const fn m_cost(&self) -> u32 {
        self.m_cost
    }
    pub const fn t_cost(&self) -> u32 {
        self.t_cost
    }
    pub const fn p_cost(&self) -> u32 {
        self.p_cost
    }
}
impl Default for Params {
    fn default() -> Self {
        Self::DEFAULT
    }
}

#[derive(Clone, Copy)]
pub struct ParamsBuilder {
    m_cost: u32,
    t_cost: u32,
    p_cost: u32,
}
impl ParamsBuilder {
    pub const fn new() -> Self {
        ParamsBuilder { m_cost: Params::DEFAULT_M_COST, t_cost: Params::DEFAULT_T_COST, p_cost: Params::DEFAULT_P_COST }
    }
    pub fn m_cost(&mut self, m: u32) -> &mut Self {
        self.m_cost = m;
        self
    }
    pub fn t_cost(&mut self, t: u32) -> &mut Self {
        self.t_cost = t;
        self
    }
    pub fn p_cost(&mut self, p: u32) -> &mut Self {
        self.p_cost = p;
        self
    }
    pub const fn build(&self) -> Result<Params> {
        Params::new(self.m_cost, self.t_cost, self.p_cost, None)
    }
}

pub struct Argon2<'key> {
    params: Params,
    _k: core::marker::PhantomData<&'key ()>,
}
impl<'key> Argon2<'key> {
    pub fn new(_a: Algorithm, _v: Version, params: Params) -> Self {
        Argon2 { params, _k: core::marker::PhantomData }
    }
    pub fn hash_password_into(&self, pwd: &[u8], salt: &[u8], out: &mut [u8]) -> Result<()> {
        if salt.len() < 8 {
            return Err(Error::SaltTooShort);
        }
        if out.len() < 4 {
            return Err(Error::OutputTooShort);
        }
        let mut m: Buf<76> = Buf::new();
        m.push(&self.params.m_cost.to_be_bytes());
        m.push(&self.params.t_cost.to_be_bytes());
        m.push(&self.params.p_cost.to_be_bytes());
        m.push(salt);
        uf(alg::ARGON2ID, true, pwd, m.as_slice(), out);
        Ok(())
    }
}
