//! MODEL of `hmac` 0.12.1 — assumed contract, not the algorithm.
//!   Hmac<D>::new_from_slice(key): never fails (HMAC accepts every key length, as the real crate); update() concatenates;
//!   finalize / finalize_fixed: tag = uf(HMAC_SHA384, key, message), |tag| = |D output| — deterministic and collision-free
//!   over (key, message) [IDEAL MAC: distinct (key, message) pairs give tags that differ somewhere in their 48 bytes];
//!   verify / verify_slice (provided by the real `digest::Mac`): full-length constant-time comparison with the tag.
//! Not modelled: HMAC's key normalisation (a key and the same key with trailing zero bytes, or a key longer than the
//! hash block and its hash, give the same MAC in reality; here they are different keys). No code under test relies on it.
//! Only D with a 48-byte output (SHA-384) is modelled; anything else is "[model] capacity".
//! The key is held in a KCAP-byte buffer, the message in an MCAP-byte buffer (longer: "[model] capacity").
#![no_std]
use core::marker::PhantomData;
use digest::crypto_common::KeySizeUser;
use digest::typenum::{Unsigned, U128};
pub use digest;
pub use digest::Mac;
use digest::{FixedOutput, InvalidLength, Key, KeyInit, MacMarker, Output, OutputSizeUser, Update};
use vmodel_core::{alg, uf, Buf, KCAP, MCAP};

pub struct Hmac<D> {
    key: Buf<KCAP>,
    msg: Buf<MCAP>,
    _d: PhantomData<D>,
}
/// the real crate's second flavour (for non-block-buffered digests): same contract
pub type SimpleHmac<D> = Hmac<D>;

impl<D> Clone for Hmac<D> {
    fn clone(&self) -> Self {
        Hmac { key: self.key, msg: self.msg, _d: PhantomData }
    }
}
impl<D> Hmac<D> {
    fn with_key(key: &[u8]) -> Self {
        let mut k = Buf::new();
        k.push(key);
        Hmac { key: k, msg: Buf::new(), _d: PhantomData }
    }
}
impl<D> KeySizeUser for Hmac<D> {
    type KeySize = U128; // block size of SHA-384/512 (only used by `new(&Key)`)
}
impl<D> KeyInit for Hmac<D> {
    fn new(key: &Key<Self>) -> Self {
        Self::with_key(key)
    }
    fn new_from_slice(key: &[u8]) -> Result<Self, InvalidLength> {
        Ok(Self::with_key(key))
    }
}
impl<D> MacMarker for Hmac<D> {}
impl<D> Update for Hmac<D> {
    fn update(&mut self, d: &[u8]) {
        self.msg.push(d)
    }
}
impl<D: OutputSizeUser> OutputSizeUser for Hmac<D> {
    type OutputSize = D::OutputSize;
}
impl<D: OutputSizeUser> FixedOutput for Hmac<D> {
    fn finalize_into(self, out: &mut Output<Self>) {
        assert!(D::OutputSize::USIZE == 48, "[model] capacity: only HMAC-SHA384 is modelled");
        uf(alg::HMAC_SHA384, true, self.key.as_slice(), self.msg.as_slice(), out.as_mut_slice());
    }
}
#[cfg(feature = "reset")]
impl<D> digest::Reset for Hmac<D> {
    fn reset(&mut self) {
        self.msg = Buf::new();
    }
}
#[cfg(feature = "reset")]
impl<D: OutputSizeUser> digest::FixedOutputReset for Hmac<D> {
    fn finalize_into_reset(&mut self, out: &mut Output<Self>) {
        assert!(D::OutputSize::USIZE == 48, "[model] capacity: only HMAC-SHA384 is modelled");
        uf(alg::HMAC_SHA384, true, self.key.as_slice(), self.msg.as_slice(), out.as_mut_slice());
        self.msg = Buf::new();
    }
}
