//! MODEL of `blake2` 0.10.6 — assumed contract, not the algorithm.
//!   Blake2bMac<O>::new_from_slice(key): Err iff |key| > 64 (as the real crate);  update() concatenates;
//!   finalize: out = uf(BLAKE2B_MAC, key, message) of length O — deterministic, collision-free (ideal MAC).
//!   Blake2b<O>: same with the unkeyed function. Output length is part of the function's identity (BLAKE2 parameter block).
#![no_std]
use core::marker::PhantomData;
use digest::crypto_common::KeySizeUser;
use digest::generic_array::{ArrayLength, GenericArray};
use digest::typenum::{IsLessOrEqual, LeEq, NonZero, U64};
use digest::{FixedOutput, HashMarker, InvalidLength, Key, KeyInit, MacMarker, Output, OutputSizeUser, Update};
use vmodel_core::{alg, uf, Buf, KCAP, MCAP};

#[derive(Clone)]
struct St {
    key: Buf<KCAP>,
    msg: Buf<MCAP>,
}
impl St {
    fn new(key: &[u8]) -> Self {
        let mut k = Buf::new();
        k.push(key);
        St { key: k, msg: Buf::new() }
    }
}

#[derive(Clone)]
pub struct Blake2bMac<O>(St, PhantomData<O>);
impl<O> KeySizeUser for Blake2bMac<O> {
    type KeySize = U64;
}
impl<O> KeyInit for Blake2bMac<O> {
    fn new(key: &Key<Self>) -> Self {
        Blake2bMac(St::new(key), PhantomData)
    }
    fn new_from_slice(key: &[u8]) -> Result<Self, InvalidLength> {
        if key.len() > 64 {
            return Err(InvalidLength);
        }
        Ok(Blake2bMac(St::new(key), PhantomData))
    }
}
impl<O> MacMarker for Blake2bMac<O> {}
impl<O> Update for Blake2bMac<O> {
    fn update(&mut self, d: &[u8]) {
        self.0.msg.push(d)
    }
}
impl<O: ArrayLength<u8> + IsLessOrEqual<U64>> OutputSizeUser for Blake2bMac<O>
where
    LeEq<O, U64>: NonZero,
{
    type OutputSize = O;
}
impl<O: ArrayLength<u8> + IsLessOrEqual<U64>> FixedOutput for Blake2bMac<O>
where
    LeEq<O, U64>: NonZero,
{
    fn finalize_into(self, out: &mut Output<Self>) {
        uf(alg::BLAKE2B_MAC, true, self.0.key.as_slice(), self.0.msg.as_slice(), out.as_mut_slice());
    }
}

#[derive(Clone)]
pub struct Blake2b<O>(St, PhantomData<O>);
pub type Blake2b512 = Blake2b<U64>;
impl<O> Default for Blake2b<O> {
    fn default() -> Self {
        Blake2b(St::new(&[]), PhantomData)
    }
}
impl<O> HashMarker for Blake2b<O> {}
impl<O> Update for Blake2b<O> {
    fn update(&mut self, d: &[u8]) {
        self.0.msg.push(d)
    }
}
impl<O: ArrayLength<u8>> OutputSizeUser for Blake2b<O> {
    type OutputSize = O;
}
impl<O: ArrayLength<u8>> FixedOutput for Blake2b<O> {
    fn finalize_into(self, out: &mut GenericArray<u8, O>) {
        uf(alg::BLAKE2B, true, &[], self.0.msg.as_slice(), out.as_mut_slice());
    }
}
pub use digest::{self, Digest};
