//! MODEL of `pbkdf2` 0.12.2 — assumed contract, not the algorithm (in particular: NO iteration, the cost parameter is data).
//!   pbkdf2::<PRF>(password, salt, rounds, out) / pbkdf2_array::<PRF, N>(..): Ok for every password (HMAC accepts every key
//!   length, as the real crate); out = uf(PBKDF2_SHA384, key = password, msg = be32(max(rounds,1)) ‖ salt) of length |out| —
//!   deterministic, collision-free over (password, salt, rounds) per output length [ideal KDF].
//!   rounds = 0 computes the same as rounds = 1 in the real crate (`for _ in 1..rounds`), hence the max().
//!   Only a PRF with a 48-byte output (HMAC-SHA384) is modelled. Password <= KCAP bytes, salt <= MCAP-4 bytes, out <= OCAP.
#![no_std]
use digest::typenum::Unsigned;
use digest::{FixedOutput, InvalidLength, KeyInit, Update};
use vmodel_core::{alg, uf, Buf, MCAP};

pub fn pbkdf2<PRF>(password: &[u8], salt: &[u8], rounds: u32, res: &mut [u8]) -> Result<(), InvalidLength>
where
    PRF: KeyInit + Update + FixedOutput + Clone + Sync,
{
    assert!(PRF::OutputSize::USIZE == 48, "[model] capacity: only PBKDF2-HMAC-SHA384 is modelled");
    let r = if rounds == 0 { 1 } else { rounds };
    let mut m: Buf<MCAP> = Buf::new();
    m.push(&r.to_be_bytes());
    m.push(salt);
    uf(alg::PBKDF2_SHA384, true, password, m.as_slice(), res);
    Ok(())
}

pub fn pbkdf2_array<PRF, const N: usize>(password: &[u8], salt: &[u8], rounds: u32) -> Result<[u8; N], InvalidLength>
where
    PRF: KeyInit + Update + FixedOutput + Clone + Sync,
{
    let mut buf = [0u8; N];
    pbkdf2::<PRF>(password, salt, rounds, &mut buf).map(|()| buf)
}
