//! MODEL of `aws-lc-rs` 1.14.0 — the ASSUMED CONTRACT of the safe API surface `paseto-v3-aws-lc/src/core/*.rs` uses.
//! Same paths, names and signatures, so the repository code compiles unmodified. The uninterpreted-function conventions are
//! EXACTLY those of the RustCrypto models used for paseto-v3 (`models/{sha2,hmac,hkdf,pbkdf2,aes,ctr}`) and of `vspec::v3`:
//!
//!  digest::{Context, SHA384}   update concatenates; finish() = uf(SHA384, ideal, key = [], msg = streamed bytes, out 48).
//!  hmac::{Key, Context, Tag}   Key::new(HMAC_SHA384, k) keeps k (any length <= 64 = model capacity; no hashing of long keys is
//!                              needed below the 128-byte block); sign() = uf(HMAC_SHA384, ideal, key = k, msg = streamed, out 48).
//!  hkdf::{Salt, Prk, Okm}      Salt::new(HKDF_SHA384, salt).extract(ikm).expand(info, L)?.fill(out)?:
//!                              out = uf(HKDF_SHA384, ideal, key = ikm, msg = [salt_len as u8] ‖ salt ‖ info_0 ‖ info_1 ‖ ..., |out|)
//!                              (an empty and an absent salt are the same by RFC 5869: salt_len 0);
//!                              expand: Err iff L.len() > 255*48; fill: Err iff |out| != L.len()  (aws-lc-rs hkdf.rs).
//!  pbkdf2::derive(PBKDF2_HMAC_SHA384, it, salt, secret, out)   out = uf(PBKDF2_SHA384, ideal, key = secret, msg = be32(it) ‖ salt).
//!  cipher::{AES_256, UnboundCipherKey, EncryptingKey, EncryptionContext}
//!                              UnboundCipherKey::new never fails (it only copies); EncryptingKey::ctr(k): Err iff |k| != 32
//!                              (SymmetricCipherKey conversion); less_safe_encrypt(buf, Iv128(iv)): buf ^= keystream where
//!                              keystream block j = uf(AES256_BLOCK, non-ideal, key, msg = be128(iv + j mod 2^128), out 16)
//!                              — aws-lc's AES_ctr128_encrypt increments the WHOLE 128-bit big-endian counter block;
//!                              Err for EncryptionContext::None.  No injectivity is assumed for keystream blocks.
//!  iv::FixedLength<16>         plain wrapper of the 16 bytes.
//!  rand::{SystemRandom, SecureRandom}   fill(buf): Err (buffer untouched) or the whole buffer filled with arbitrary bytes;
//!                              every draw is recorded in vmodel_core::RNG (ghost log) — the contract of `getrandom` in the
//!                              RustCrypto backends.
//!  constant_time::verify_slices_are_equal(a, b)   Ok iff same length and same bytes, compared over the FULL length.
//!  error::Unspecified
#![allow(clippy::new_without_default)]
use vmodel_core::{alg, uf, Buf, KCAP, MCAP};

pub mod error {
    #[derive(Clone, Copy, Debug, PartialEq, Eq)]
    pub struct Unspecified;
    impl core::fmt::Display for Unspecified {
        fn fmt(&self, f: &mut core::fmt::Formatter<'_>) -> core::fmt::Result {
            f.write_str("Unspecified")
        }
    }
    impl std::error::Error for Unspecified {}
}
use error::Unspecified;

/// fixed 64-byte output holder (48 used for the SHA-384 family)
#[derive(Clone, Copy)]
struct Out {
    len: usize,
    b: [u8; 64],
}

pub mod digest {
    use super::*;
    #[derive(Debug, PartialEq, Eq)]
    pub struct Algorithm {
        pub output_len: usize,
        pub(crate) alg: u8,
    }
    impl Algorithm {
        pub fn output_len(&self) -> usize {
            self.output_len
        }
    }
    pub static SHA384: Algorithm = Algorithm { output_len: 48, alg: alg::SHA384 };
    pub const SHA384_OUTPUT_LEN: usize = 48;

    #[derive(Clone)]
    pub struct Context {
        algorithm: &'static Algorithm,
        msg: Buf<MCAP>,
    }
    impl Context {
        pub fn new(algorithm: &'static Algorithm) -> Self {
            Context { algorithm, msg: Buf::new() }
        }
        pub fn update(&mut self, data: &[u8]) {
            self.msg.push(data)
        }
        pub fn finish(self) -> Digest {
            let mut o = Out { len: self.algorithm.output_len, b: [0; 64] };
            uf(self.algorithm.alg, true, &[], self.msg.as_slice(), &mut o.b[..self.algorithm.output_len]);
            Digest { algorithm: self.algorithm, out: o }
        }
        pub fn algorithm(&self) -> &'static Algorithm {
            self.algorithm
        }
    }
    #[derive(Clone, Copy)]
    pub struct Digest {
        algorithm: &'static Algorithm,
        out: Out,
    }
    impl Digest {
        pub fn algorithm(&self) -> &'static Algorithm {
            self.algorithm
        }
    }
    impl AsRef<[u8]> for Digest {
        fn as_ref(&self) -> &[u8] {
            &self.out.b[..self.out.len]
        }
    }
    pub fn digest(algorithm: &'static Algorithm, data: &[u8]) -> Digest {
        let mut c = Context::new(algorithm);
        c.update(data);
        c.finish()
    }
}

pub mod hmac {
    use super::*;
    #[derive(Clone, Copy, Debug, PartialEq, Eq)]
    pub struct Algorithm(pub(crate) &'static digest::Algorithm);
    impl Algorithm {
        pub fn digest_algorithm(&self) -> &'static digest::Algorithm {
            self.0
        }
    }
    pub static HMAC_SHA384: Algorithm = Algorithm(&digest::SHA384);

    #[derive(Clone)]
    pub struct Key {
        algorithm: Algorithm,
        key: Buf<KCAP>,
    }
    impl Key {
        pub fn new(algorithm: Algorithm, key_value: &[u8]) -> Self {
            assert!(key_value.len() <= KCAP, "[model] capacity: HMAC key longer than KCAP");
            let mut k = Buf::new();
            k.push(key_value);
            Key { algorithm, key: k }
        }
        pub fn algorithm(&self) -> Algorithm {
            self.algorithm
        }
    }
    #[derive(Clone)]
    pub struct Context {
        key: Key,
        msg: Buf<MCAP>,
    }
    impl Context {
        pub fn with_key(signing_key: &Key) -> Self {
            Context { key: signing_key.clone(), msg: Buf::new() }
        }
        pub fn update(&mut self, data: &[u8]) {
            self.msg.push(data)
        }
        pub fn sign(self) -> Tag {
            let n = self.key.algorithm.0.output_len;
            let mut o = Out { len: n, b: [0; 64] };
            uf(alg::HMAC_SHA384, true, self.key.key.as_slice(), self.msg.as_slice(), &mut o.b[..n]);
            Tag(o)
        }
    }
    #[derive(Clone, Copy)]
    pub struct Tag(Out);
    impl AsRef<[u8]> for Tag {
        fn as_ref(&self) -> &[u8] {
            &self.0.b[..self.0.len]
        }
    }
    pub fn sign(key: &Key, data: &[u8]) -> Tag {
        let mut c = Context::with_key(key);
        c.update(data);
        c.sign()
    }
    pub fn verify(key: &Key, data: &[u8], tag: &[u8]) -> Result<(), Unspecified> {
        constant_time::verify_slices_are_equal(sign(key, data).as_ref(), tag)
    }
}

pub mod hkdf {
    use super::*;
    #[derive(Clone, Copy, Debug, PartialEq, Eq)]
    pub struct Algorithm(pub(crate) hmac::Algorithm);
    impl Algorithm {
        pub fn hmac_algorithm(&self) -> hmac::Algorithm {
            self.0
        }
    }
    pub static HKDF_SHA384: Algorithm = Algorithm(hmac::HMAC_SHA384);
    const MAX_HKDF_SALT_LEN: usize = 80;

    pub trait KeyType {
        fn len(&self) -> usize;
    }
    impl KeyType for Algorithm {
        fn len(&self) -> usize {
            self.0.digest_algorithm().output_len
        }
    }
    pub struct Salt {
        algorithm: Algorithm,
        salt: Buf<MAX_HKDF_SALT_LEN>,
    }
    impl Salt {
        /// Panics if the salt is longer than 80 bytes (as aws-lc-rs).
        pub fn new(algorithm: Algorithm, value: &[u8]) -> Self {
            assert!(value.len() <= MAX_HKDF_SALT_LEN, "Salt length limit exceeded.");
            let mut s = Buf::new();
            s.push(value);
            Salt { algorithm, salt: s }
        }
        pub fn extract(&self, secret: &[u8]) -> Prk {
            assert!(secret.len() <= KCAP, "[model] capacity: HKDF input key material longer than KCAP");
            let mut k = Buf::new();
            k.push(secret);
            Prk { algorithm: self.algorithm, ikm: k, salt: self.salt }
        }
        pub fn algorithm(&self) -> Algorithm {
            self.algorithm
        }
    }
    pub struct Prk {
        algorithm: Algorithm,
        ikm: Buf<KCAP>,
        salt: Buf<MAX_HKDF_SALT_LEN>,
    }
    impl Prk {
        pub fn expand<'a, L: KeyType>(&'a self, info: &'a [&'a [u8]], len: L) -> Result<Okm<'a, L>, Unspecified> {
            if len.len() > 255 * self.algorithm.0.digest_algorithm().output_len {
                return Err(Unspecified);
            }
            // msg = salt_len ‖ salt ‖ info   (an all-zero salt of any length up to the block size equals the empty salt in
            // RFC 5869; the repository only ever passes the empty salt, so salt_len is 0 here)
            let mut m: Buf<MCAP> = Buf::new();
            m.push(&[self.salt.len as u8]);
            m.push(self.salt.as_slice());
            let mut i = 0;
            while i < info.len() {
                m.push(info[i]);
                i += 1;
            }
            Ok(Okm { prk: self, msg: m, len })
        }
    }
    pub struct Okm<'a, L: KeyType> {
        prk: &'a Prk,
        msg: Buf<MCAP>,
        len: L,
    }
    impl<L: KeyType> Okm<'_, L> {
        pub fn len(&self) -> &L {
            &self.len
        }
        pub fn fill(self, out: &mut [u8]) -> Result<(), Unspecified> {
            if out.len() != self.len.len() {
                return Err(Unspecified);
            }
            uf(alg::HKDF_SHA384, true, self.prk.ikm.as_slice(), self.msg.as_slice(), out);
            Ok(())
        }
    }
}

pub mod pbkdf2 {
    use super::*;
    use core::num::NonZeroU32;
    #[derive(Clone, Copy, Debug, PartialEq, Eq)]
    pub struct Algorithm {
        pub(crate) algorithm: hmac::Algorithm,
        pub(crate) max_output_len: u64,
    }
    pub static PBKDF2_HMAC_SHA384: Algorithm = Algorithm { algorithm: hmac::HMAC_SHA384, max_output_len: ((1u64 << 32) - 1) * 48 };

    /// Panics if `out` is longer than the PBKDF2 limit (as aws-lc-rs: "derived key too long").
    pub fn derive(algorithm: Algorithm, iterations: NonZeroU32, salt: &[u8], secret: &[u8], out: &mut [u8]) {
        assert!(out.len() as u64 <= algorithm.max_output_len, "derived key too long");
        let mut m: Buf<MCAP> = Buf::new();
        m.push(&iterations.get().to_be_bytes());
        m.push(salt);
        uf(alg::PBKDF2_SHA384, true, secret, m.as_slice(), out);
    }
}

pub mod iv {
    use super::*;
    pub struct FixedLength<const L: usize>(pub(crate) [u8; L]);
    impl<const L: usize> FixedLength<L> {
        pub fn size(&self) -> usize {
            L
        }
    }
    impl<const L: usize> AsRef<[u8; L]> for FixedLength<L> {
        fn as_ref(&self) -> &[u8; L] {
            &self.0
        }
    }
    impl<const L: usize> From<&[u8; L]> for FixedLength<L> {
        fn from(b: &[u8; L]) -> Self {
            FixedLength(*b)
        }
    }
    impl<const L: usize> From<[u8; L]> for FixedLength<L> {
        fn from(b: [u8; L]) -> Self {
            FixedLength(b)
        }
    }
    impl<const L: usize> TryFrom<&[u8]> for FixedLength<L> {
        type Error = Unspecified;
        fn try_from(b: &[u8]) -> Result<Self, Unspecified> {
            let a: [u8; L] = b.try_into().map_err(|_| Unspecified)?;
            Ok(FixedLength(a))
        }
    }
}

pub mod cipher {
    use super::*;
    use crate::iv::FixedLength;
    #[derive(Debug, PartialEq, Eq, Clone, Copy)]
    pub enum AlgorithmId {
        Aes128,
        Aes192,
        Aes256,
    }
    #[derive(Debug, PartialEq, Eq)]
    pub struct Algorithm {
        id: AlgorithmId,
        key_len: usize,
        block_len: usize,
    }
    impl Algorithm {
        pub fn id(&self) -> &AlgorithmId {
            &self.id
        }
        pub const fn block_len(&self) -> usize {
            self.block_len
        }
    }
    pub static AES_256: Algorithm = Algorithm { id: AlgorithmId::Aes256, key_len: 32, block_len: 16 };
    pub const AES_256_KEY_LEN: usize = 32;
    pub const AES_CTR_IV_LEN: usize = 16;

    #[non_exhaustive]
    pub enum EncryptionContext {
        Iv128(FixedLength<16>),
        None,
    }
    #[non_exhaustive]
    pub enum DecryptionContext {
        Iv128(FixedLength<16>),
        None,
    }
    #[derive(Debug, PartialEq, Eq, Clone, Copy)]
    pub enum OperatingMode {
        CTR,
    }

    pub struct UnboundCipherKey {
        algorithm: &'static Algorithm,
        key: Buf<KCAP>,
    }
    impl UnboundCipherKey {
        /// Never fails (aws-lc-rs 1.14 copies the bytes; the length is checked when the key is bound to a mode).
        pub fn new(algorithm: &'static Algorithm, key_bytes: &[u8]) -> Result<Self, Unspecified> {
            assert!(key_bytes.len() <= KCAP, "[model] capacity: cipher key longer than KCAP");
            let mut k = Buf::new();
            k.push(key_bytes);
            Ok(UnboundCipherKey { algorithm, key: k })
        }
        pub fn algorithm(&self) -> &'static Algorithm {
            self.algorithm
        }
    }
    pub struct EncryptingKey {
        algorithm: &'static Algorithm,
        key: [u8; 32],
        mode: OperatingMode,
    }
    impl EncryptingKey {
        pub fn ctr(key: UnboundCipherKey) -> Result<Self, Unspecified> {
            if key.key.len != key.algorithm.key_len || key.algorithm.key_len != 32 {
                return Err(Unspecified);
            }
            let mut k = [0u8; 32];
            k.copy_from_slice(&key.key.b[..32]);
            Ok(EncryptingKey { algorithm: key.algorithm, key: k, mode: OperatingMode::CTR })
        }
        pub fn algorithm(&self) -> &Algorithm {
            self.algorithm
        }
        pub fn mode(&self) -> OperatingMode {
            self.mode
        }
        pub fn less_safe_encrypt(&self, in_out: &mut [u8], context: EncryptionContext) -> Result<DecryptionContext, Unspecified> {
            let iv = match context {
                EncryptionContext::Iv128(iv) => iv.0,
                EncryptionContext::None => return Err(Unspecified),
            };
            aes256_ctr128_xor(&self.key, &iv, in_out);
            Ok(DecryptionContext::Iv128(FixedLength(iv)))
        }
    }
    /// AES-256-CTR with the full 128-bit big-endian counter (aws-lc AES_ctr128_encrypt).
    pub fn aes256_ctr128_xor(key: &[u8; 32], iv: &[u8; 16], data: &mut [u8]) {
        let n = data.len();
        let ctr0 = u128::from_be_bytes(*iv);
        let mut j = 0;
        while j * 16 < n {
            let block = ctr0.wrapping_add(j as u128).to_be_bytes();
            let mut ks = [0u8; 16];
            uf(alg::AES256_BLOCK, false, key, &block, &mut ks);
            let mut i = 0;
            while i < 16 && j * 16 + i < n {
                data[j * 16 + i] ^= ks[i];
                i += 1;
            }
            j += 1;
        }
    }
}

pub mod rand {
    use super::*;
    pub trait SecureRandom: core::fmt::Debug {
        fn fill(&self, dest: &mut [u8]) -> Result<(), Unspecified>;
    }
    #[derive(Clone, Debug)]
    pub struct SystemRandom(());
    impl SystemRandom {
        pub fn new() -> Self {
            SystemRandom(())
        }
    }
    impl Default for SystemRandom {
        fn default() -> Self {
            Self::new()
        }
    }
    impl SecureRandom for SystemRandom {
        fn fill(&self, dest: &mut [u8]) -> Result<(), Unspecified> {
            if vmodel_core::rng_fill(dest) {
                Ok(())
            } else {
                Err(Unspecified)
            }
        }
    }
    pub fn fill(dest: &mut [u8]) -> Result<(), Unspecified> {
        SystemRandom::new().fill(dest)
    }
}

pub mod constant_time {
    use super::*;
    pub fn verify_slices_are_equal(a: &[u8], b: &[u8]) -> Result<(), Unspecified> {
        if a.len() != b.len() {
            return Err(Unspecified);
        }
        let mut diff = 0u8;
        let mut i = 0;
        while i < a.len() {
            diff |= a[i] ^ b[i];
            i += 1;
        }
        if diff == 0 {
            Ok(())
        } else {
            Err(Unspecified)
        }
    }
}
