//! Version 1 (paseto-spec docs/01-Protocol-Versions/Version1.md; PASERK k1: operations/Wrap/pie.md, operations/PBKW.md,
//! types/{lid,sid,pid}.md), transcribed from the specification text over the uninterpreted primitives. The primitives
//! (SHA-384, HMAC-SHA384, PBKDF2-SHA384, AES-256-CTR with the full 128-bit big-endian counter) and their uf conventions are
//! those of `v3.rs` — Version 1 and Version 3 share them. Additional conventions:
//!   HKDF-SHA384(ikm, salt, info, L) = uf(HKDF_SHA384, ideal, key = ikm, msg = [|salt|] ‖ salt ‖ info, out = L)   (here L = 32, |salt| = 16)
//!   RSA keys are opaque: a private key is (modulus bits, 32-byte identifier), its public key is (bits, uf(RSA_MISC, key = private id ‖ be16(bits), msg = [1]))
//!   RSASSA-PSS(SHA-384, MGF1-SHA-384, 48-byte salt), 2048-bit: the 256-byte signature is four 64-byte chunks
//!     chunk_j = uf(RSA_PSS_SIG, ideal, key = public id(32) ‖ salt[0..32], msg = digest(48) ‖ [j])   (vmodel-core outputs are at most 64 bytes);
//!     IDEAL SIGNATURE: a signature verifies iff all four chunks were produced for exactly (public id, digest), whatever the salt.
//! Facts checked against the official vectors (paseto-test/tests/vectors/{v1,k1.*}.json) with an independent implementation
//! before transcription: HKDF salt = n[0:16] and 32-byte outputs; nonce = HMAC-SHA384(m, key = random)[0:32]; PIE k1
//! truncates Ak to 32 bytes, PBKW k1 uses the full 48-byte Ak.
use crate::v3::{aes256_ctr_xor, hmac_sha384, pbkdf2_sha384, sha384};
use crate::*;

/// hkdf_sha384(len = 32, ikm, info, salt)
pub fn hkdf_sha384_32(ikm: &[u8], salt: &[u8], info: &[u8]) -> [u8; 32] {
    let mut o = [0u8; 32];
    uf(alg::HKDF_SHA384, true, ikm, cat(&[&[salt.len() as u8], salt, info]).as_slice(), &mut o);
    o
}

// ------------------------------------------------------------------------------------------------ v1.local
/// get_nonce(m, n) = HMAC-SHA384(message = m, key = n)[0:32]   (Version1.md, "get_nonce")
pub fn get_nonce(m: &[u8], b: &[u8; 32]) -> [u8; 32] {
    let t = hmac_sha384(b, m);
    let mut n = [0u8; 32];
    n.copy_from_slice(&t[..32]);
    n
}
/// v1.local Encrypt step 4: (Ek, Ak), both 32 bytes, salt = leftmost 16 bytes of n
pub fn local_keys(key: &[u8; 32], n: &[u8; 32]) -> ([u8; 32], [u8; 32]) {
    // Ek = hkdf_sha384(len = 32, ikm = key, info = "paseto-encryption-key", salt = n[0:16])
    let ek = hkdf_sha384_32(key, &n[..16], b"paseto-encryption-key");
    // Ak = hkdf_sha384(len = 32, ikm = key, info = "paseto-auth-key-for-aead", salt = n[0:16])
    let ak = hkdf_sha384_32(key, &n[..16], b"paseto-auth-key-for-aead");
    (ek, ak)
}
/// v1.local Encrypt steps 4-7 for a given nonce n: writes n ‖ c ‖ t into `out` (|out| == 32 + |m| + 48). h = "v1" ‖ suffix ‖ ".local."
pub fn local_encrypt_with_n(key: &[u8; 32], n: &[u8; 32], m: &[u8], suffix: &[u8], f: &[u8], out: &mut [u8]) {
    assert!(out.len() == 80 + m.len());
    let (ek, ak) = local_keys(key, n);
    let ml = m.len();
    out[..32].copy_from_slice(n);
    out[32..32 + ml].copy_from_slice(m);
    // c = aes256ctr_encrypt(plaintext = m, nonce = n[16:], key = Ek)
    let mut n2 = [0u8; 16];
    n2.copy_from_slice(&n[16..]);
    aes256_ctr_xor(&ek, &n2, &mut out[32..32 + ml]);
    let h = cat(&[b"v1", suffix, b".local."]);
    // pre-auth = PAE(h, n, c, f); t = hmac_sha384(message = pre-auth, key = Ak)   (Version 1 has no implicit assertion)
    let pre = pae(&[h.as_slice(), n, &out[32..32 + ml], f]);
    let t = hmac_sha384(&ak, pre.as_slice());
    out[32 + ml..].copy_from_slice(&t);
}
/// v1.local Encrypt with the 32 random bytes `b`: n = get_nonce(m, b), then as above
pub fn local_encrypt(key: &[u8; 32], b: &[u8; 32], m: &[u8], suffix: &[u8], f: &[u8], out: &mut [u8]) {
    let n = get_nonce(m, b);
    local_encrypt_with_n(key, &n, m, suffix, f, out);
}

// ------------------------------------------------------------------------------------------------ v1.public
/// public identifier of an RSA private key (opaque key material, see the header)
pub fn rsa_public_id(private_id: &[u8; 32], bits: u16) -> [u8; 32] {
    let mut k = [0u8; 34];
    k[..32].copy_from_slice(private_id);
    k[32..].copy_from_slice(&bits.to_be_bytes());
    let mut o = [0u8; 32];
    uf(alg::RSA_MISC, true, &k, &[1], &mut o);
    o
}
fn pss_key(public_id: &[u8; 32], salt: &[u8; 48]) -> [u8; 64] {
    let mut k = [0u8; 64];
    k[..32].copy_from_slice(public_id);
    k[32..].copy_from_slice(&salt[..32]);
    k
}
/// RSASSA-PSS signature (256 bytes) of a SHA-384 digest with the given salt
pub fn pss_sign(public_id: &[u8; 32], salt: &[u8; 48], digest: &[u8; 48]) -> [u8; 256] {
    let k = pss_key(public_id, salt);
    let mut sig = [0u8; 256];
    let mut j = 0;
    while j < 4 {
        let mut o = [0u8; 64];
        uf(alg::RSA_PSS_SIG, true, &k, cat(&[digest, &[j as u8]]).as_slice(), &mut o);
        sig[64 * j..64 * j + 64].copy_from_slice(&o);
        j += 1;
    }
    sig
}
/// Ideal-signature verification: valid iff every chunk was produced by a signer of `public_id` for exactly this digest
pub fn pss_verify(public_id: &[u8; 32], digest: &[u8; 48], sig: &[u8]) -> bool {
    if sig.len() != 256 {
        return false;
    }
    let mut ok = true;
    let mut j = 0;
    while j < 4 {
        ok &= vmodel_core::was_output_of_kp(alg::RSA_PSS_SIG, public_id, cat(&[digest, &[j as u8]]).as_slice(), &sig[64 * j..64 * j + 64]);
        j += 1;
    }
    ok
}
/// SHA-384 of m2 = PAE(h, m, f); h = "v1" ‖ suffix ‖ ".public."
pub fn public_digest(m: &[u8], suffix: &[u8], f: &[u8]) -> [u8; 48] {
    let h = cat(&[b"v1", suffix, b".public."]);
    let m2 = pae(&[h.as_slice(), m, f]);
    sha384(m2.as_slice())
}
/// v1.public Sign with PSS salt `salt`: out = m ‖ sig (|m| + 256)
pub fn public_sign(public_id: &[u8; 32], salt: &[u8; 48], m: &[u8], suffix: &[u8], f: &[u8], out: &mut [u8]) {
    assert!(out.len() == m.len() + 256);
    let d = public_digest(m, suffix, f);
    let sig = pss_sign(public_id, salt, &d);
    out[..m.len()].copy_from_slice(m);
    out[m.len()..].copy_from_slice(&sig);
}
/// v1.public Verify: Some(|m|) iff the payload is m ‖ sig with sig valid for SHA-384(PAE(h, m, f))
pub fn public_verify(public_id: &[u8; 32], payload: &[u8], suffix: &[u8], f: &[u8]) -> Option<usize> {
    if payload.len() < 256 {
        return None;
    }
    let ml = payload.len() - 256;
    let d = public_digest(&payload[..ml], suffix, f);
    if pss_verify(public_id, &d, &payload[ml..]) {
        Some(ml)
    } else {
        None
    }
}

// ------------------------------------------------------------------------------------------------ PASERK k1: PIE
/// PIE (v1/v3) steps 3-4: (Ek, n2, Ak)
pub fn pie_keys(wk: &[u8; 32], n: &[u8; 32]) -> ([u8; 32], [u8; 16], [u8; 32]) {
    // x = HMAC-SHA384(msg = 0x80 || n, key = wk); Ek = x[0:32]; n2 = x[32:]
    let x = hmac_sha384(wk, cat(&[&[0x80], n]).as_slice());
    // Ak = HMAC-SHA384(msg = 0x81 || n, key = wk)[0:32]
    let a = hmac_sha384(wk, cat(&[&[0x81], n]).as_slice());
    let mut ek = [0u8; 32];
    ek.copy_from_slice(&x[..32]);
    let mut n2 = [0u8; 16];
    n2.copy_from_slice(&x[32..]);
    let mut ak = [0u8; 32];
    ak.copy_from_slice(&a[..32]);
    (ek, n2, ak)
}
/// PIE wrap with nonce n: out = t(48) ‖ n(32) ‖ c (|out| == 80 + |ptk|); header = ".local-wrap.pie." / ".secret-wrap.pie."
pub fn pie_wrap(header: &[u8], wk: &[u8; 32], n: &[u8; 32], ptk: &[u8], out: &mut [u8]) {
    assert!(out.len() == 80 + ptk.len());
    let (ek, n2, ak) = pie_keys(wk, n);
    out[48..80].copy_from_slice(n);
    out[80..].copy_from_slice(ptk);
    // c = AES-256-CTR(msg = ptk, key = Ek, nonce = n2)
    aes256_ctr_xor(&ek, &n2, &mut out[80..]);
    // t = HMAC-SHA384(msg = h || n || c, key = Ak)
    let t = hmac_sha384(&ak, cat(&[b"k1", header, n, &out[80..]]).as_slice());
    out[..48].copy_from_slice(&t);
}

// ------------------------------------------------------------------------------------------------ PASERK k1: PBKW
/// PBKW (v1/v3) with salt s, iteration count i and nonce n: out = s(32) ‖ be32(i) ‖ n(16) ‖ edk ‖ t(48);
/// header = ".local-pw." / ".secret-pw."
pub fn pbkw_wrap(header: &[u8], pw: &[u8], s: &[u8; 32], iterations: u32, n: &[u8; 16], ptk: &[u8], out: &mut [u8]) {
    let l = ptk.len();
    assert!(out.len() == 52 + l + 48);
    // k = PBKDF2-SHA384(pw, s, i)  (32 bytes)
    let k = pbkdf2_sha384(pw, s, iterations);
    // Ek = SHA-384(0xFF || k)[0:32]; Ak = SHA-384(0xFE || k)
    let e = sha384(cat(&[&[0xFF], &k]).as_slice());
    let ak = sha384(cat(&[&[0xFE], &k]).as_slice());
    let mut ek = [0u8; 32];
    ek.copy_from_slice(&e[..32]);
    out[..32].copy_from_slice(s);
    out[32..36].copy_from_slice(&iterations.to_be_bytes());
    out[36..52].copy_from_slice(n);
    out[52..52 + l].copy_from_slice(ptk);
    // edk = AES-256-CTR(msg = ptk, key = Ek, nonce = n)
    aes256_ctr_xor(&ek, n, &mut out[52..52 + l]);
    // t = HMAC-SHA384(msg = h || s || int2bytes(i) || n || edk, key = Ak)
    let t = hmac_sha384(&ak, cat(&[b"k1", header, &out[..52 + l]]).as_slice());
    out[52 + l..].copy_from_slice(&t);
}

// ------------------------------------------------------------------------------------------------ PASERK k1: ids
/// k1 lid/sid/pid: SHA-384( "k1" ‖ id_header ‖ paserk_text )[0:33]
pub fn key_id(id_header: &[u8], text: &[u8]) -> [u8; 33] {
    let d = sha384(cat(&[b"k1", id_header, text]).as_slice());
    let mut o = [0u8; 33];
    o.copy_from_slice(&d[..33]);
    o
}

// ------------------------------------------------------------------------------------------------ PASERK k1: PKE (RSA-KEM)
/// PKE seal (v1), steps 1-7 of operations/PKE.md "V1 Encryption" for a 4096-bit RSA key. RSA itself is not expressible over
/// vmodel-core's uf (512-byte values), so the caller supplies c = r^e mod n as the 512-byte big-endian string the
/// specification means; `r_raw` are the 512 random bytes of step 1 BEFORE the top bits are fixed.
/// Returns t(48) ‖ edk(32) ‖ c(512). Needs vmodel-core MCAP >= 552.
pub fn pke_mask_r(r_raw: &[u8; 512]) -> [u8; 512] {
    // r: 4096 random bits with the first bit cleared and the second bit set
    let mut r = *r_raw;
    r[0] &= 0x7f;
    r[0] |= 0x40;
    r
}
pub fn pke_seal_with(r: &[u8; 512], c: &[u8; 512], pdk: &[u8; 32]) -> [u8; 592] {
    // x = HMAC-SHA384(msg = 0x01 || h || r, key = SHA384(c)); Ek = x[0:32]; n = x[32:]
    let k = sha384(c);
    let x = hmac_sha384(&k, cat(&[b"\x01k1.seal.", r]).as_slice());
    // Ak = HMAC-SHA384(msg = 0x02 || h || r, key = SHA384(c))
    let ak = hmac_sha384(&k, cat(&[b"\x02k1.seal.", r]).as_slice());
    let mut ek = [0u8; 32];
    ek.copy_from_slice(&x[..32]);
    let mut n = [0u8; 16];
    n.copy_from_slice(&x[32..]);
    // edk = AES-256-CTR(msg = pdk, key = Ek, nonce = n)
    let mut edk = *pdk;
    aes256_ctr_xor(&ek, &n, &mut edk);
    // t = HMAC-SHA384(msg = h || c || edk, key = Ak)
    let t = hmac_sha384(&ak, cat(&[b"k1.seal.", c, &edk]).as_slice());
    let mut out = [0u8; 592];
    out[..48].copy_from_slice(&t);
    out[48..80].copy_from_slice(&edk);
    out[80..].copy_from_slice(c);
    out
}
