//! vspec — the PASETO/PASERK specification, transcribed from
//!   paseto-spec/docs/01-Protocol-Versions/{Common,Version1..4}.md and paserk/{types,operations}/*.md
//! over the uninterpreted primitives of `vmodel-core`. Written from the specification text, not from the repository's code.
//! Byte strings are fixed-capacity buffers (`Buf`) so that CBMC sees concrete lengths.
#![no_std]
pub use vmodel_core::{alg, uf, Buf};

pub type Msg = Buf<{ vmodel_core::MCAP }>;

/// LE64 of the spec (the most significant bit is cleared; lengths here never reach 2^63).
pub fn le64(n: u64) -> [u8; 8] {
    (n & 0x7fff_ffff_ffff_ffff).to_le_bytes()
}

/// PAE(pieces): LE64(count) ‖ for each piece LE64(len) ‖ piece   (Common.md, "Authentication Padding")
pub fn pae(pieces: &[&[u8]]) -> Msg {
    let mut m = Msg::new();
    m.push(&le64(pieces.len() as u64));
    let mut i = 0;
    while i < pieces.len() {
        m.push(&le64(pieces[i].len() as u64));
        m.push(pieces[i]);
        i += 1;
    }
    m
}

pub fn cat(parts: &[&[u8]]) -> Msg {
    let mut m = Msg::new();
    let mut i = 0;
    while i < parts.len() {
        m.push(parts[i]);
        i += 1;
    }
    m
}

pub mod v2;
pub mod v4;
pub mod v3;
pub mod v1;
