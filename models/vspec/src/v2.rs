//! Version 2 (Version2.md; PASERK k2). PASERK k2 operations are the k4 ones with "k2" strings (PASERK spec: v2/v4 share algorithms).
use crate::*;

fn blake2b_mac(key: &[u8], msg: &[u8], out: &mut [u8]) {
    uf(alg::BLAKE2B_MAC, true, key, msg, out)
}
fn blake2b(msg: &[u8], out: &mut [u8]) {
    uf(alg::BLAKE2B, true, &[], msg, out)
}
pub use crate::v4::{ed25519_expand, ed25519_pk, ed25519_point_valid, ed25519_sig_well_formed, ed25519_sign, ed25519_verify, xchacha20_xor, argon2id, x25519_pk_of_ed, x25519_shared};

/// XChaCha20-Poly1305 (AEAD_XChaCha20_Poly1305): ciphertext = m XOR keystream(k, n); tag = Poly1305 over (aad, ciphertext)
pub fn xchacha20poly1305_xor(key: &[u8; 32], nonce: &[u8; 24], data: &mut [u8]) {
    let mut c = 0;
    while c * 64 < data.len() {
        let mut m = [0u8; 28];
        m[..24].copy_from_slice(nonce);
        m[24..].copy_from_slice(&(c as u32).to_le_bytes());
        let mut ks = [0u8; 64];
        uf(alg::XCHACHA20POLY1305_KS, false, key, &m, &mut ks);
        let mut i = 0;
        while i < 64 && c * 64 + i < data.len() {
            data[c * 64 + i] ^= ks[i];
            i += 1;
        }
        c += 1;
    }
}
pub fn xchacha20poly1305_tag(key: &[u8; 32], nonce: &[u8; 24], aad: &[u8], ct: &[u8]) -> [u8; 16] {
    let mut t = [0u8; 16];
    uf(alg::POLY1305_AEAD, true, key, cat(&[nonce, &(aad.len() as u64).to_le_bytes(), aad, ct]).as_slice(), &mut t);
    t
}

/// v2.local Encrypt with random bytes `b` (24): n = BLAKE2b(msg = m, key = b, 24 bytes); preAuth = PAE(h, n, f);
/// c || t = XChaCha20-Poly1305(m, aad = preAuth, nonce = n, key); out = n || c || t  (|out| == 24 + |m| + 16)
pub fn local_encrypt(key: &[u8; 32], b: &[u8; 24], m: &[u8], suffix: &[u8], f: &[u8], out: &mut [u8]) {
    assert!(out.len() == 40 + m.len());
    let ml = m.len();
    let mut n = [0u8; 24];
    blake2b_mac(b, m, &mut n);
    let h = cat(&[b"v2", suffix, b".local."]);
    let pre = pae(&[h.as_slice(), &n, f]);
    out[..24].copy_from_slice(&n);
    out[24..24 + ml].copy_from_slice(m);
    xchacha20poly1305_xor(key, &n, &mut out[24..24 + ml]);
    let t = xchacha20poly1305_tag(key, &n, pre.as_slice(), &out[24..24 + ml]);
    out[24 + ml..].copy_from_slice(&t);
}
/// a v2.local payload n || c || t for an arbitrary (not necessarily derived) nonce n — what Decrypt must accept
pub fn local_encrypt_with_n(key: &[u8; 32], n: &[u8; 24], m: &[u8], suffix: &[u8], f: &[u8], out: &mut [u8]) {
    assert!(out.len() == 40 + m.len());
    let ml = m.len();
    let h = cat(&[b"v2", suffix, b".local."]);
    let pre = pae(&[h.as_slice(), n, f]);
    out[..24].copy_from_slice(n);
    out[24..24 + ml].copy_from_slice(m);
    xchacha20poly1305_xor(key, n, &mut out[24..24 + ml]);
    let t = xchacha20poly1305_tag(key, n, pre.as_slice(), &out[24..24 + ml]);
    out[24 + ml..].copy_from_slice(&t);
}

/// k2 lid/sid/pid: BLAKE2b-264( "k2" ‖ id_header ‖ paserk_text )
pub fn key_id(id_header: &[u8], text: &[u8]) -> [u8; 33] {
    let mut o = [0u8; 33];
    blake2b(cat(&[b"k2", id_header, text]).as_slice(), &mut o);
    o
}

// ------------------------------------------------------------------------------------------------ v2.public
/// v2.public Sign: out = m ‖ Ed25519.sign(PAE(h, m, f)), h = "v4" ‖ suffix ‖ ".public."
pub fn public_sign(scalar: &[u8; 32], prefix: &[u8; 32], m: &[u8], suffix: &[u8], f: &[u8], out: &mut [u8]) {
    assert!(out.len() == m.len() + 64);
    let h = cat(&[b"v2", suffix, b".public."]);
    let m2 = pae(&[h.as_slice(), m, f]);
    let sig = ed25519_sign(scalar, prefix, m2.as_slice());
    out[..m.len()].copy_from_slice(m);
    out[m.len()..].copy_from_slice(&sig);
}
/// v2.public Verify: Some(|m|) iff the payload is m ‖ sig with sig valid for PAE(h, m, f)
pub fn public_verify(pk: &[u8; 32], payload: &[u8], suffix: &[u8], f: &[u8]) -> Option<usize> {
    if payload.len() < 64 {
        return None;
    }
    let ml = payload.len() - 64;
    let h = cat(&[b"v2", suffix, b".public."]);
    let m2 = pae(&[h.as_slice(), &payload[..ml], f]);
    if ed25519_verify(pk, m2.as_slice(), &payload[ml..]) {
        Some(ml)
    } else {
        None
    }
}

// ------------------------------------------------------------------------------------------------ PASERK k2: PIE
/// PIE key derivation (paserk operations/Wrap/pie.md, v2/v4): returns (Ek, n2, Ak)
pub fn pie_keys(wk: &[u8; 32], n: &[u8; 32]) -> ([u8; 32], [u8; 24], [u8; 32]) {
    let mut x = [0u8; 56];
    blake2b_mac(wk, cat(&[&[0x80], n]).as_slice(), &mut x);
    let mut ak = [0u8; 32];
    blake2b_mac(wk, cat(&[&[0x81], n]).as_slice(), &mut ak);
    let mut ek = [0u8; 32];
    ek.copy_from_slice(&x[..32]);
    let mut n2 = [0u8; 24];
    n2.copy_from_slice(&x[32..]);
    (ek, n2, ak)
}
/// PIE wrap with nonce n: out = t ‖ n ‖ c (|out| == 64 + |ptk|); header = ".local-wrap.pie." / ".secret-wrap.pie."
pub fn pie_wrap(header: &[u8], wk: &[u8; 32], n: &[u8; 32], ptk: &[u8], out: &mut [u8]) {
    assert!(out.len() == 64 + ptk.len());
    let (ek, n2, ak) = pie_keys(wk, n);
    out[32..64].copy_from_slice(n);
    out[64..].copy_from_slice(ptk);
    xchacha20_xor(&ek, &n2, &mut out[64..]);
    let mut t = [0u8; 32];
    blake2b_mac(&ak, cat(&[b"k2", header, n, &out[64..]]).as_slice(), &mut t);
    out[..32].copy_from_slice(&t);
}

// ------------------------------------------------------------------------------------------------ PASERK k2: PBKW
/// PBKW wrap (v2/v4) with salt s and nonce n: out = s(16) ‖ mem(be64) ‖ time(be32) ‖ para(be32) ‖ n(24) ‖ edk ‖ t(32)
pub fn pbkw_wrap(header: &[u8], pw: &[u8], s: &[u8; 16], mem_bytes: u64, time: u32, para: u32, n: &[u8; 24], ptk: &[u8], out: &mut [u8]) {
    let l = ptk.len();
    assert!(out.len() == 56 + l + 32);
    let k = argon2id(pw, s, mem_bytes, time, para);
    let mut ek = [0u8; 32];
    blake2b(cat(&[&[0xFF], &k]).as_slice(), &mut ek);
    let mut ak = [0u8; 32];
    blake2b(cat(&[&[0xFE], &k]).as_slice(), &mut ak);
    out[..16].copy_from_slice(s);
    out[16..24].copy_from_slice(&mem_bytes.to_be_bytes());
    out[24..28].copy_from_slice(&time.to_be_bytes());
    out[28..32].copy_from_slice(&para.to_be_bytes());
    out[32..56].copy_from_slice(n);
    out[56..56 + l].copy_from_slice(ptk);
    xchacha20_xor(&ek, n, &mut out[56..56 + l]);
    let mut t = [0u8; 32];
    blake2b_mac(&ak, cat(&[b"k2", header, &out[..56 + l]]).as_slice(), &mut t);
    out[56 + l..].copy_from_slice(&t);
}

// ------------------------------------------------------------------------------------------------ PASERK k2: PKE
/// PKE seal (v2/v4) of the 32-byte data key `pdk` to the Ed25519 public key `pk` with ephemeral X25519 secret scalar `esk`:
/// out = t(32) ‖ epk(32) ‖ edk(32)
pub fn pke_seal(pk: &[u8; 32], esk: &[u8; 32], pdk: &[u8; 32], out: &mut [u8; 96]) {
    let xpk = x25519_pk_of_ed(pk);
    let epk = x25519_pk_of_ed(&ed25519_pk(esk));
    let xk = x25519_shared(&epk, &xpk);
    let mut ek = [0u8; 32];
    blake2b(cat(&[b"\x01k2.seal.", &xk, &epk, &xpk]).as_slice(), &mut ek);
    let mut ak = [0u8; 32];
    blake2b(cat(&[b"\x02k2.seal.", &xk, &epk, &xpk]).as_slice(), &mut ak);
    let mut n = [0u8; 24];
    blake2b(cat(&[&epk, &xpk]).as_slice(), &mut n);
    let mut edk = *pdk;
    xchacha20_xor(&ek, &n, &mut edk);
    let mut t = [0u8; 32];
    blake2b_mac(&ak, cat(&[b"k2.seal.", &epk, &edk]).as_slice(), &mut t);
    out[..32].copy_from_slice(&t);
    out[32..64].copy_from_slice(&epk);
    out[64..].copy_from_slice(&edk);
}
