//! Version 4 (Version4.md; PASERK k4).
use crate::*;

fn blake2b_mac(key: &[u8], msg: &[u8], out: &mut [u8]) {
    uf(alg::BLAKE2B_MAC, true, key, msg, out)
}
fn blake2b(msg: &[u8], out: &mut [u8]) {
    uf(alg::BLAKE2B, true, &[], msg, out)
}
/// XChaCha20 keystream XOR (positions 0..|data|)
pub fn xchacha20_xor(key: &[u8; 32], nonce: &[u8; 24], data: &mut [u8]) {
    let mut c = 0;
    while c * 64 < data.len() {
        let mut m = [0u8; 28];
        m[..24].copy_from_slice(nonce);
        m[24..].copy_from_slice(&(c as u32).to_le_bytes());
        let mut ks = [0u8; 64];
        uf(alg::XCHACHA20_KS, false, key, &m, &mut ks);
        let mut i = 0;
        while i < 64 && c * 64 + i < data.len() {
            data[c * 64 + i] ^= ks[i];
            i += 1;
        }
        c += 1;
    }
}

/// v4.local Encrypt, steps 4-8: returns (Ek, n2, Ak)
pub fn local_keys(key: &[u8; 32], n: &[u8; 32]) -> ([u8; 32], [u8; 24], [u8; 32]) {
    // tmp = crypto_generichash(msg = "paseto-encryption-key" || n, key = key, length = 56); Ek = tmp[0:32]; n2 = tmp[32:]
    let mut tmp = [0u8; 56];
    blake2b_mac(key, cat(&[b"paseto-encryption-key", n]).as_slice(), &mut tmp);
    // Ak = crypto_generichash(msg = "paseto-auth-key-for-aead" || n, key = key, length = 32)
    let mut ak = [0u8; 32];
    blake2b_mac(key, cat(&[b"paseto-auth-key-for-aead", n]).as_slice(), &mut ak);
    let mut ek = [0u8; 32];
    ek.copy_from_slice(&tmp[..32]);
    let mut n2 = [0u8; 24];
    n2.copy_from_slice(&tmp[32..]);
    (ek, n2, ak)
}

/// v4.local Encrypt with nonce `n`: writes n ‖ c ‖ t into `out` (|out| == 32 + |m| + 32). h = "v4" ‖ suffix ‖ ".local."
pub fn local_encrypt(key: &[u8; 32], n: &[u8; 32], m: &[u8], suffix: &[u8], f: &[u8], i: &[u8], out: &mut [u8]) {
    assert!(out.len() == 64 + m.len());
    let (ek, n2, ak) = local_keys(key, n);
    let ml = m.len();
    out[..32].copy_from_slice(n);
    out[32..32 + ml].copy_from_slice(m);
    xchacha20_xor(&ek, &n2, &mut out[32..32 + ml]);
    let h = cat(&[b"v4", suffix, b".local."]);
    // pre-auth = PAE(h, n, c, f, i); t = crypto_generichash(pre-auth, key = Ak, length = 32)
    let pre = pae(&[h.as_slice(), n, &out[32..32 + ml], f, i]);
    let mut t = [0u8; 32];
    blake2b_mac(&ak, pre.as_slice(), &mut t);
    out[32 + ml..].copy_from_slice(&t);
}

/// k4 lid/sid/pid: BLAKE2b-264( "k4" ‖ id_header ‖ paserk_text )
pub fn key_id(id_header: &[u8], text: &[u8]) -> [u8; 33] {
    let mut o = [0u8; 33];
    blake2b(cat(&[b"k4", id_header, text]).as_slice(), &mut o);
    o
}

// ------------------------------------------------------------------------------------------------ v4.public
/// Ed25519 key expansion: seed -> (scalar, hash_prefix)   (RFC 8032 5.1.5; uninterpreted here)
pub fn ed25519_expand(seed: &[u8; 32]) -> ([u8; 32], [u8; 32]) {
    let mut o = [0u8; 64];
    uf(alg::SHA512_EXPAND, true, seed, &[], &mut o);
    let mut s = [0u8; 32];
    s.copy_from_slice(&o[..32]);
    let mut p = [0u8; 32];
    p.copy_from_slice(&o[32..]);
    (s, p)
}
/// Ed25519 public key of a secret scalar
pub fn ed25519_pk(scalar: &[u8; 32]) -> [u8; 32] {
    let mut o = [0u8; 32];
    uf(alg::ED25519_PK, true, scalar, &[], &mut o);
    vmodel_core::assume(ed25519_point_valid(&o)); // a public key is a valid curve point
    o
}
/// uninterpreted predicate "b is the canonical encoding of a curve point"
pub fn ed25519_point_valid(b: &[u8; 32]) -> bool {
    let mut v = [0u8; 1];
    uf(alg::ED25519_VALID, false, b, &[], &mut v);
    v[0] & 1 == 1
}
/// uninterpreted predicate "s is a well-formed signature encoding (canonical S, decodable R)"
pub fn ed25519_sig_well_formed(s: &[u8; 64]) -> bool {
    let mut v = [0u8; 1];
    uf(alg::ED25519_SIG_WF, false, s, &[], &mut v);
    v[0] & 1 == 1
}
/// Ed25519 signature (deterministic: a function of the key pair and the message)
pub fn ed25519_sign(scalar: &[u8; 32], prefix: &[u8; 32], msg: &[u8]) -> [u8; 64] {
    let pk = ed25519_pk(scalar);
    let mut k = [0u8; 64];
    k[..32].copy_from_slice(&pk);
    k[32..].copy_from_slice(prefix);
    let mut o = [0u8; 64];
    uf(alg::ED25519_SIG, true, &k, msg, &mut o);
    vmodel_core::assume(ed25519_sig_well_formed(&o)); // a signature produced by Sign is well formed
    o
}
/// Ed25519 verification, ideal-signature form: valid iff `sig` was produced by signing exactly `msg` under `pk`
pub fn ed25519_verify(pk: &[u8; 32], msg: &[u8], sig: &[u8]) -> bool {
    vmodel_core::was_output_of_kp(alg::ED25519_SIG, pk, msg, sig)
}
/// v4.public Sign: out = m ‖ Ed25519.sign(PAE(h, m, f, i)), h = "v4" ‖ suffix ‖ ".public."
pub fn public_sign(scalar: &[u8; 32], prefix: &[u8; 32], m: &[u8], suffix: &[u8], f: &[u8], i: &[u8], out: &mut [u8]) {
    assert!(out.len() == m.len() + 64);
    let h = cat(&[b"v4", suffix, b".public."]);
    let m2 = pae(&[h.as_slice(), m, f, i]);
    let sig = ed25519_sign(scalar, prefix, m2.as_slice());
    out[..m.len()].copy_from_slice(m);
    out[m.len()..].copy_from_slice(&sig);
}
/// v4.public Verify: Some(|m|) iff the payload is m ‖ sig with sig valid for PAE(h, m, f, i)
pub fn public_verify(pk: &[u8; 32], payload: &[u8], suffix: &[u8], f: &[u8], i: &[u8]) -> Option<usize> {
    if payload.len() < 64 {
        return None;
    }
    let ml = payload.len() - 64;
    let h = cat(&[b"v4", suffix, b".public."]);
    let m2 = pae(&[h.as_slice(), &payload[..ml], f, i]);
    if ed25519_verify(pk, m2.as_slice(), &payload[ml..]) {
        Some(ml)
    } else {
        None
    }
}

// ------------------------------------------------------------------------------------------------ PASERK k4: PIE
/// PIE key derivation (paserk operations/Wrap/pie.md, v2/v4): returns (Ek, n2, Ak)
pub fn pie_keys(wk: &[u8; 32], n: &[u8; 32]) -> ([u8; 32], [u8; 24], [u8; 32]) {
    let mut x = [0u8; 56];
    blake2b_mac(wk, cat(&[&[0x80], n]).as_slice(), &mut x);
    let mut ak = [0u8; 32];
    blake2b_mac(wk, cat(&[&[0x81], n]).as_slice(), &mut ak);
    let mut ek = [0u8; 32];
    ek.copy_from_slice(&x[..32]);
    let mut n2 = [0u8; 24];
    n2.copy_from_slice(&x[32..]);
    (ek, n2, ak)
}
/// PIE wrap with nonce n: out = t ‖ n ‖ c (|out| == 64 + |ptk|); header = ".local-wrap.pie." / ".secret-wrap.pie."
pub fn pie_wrap(header: &[u8], wk: &[u8; 32], n: &[u8; 32], ptk: &[u8], out: &mut [u8]) {
    assert!(out.len() == 64 + ptk.len());
    let (ek, n2, ak) = pie_keys(wk, n);
    out[32..64].copy_from_slice(n);
    out[64..].copy_from_slice(ptk);
    xchacha20_xor(&ek, &n2, &mut out[64..]);
    let mut t = [0u8; 32];
    blake2b_mac(&ak, cat(&[b"k4", header, n, &out[64..]]).as_slice(), &mut t);
    out[..32].copy_from_slice(&t);
}

// ------------------------------------------------------------------------------------------------ PASERK k4: PBKW
pub fn argon2id(pw: &[u8], salt: &[u8; 16], mem_bytes: u64, time: u32, para: u32) -> [u8; 32] {
    let mut m: Buf<28> = Buf::new();
    m.push(&((mem_bytes / 1024) as u32).to_be_bytes());
    m.push(&time.to_be_bytes());
    m.push(&para.to_be_bytes());
    m.push(salt);
    let mut k = [0u8; 32];
    uf(alg::ARGON2ID, true, pw, m.as_slice(), &mut k);
    k
}
/// PBKW wrap (v2/v4) with salt s and nonce n: out = s(16) ‖ mem(be64) ‖ time(be32) ‖ para(be32) ‖ n(24) ‖ edk ‖ t(32)
pub fn pbkw_wrap(header: &[u8], pw: &[u8], s: &[u8; 16], mem_bytes: u64, time: u32, para: u32, n: &[u8; 24], ptk: &[u8], out: &mut [u8]) {
    let l = ptk.len();
    assert!(out.len() == 56 + l + 32);
    let k = argon2id(pw, s, mem_bytes, time, para);
    let mut ek = [0u8; 32];
    blake2b(cat(&[&[0xFF], &k]).as_slice(), &mut ek);
    let mut ak = [0u8; 32];
    blake2b(cat(&[&[0xFE], &k]).as_slice(), &mut ak);
    out[..16].copy_from_slice(s);
    out[16..24].copy_from_slice(&mem_bytes.to_be_bytes());
    out[24..28].copy_from_slice(&time.to_be_bytes());
    out[28..32].copy_from_slice(&para.to_be_bytes());
    out[32..56].copy_from_slice(n);
    out[56..56 + l].copy_from_slice(ptk);
    xchacha20_xor(&ek, n, &mut out[56..56 + l]);
    let mut t = [0u8; 32];
    blake2b_mac(&ak, cat(&[b"k4", header, &out[..56 + l]]).as_slice(), &mut t);
    out[56 + l..].copy_from_slice(&t);
}

// ------------------------------------------------------------------------------------------------ PASERK k4: PKE
pub fn x25519_pk_of_ed(ed_pk: &[u8; 32]) -> [u8; 32] {
    let mut o = [0u8; 32];
    uf(alg::X25519_PK, true, ed_pk, &[], &mut o);
    o
}
/// X25519(sk_a, pk_b) as a commutative uninterpreted function of the two public points
pub fn x25519_shared(pk_a: &[u8; 32], pk_b: &[u8; 32]) -> [u8; 32] {
    let mut a_first = true;
    let mut decided = false;
    let mut i = 0;
    while i < 32 {
        if !decided && pk_a[i] != pk_b[i] {
            a_first = pk_a[i] < pk_b[i];
            decided = true;
        }
        i += 1;
    }
    let mut k = [0u8; 64];
    if a_first {
        k[..32].copy_from_slice(pk_a);
        k[32..].copy_from_slice(pk_b);
    } else {
        k[..32].copy_from_slice(pk_b);
        k[32..].copy_from_slice(pk_a);
    }
    let mut o = [0u8; 32];
    uf(alg::X25519_DH, true, &k, &[], &mut o);
    o
}
/// PKE seal (v2/v4) of the 32-byte data key `pdk` to the Ed25519 public key `pk` with ephemeral X25519 secret scalar `esk`:
/// out = t(32) ‖ epk(32) ‖ edk(32)
pub fn pke_seal(pk: &[u8; 32], esk: &[u8; 32], pdk: &[u8; 32], out: &mut [u8; 96]) {
    let xpk = x25519_pk_of_ed(pk);
    let epk = x25519_pk_of_ed(&ed25519_pk(esk));
    let xk = x25519_shared(&epk, &xpk);
    let mut ek = [0u8; 32];
    blake2b(cat(&[b"\x01k4.seal.", &xk, &epk, &xpk]).as_slice(), &mut ek);
    let mut ak = [0u8; 32];
    blake2b(cat(&[b"\x02k4.seal.", &xk, &epk, &xpk]).as_slice(), &mut ak);
    let mut n = [0u8; 24];
    blake2b(cat(&[&epk, &xpk]).as_slice(), &mut n);
    let mut edk = *pdk;
    xchacha20_xor(&ek, &n, &mut edk);
    let mut t = [0u8; 32];
    blake2b_mac(&ak, cat(&[b"k4.seal.", &epk, &edk]).as_slice(), &mut t);
    out[..32].copy_from_slice(&t);
    out[32..64].copy_from_slice(&epk);
    out[64..].copy_from_slice(&edk);
}
