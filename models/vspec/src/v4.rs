//! Version 4 (Version4.md; PASERK k4).
use crate::*;

fn blake2b_mac(key: &[u8], msg: &[u8], out: &mut [u8]) {
    uf(alg::BLAKE2B_MAC, true, key, msg, out)
}
fn blake2b(msg: &[u8], out: &mut [u8]) {
    uf(alg::BLAKE2B, true, &[], msg, out)
}
/// XChaCha20 keystream XOR (positions 0..|data|)
pub fn xchacha20_xor(key: &[u8; 32], nonce: &[u8; 24], data: &mut [u8]) {
    let mut c = 0;
    while c * 64 < data.len() {
        let mut m = [0u8; 28];
        m[..24].copy_from_slice(nonce);
        m[24..].copy_from_slice(&(c as u32).to_le_bytes());
        let mut ks = [0u8; 64];
        uf(alg::XCHACHA20_KS, false, key, &m, &mut ks);
        let mut i = 0;
        while i < 64 && c * 64 + i < data.len() {
            data[c * 64 + i] ^= ks[i];
            i += 1;
        }
        c += 1;
    }
}

/// v4.local Encrypt, steps 4-8: returns (Ek, n2, Ak)
pub fn local_keys(key: &[u8; 32], n: &[u8; 32]) -> ([u8; 32], [u8; 24], [u8; 32]) {
    // tmp = crypto_generichash(msg = "paseto-encryption-key" || n, key = key, length = 56); Ek = tmp[0:32]; n2 = tmp[32:]
    let mut tmp = [0u8; 56];
    blake2b_mac(key, cat(&[b"paseto-encryption-key", n]).as_slice(), &mut tmp);
    // Ak = crypto_generichash(msg = "paseto-auth-key-for-aead" || n, key = key, length = 32)
    let mut ak = [0u8; 32];
    blake2b_mac(key, cat(&[b"paseto-auth-key-for-aead", n]).as_slice(), &mut ak);
    let mut ek = [0u8; 32];
    ek.copy_from_slice(&tmp[..32]);
    let mut n2 = [0u8; 24];
    n2.copy_from_slice(&tmp[32..]);
    (ek, n2, ak)
}

/// v4.local Encrypt with nonce `n`: writes n ‖ c ‖ t into `out` (|out| == 32 + |m| + 32). h = "v4" ‖ suffix ‖ ".local."
pub fn local_encrypt(key: &[u8; 32], n: &[u8; 32], m: &[u8], suffix: &[u8], f: &[u8], i: &[u8], out: &mut [u8]) {
    assert!(out.len() == 64 + m.len());
    let (ek, n2, ak) = local_keys(key, n);
    let ml = m.len();
    out[..32].copy_from_slice(n);
    out[32..32 + ml].copy_from_slice(m);
    xchacha20_xor(&ek, &n2, &mut out[32..32 + ml]);
    let h = cat(&[b"v4", suffix, b".local."]);
    // pre-auth = PAE(h, n, c, f, i); t = crypto_generichash(pre-auth, key = Ak, length = 32)
    let pre = pae(&[h.as_slice(), n, &out[32..32 + ml], f, i]);
    let mut t = [0u8; 32];
    blake2b_mac(&ak, pre.as_slice(), &mut t);
    out[32 + ml..].copy_from_slice(&t);
}

/// k4 lid/sid/pid: BLAKE2b-264( "k4" ‖ id_header ‖ paserk_text )
pub fn key_id(id_header: &[u8], text: &[u8]) -> [u8; 33] {
    let mut o = [0u8; 33];
    blake2b(cat(&[b"k4", id_header, text]).as_slice(), &mut o);
    o
}
