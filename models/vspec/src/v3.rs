//! Version 3 (paseto-spec docs/01-Protocol-Versions/Version3.md; PASERK k3: operations/Wrap/pie.md, operations/PBKW.md,
//! operations/PKE.md, types/{lid,sid,pid}.md), transcribed from the specification text over the uninterpreted primitives.
//!
//! Conventions of the uninterpreted functions (shared with models/{sha2,hmac,hkdf,pbkdf2,aes,ctr,p384} and the aws-lc models):
//!   SHA-384(m)                 = uf(SHA384,        ideal, key = [],  msg = m,                         out 48)
//!   HMAC-SHA384(key, m)        = uf(HMAC_SHA384,   ideal, key,       msg = m,                         out 48)
//!   HKDF-SHA384(ikm,salt,info) = uf(HKDF_SHA384,   ideal, key = ikm, msg = [|salt|] ‖ salt ‖ info,    out = L)   salt NULL = empty
//!   PBKDF2-SHA384(pw,s,i)      = uf(PBKDF2_SHA384, ideal, key = pw,  msg = be32(i) ‖ s,               out 32)
//!   AES-256 block              = uf(AES256_BLOCK,  plain, key(32),   msg = block(16),                 out 16)
//!   P-384 public key           = uf(P384_PK,       ideal, key = scalar(48), msg = [],                 out 49)   compressed SEC1, tag 02/03
//!   ECDSA r / s                = uf(P384_SIG,      ideal, key = pk(49) [‖ signer-private bytes], msg = digest(48) ‖ [0] / [1], out 48)
//!                                (two 48-byte halves because vmodel-core::OCAP is 64), each assumed in 1..n-1; s may be low or high.
//!                                Verification (all models and `ecdsa_verify` below): r was produced for (pk, digest) and s OR n - s
//!                                was produced for it — the specification does not require low-S, and ECDSA is malleable in exactly
//!                                this way ((r, s) and its twin (r, n - s) verify together).
//!   ECDH x-coordinate          = uf(P384_DH,       plain, key = [],  msg = min(xA,xB) ‖ max(xA,xB),   out 48)   x = X coordinate (pk[1..49])
//! Facts checked against the official test vectors (paseto-test/tests/vectors/k3.*.json) with an independent
//! implementation before transcription: PIE k3 truncates Ak to 32 bytes, PBKW k3 and PKE k3 use the full 48-byte Ak.
use crate::*;

#[cfg(kani)]
fn assume(c: bool) {
    kani::assume(c)
}
#[cfg(not(kani))]
fn assume(_c: bool) {}

pub fn sha384(msg: &[u8]) -> [u8; 48] {
    let mut o = [0u8; 48];
    uf(alg::SHA384, true, &[], msg, &mut o);
    o
}
pub fn hmac_sha384(key: &[u8], msg: &[u8]) -> [u8; 48] {
    let mut o = [0u8; 48];
    uf(alg::HMAC_SHA384, true, key, msg, &mut o);
    o
}
/// hkdf_sha384(len = 48, ikm, info, salt = NULL)
pub fn hkdf_sha384_nosalt(ikm: &[u8], info: &[u8]) -> [u8; 48] {
    let mut o = [0u8; 48];
    uf(alg::HKDF_SHA384, true, ikm, cat(&[&[0u8], info]).as_slice(), &mut o);
    o
}
pub fn pbkdf2_sha384(pw: &[u8], salt: &[u8], iterations: u32) -> [u8; 32] {
    let mut o = [0u8; 32];
    uf(alg::PBKDF2_SHA384, true, pw, cat(&[&iterations.to_be_bytes(), salt]).as_slice(), &mut o);
    o
}

/// AES-256-CTR as every PASETO reference implementation (OpenSSL `aes-256-ctr`) computes it: the 16-byte nonce is the
/// initial counter block, a big-endian integer of the FULL block width (128 bits), incremented by one per block
/// (NIST SP 800-38A B.1 with m = 128; carries propagate through all 16 bytes, wrapping modulo 2^128).
pub fn aes256_ctr_xor(key: &[u8; 32], iv: &[u8; 16], data: &mut [u8]) {
    let ctr0 = u128::from_be_bytes(*iv);
    let mut j = 0;
    while j * 16 < data.len() {
        let block = ctr0.wrapping_add(j as u128).to_be_bytes();
        let mut ks = [0u8; 16];
        uf(alg::AES256_BLOCK, false, key, &block, &mut ks);
        let mut i = 0;
        while i < 16 && j * 16 + i < data.len() {
            data[j * 16 + i] ^= ks[i];
            i += 1;
        }
        j += 1;
    }
}

// ------------------------------------------------------------------------------------------------ v3.local
/// v3.local Encrypt steps 4-5: (Ek, n2, Ak)
pub fn local_keys(key: &[u8; 32], n: &[u8; 32]) -> ([u8; 32], [u8; 16], [u8; 48]) {
    // tmp = hkdf_sha384(len = 48, ikm = key, info = "paseto-encryption-key" || n, salt = NULL); Ek = tmp[0:32]; n2 = tmp[32:]
    let tmp = hkdf_sha384_nosalt(key, cat(&[b"paseto-encryption-key", n]).as_slice());
    // Ak = hkdf_sha384(len = 48, ikm = key, info = "paseto-auth-key-for-aead" || n, salt = NULL)
    let ak = hkdf_sha384_nosalt(key, cat(&[b"paseto-auth-key-for-aead", n]).as_slice());
    let mut ek = [0u8; 32];
    ek.copy_from_slice(&tmp[..32]);
    let mut n2 = [0u8; 16];
    n2.copy_from_slice(&tmp[32..]);
    (ek, n2, ak)
}

/// v3.local Encrypt with nonce `n`: writes n ‖ c ‖ t into `out` (|out| == 32 + |m| + 48). h = "v3" ‖ suffix ‖ ".local."
pub fn local_encrypt(key: &[u8; 32], n: &[u8; 32], m: &[u8], suffix: &[u8], f: &[u8], i: &[u8], out: &mut [u8]) {
    assert!(out.len() == 80 + m.len());
    let (ek, n2, ak) = local_keys(key, n);
    let ml = m.len();
    out[..32].copy_from_slice(n);
    out[32..32 + ml].copy_from_slice(m);
    // c = aes256ctr_encrypt(plaintext = m, nonce = n2, key = Ek)
    aes256_ctr_xor(&ek, &n2, &mut out[32..32 + ml]);
    let h = cat(&[b"v3", suffix, b".local."]);
    // pre-auth = PAE(h, n, c, f, i); t = hmac_sha384(message = pre-auth, key = Ak)
    let pre = pae(&[h.as_slice(), n, &out[32..32 + ml], f, i]);
    let t = hmac_sha384(&ak, pre.as_slice());
    out[32 + ml..].copy_from_slice(&t);
}

// ------------------------------------------------------------------------------------------------ v3.public
/// Order of the P-384 group (FIPS 186-4 D.1.2.4), big-endian.
pub const P384_N: [u8; 48] = [
    0xff, 0xff, 0xff, 0xff, 0xff, 0xff, 0xff, 0xff, 0xff, 0xff, 0xff, 0xff, 0xff, 0xff, 0xff, 0xff, 0xff, 0xff, 0xff, 0xff, 0xff, 0xff, 0xff, 0xff,
    0xc7, 0x63, 0x4d, 0x81, 0xf4, 0x37, 0x2d, 0xdf, 0x58, 0x1a, 0x0d, 0xb2, 0x48, 0xb0, 0xa7, 0x7a, 0xec, 0xec, 0x19, 0x6a, 0xcc, 0xc5, 0x29, 0x73,
];
/// 0 < v < n  (valid secret scalar / signature component)
pub fn p384_scalar_in_range(v: &[u8]) -> bool {
    if v.len() != 48 {
        return false;
    }
    let mut nonzero = false;
    let mut lt = false;
    let mut decided = false;
    let mut i = 0;
    while i < 48 {
        nonzero |= v[i] != 0;
        if !decided && v[i] != P384_N[i] {
            lt = v[i] < P384_N[i];
            decided = true;
        }
        i += 1;
    }
    nonzero && lt
}
/// n - v for a 48-byte big-endian 0 < v < n (the s component of the twin signature). Exact ripple-borrow subtraction.
pub fn p384_neg_scalar(v: &[u8]) -> [u8; 48] {
    assert!(v.len() == 48);
    let mut o = [0u8; 48];
    let mut borrow: u16 = 0;
    let mut i = 48;
    while i > 0 {
        i -= 1;
        let t = 256 + P384_N[i] as u16 - v[i] as u16 - borrow; // 0 ..= 511
        o[i] = (t & 0xff) as u8;
        borrow = 1 - (t >> 8);
    }
    o
}
/// "high S": v > floor(n/2), i.e. (n odd) v > n - v
pub fn p384_is_high(v: &[u8]) -> bool {
    let neg = p384_neg_scalar(v);
    let mut gt = false;
    let mut decided = false;
    let mut i = 0;
    while i < 48 {
        if !decided && v[i] != neg[i] {
            gt = v[i] > neg[i];
            decided = true;
        }
        i += 1;
    }
    gt
}
/// Compressed SEC1 public key of a secret scalar (tag 02/03 ‖ X)
pub fn p384_pk(sk: &[u8; 48]) -> [u8; 49] {
    let mut o = [0u8; 49];
    uf(alg::P384_PK, true, sk, &[], &mut o);
    assume(o[0] == 2 || o[0] == 3);
    o
}
fn ecdsa_half(pk: &[u8; 49], digest: &[u8; 48], which: u8) -> [u8; 48] {
    let mut o = [0u8; 48];
    uf(alg::P384_SIG, true, pk, cat(&[digest, &[which]]).as_slice(), &mut o);
    assume(p384_scalar_in_range(&o));
    o
}
/// ECDSA over P-384 of a SHA-384 digest, r ‖ s (each 48 bytes big-endian, 1 <= r, s <= n-1). Deterministic signer
/// (RFC 6979, which the specification recommends): a function of the key pair and the digest.
pub fn ecdsa_sign(pk: &[u8; 49], digest: &[u8; 48]) -> [u8; 96] {
    let mut sig = [0u8; 96];
    sig[..48].copy_from_slice(&ecdsa_half(pk, digest, 0));
    sig[48..].copy_from_slice(&ecdsa_half(pk, digest, 1));
    sig
}
/// The twin (r, n - s) of a signature (r, s): the other signature that verifies for the same key and digest. A signer that
/// normalises to low-S (paseto-v3 does, paseto-v3-aws-lc and the reference implementations do not) emits whichever of the two
/// has s <= floor(n/2).
pub fn ecdsa_twin(sig: &[u8; 96]) -> [u8; 96] {
    let mut t = *sig;
    let neg = p384_neg_scalar(&sig[48..]);
    t[48..].copy_from_slice(&neg);
    t
}
/// Ideal-signature verification with ECDSA's malleability: valid iff r and s are in 1..n-1, r was produced by a signer holding
/// the key of `pk` for exactly this digest (whatever signer-private nonce material it used) and s or n - s was produced with it.
/// The specification does NOT require low-S: both forms are specification-conforming.
pub fn ecdsa_verify(pk: &[u8; 49], digest: &[u8; 48], sig: &[u8]) -> bool {
    if sig.len() != 96 {
        return false;
    }
    if !p384_scalar_in_range(&sig[..48]) || !p384_scalar_in_range(&sig[48..]) {
        return false;
    }
    let m1 = cat(&[digest, &[1]]);
    let r = vmodel_core::was_output_of_kp(alg::P384_SIG, pk, cat(&[digest, &[0]]).as_slice(), &sig[..48]);
    let s = vmodel_core::was_output_of_kp(alg::P384_SIG, pk, m1.as_slice(), &sig[48..])
        | vmodel_core::was_output_of_kp(alg::P384_SIG, pk, m1.as_slice(), &p384_neg_scalar(&sig[48..]));
    r && s
}
/// m2 = PAE(pk, h, m, f, i) hashed with SHA-384 (the message ECDSA signs); h = "v3" ‖ suffix ‖ ".public."
pub fn public_digest(pk: &[u8; 49], m: &[u8], suffix: &[u8], f: &[u8], i: &[u8]) -> [u8; 48] {
    let h = cat(&[b"v3", suffix, b".public."]);
    let m2 = pae(&[pk, h.as_slice(), m, f, i]);
    sha384(m2.as_slice())
}
/// v3.public Sign: out = m ‖ sig, sig = the RFC 6979 pair (r0, s0) as produced (not normalised; `ecdsa_twin` gives the other form)
pub fn public_sign(sk: &[u8; 48], m: &[u8], suffix: &[u8], f: &[u8], i: &[u8], out: &mut [u8]) {
    assert!(out.len() == m.len() + 96);
    let pk = p384_pk(sk);
    let d = public_digest(&pk, m, suffix, f, i);
    let sig = ecdsa_sign(&pk, &d);
    out[..m.len()].copy_from_slice(m);
    out[m.len()..].copy_from_slice(&sig);
}
/// v3.public Verify: Some(|m|) iff the payload is m ‖ sig with sig valid for SHA-384(PAE(pk, h, m, f, i))
pub fn public_verify(pk: &[u8; 49], payload: &[u8], suffix: &[u8], f: &[u8], i: &[u8]) -> Option<usize> {
    if payload.len() < 96 {
        return None;
    }
    let ml = payload.len() - 96;
    let d = public_digest(pk, &payload[..ml], suffix, f, i);
    if ecdsa_verify(pk, &d, &payload[ml..]) {
        Some(ml)
    } else {
        None
    }
}

// ------------------------------------------------------------------------------------------------ PASERK k3: PIE
/// PIE (v1/v3) steps 3-4: (Ek, n2, Ak)
pub fn pie_keys(wk: &[u8; 32], n: &[u8; 32]) -> ([u8; 32], [u8; 16], [u8; 32]) {
    // x = HMAC-SHA384(msg = 0x80 || n, key = wk); Ek = x[0:32]; n2 = x[32:]
    let x = hmac_sha384(wk, cat(&[&[0x80], n]).as_slice());
    // Ak = HMAC-SHA384(msg = 0x81 || n, key = wk)[0:32]
    let a = hmac_sha384(wk, cat(&[&[0x81], n]).as_slice());
    let mut ek = [0u8; 32];
    ek.copy_from_slice(&x[..32]);
    let mut n2 = [0u8; 16];
    n2.copy_from_slice(&x[32..]);
    let mut ak = [0u8; 32];
    ak.copy_from_slice(&a[..32]);
    (ek, n2, ak)
}
/// PIE wrap with nonce n: out = t(48) ‖ n(32) ‖ c (|out| == 80 + |ptk|); header = ".local-wrap.pie." / ".secret-wrap.pie."
pub fn pie_wrap(header: &[u8], wk: &[u8; 32], n: &[u8; 32], ptk: &[u8], out: &mut [u8]) {
    assert!(out.len() == 80 + ptk.len());
    let (ek, n2, ak) = pie_keys(wk, n);
    out[48..80].copy_from_slice(n);
    out[80..].copy_from_slice(ptk);
    // c = AES-256-CTR(msg = ptk, key = Ek, nonce = n2)
    aes256_ctr_xor(&ek, &n2, &mut out[80..]);
    // t = HMAC-SHA384(msg = h || n || c, key = Ak)
    let t = hmac_sha384(&ak, cat(&[b"k3", header, n, &out[80..]]).as_slice());
    out[..48].copy_from_slice(&t);
}

// ------------------------------------------------------------------------------------------------ PASERK k3: PBKW
/// PBKW (v1/v3) with salt s, iteration count i and nonce n: out = s(32) ‖ be32(i) ‖ n(16) ‖ edk ‖ t(48);
/// header = ".local-pw." / ".secret-pw."
pub fn pbkw_wrap(header: &[u8], pw: &[u8], s: &[u8; 32], iterations: u32, n: &[u8; 16], ptk: &[u8], out: &mut [u8]) {
    let l = ptk.len();
    assert!(out.len() == 52 + l + 48);
    // k = PBKDF2-SHA384(pw, s, i)  (32 bytes)
    let k = pbkdf2_sha384(pw, s, iterations);
    // Ek = SHA-384(0xFF || k)[0:32]; Ak = SHA-384(0xFE || k)
    let e = sha384(cat(&[&[0xFF], &k]).as_slice());
    let ak = sha384(cat(&[&[0xFE], &k]).as_slice());
    let mut ek = [0u8; 32];
    ek.copy_from_slice(&e[..32]);
    out[..32].copy_from_slice(s);
    out[32..36].copy_from_slice(&iterations.to_be_bytes());
    out[36..52].copy_from_slice(n);
    out[52..52 + l].copy_from_slice(ptk);
    // edk = AES-256-CTR(msg = ptk, key = Ek, nonce = n)
    aes256_ctr_xor(&ek, n, &mut out[52..52 + l]);
    // t = HMAC-SHA384(msg = h || s || int2bytes(i) || n || edk, key = Ak)
    let t = hmac_sha384(&ak, cat(&[b"k3", header, &out[..52 + l]]).as_slice());
    out[52 + l..].copy_from_slice(&t);
}

// ------------------------------------------------------------------------------------------------ PASERK k3: PKE
/// ECDH(sk_a, pk_b): X coordinate of the shared point, as a commutative uninterpreted function of the two X coordinates.
pub fn p384_ecdh(pk_a: &[u8; 49], pk_b: &[u8; 49]) -> [u8; 48] {
    let (xa, xb) = (&pk_a[1..], &pk_b[1..]);
    let mut a_first = true;
    let mut decided = false;
    let mut i = 0;
    while i < 48 {
        if !decided && xa[i] != xb[i] {
            a_first = xa[i] < xb[i];
            decided = true;
        }
        i += 1;
    }
    let mut m = [0u8; 96];
    if a_first {
        m[..48].copy_from_slice(xa);
        m[48..].copy_from_slice(xb);
    } else {
        m[..48].copy_from_slice(xb);
        m[48..].copy_from_slice(xa);
    }
    let mut o = [0u8; 48];
    uf(alg::P384_DH, false, &[], &m, &mut o);
    o
}
/// PKE seal (v3) of the 32-byte data key `pdk` to the compressed public key `pk` with ephemeral secret scalar `esk`:
/// returns t(48) ‖ epk(49) ‖ edk(32)
pub fn pke_seal(pk: &[u8; 49], esk: &[u8; 48], pdk: &[u8; 32]) -> [u8; 129] {
    // epk = compressed public key of esk; xk = ECDH(esk, pk)
    let epk = p384_pk(esk);
    let xk = p384_ecdh(&epk, pk);
    // Ek || n = SHA-384(0x01 || h || xk || epk || pk); Ek = leftmost 32 bytes, n = remaining 16
    let x = sha384(cat(&[b"\x01k3.seal.", &xk, &epk, pk]).as_slice());
    // Ak = SHA-384(0x02 || h || xk || epk || pk)   (48 bytes)
    let ak = sha384(cat(&[b"\x02k3.seal.", &xk, &epk, pk]).as_slice());
    let mut ek = [0u8; 32];
    ek.copy_from_slice(&x[..32]);
    let mut n = [0u8; 16];
    n.copy_from_slice(&x[32..]);
    // edk = AES-256-CTR(msg = pdk, key = Ek, nonce = n)
    let mut edk = *pdk;
    aes256_ctr_xor(&ek, &n, &mut edk);
    // t = HMAC-SHA384(msg = h || epk || edk, key = Ak)
    let t = hmac_sha384(&ak, cat(&[b"k3.seal.", &epk, &edk]).as_slice());
    let mut out = [0u8; 129];
    out[..48].copy_from_slice(&t);
    out[48..97].copy_from_slice(&epk);
    out[97..].copy_from_slice(&edk);
    out
}

// ------------------------------------------------------------------------------------------------ PASERK k3: ids
/// k3 lid/sid/pid: SHA-384( "k3" ‖ id_header ‖ paserk_text )[0:33]
pub fn key_id(id_header: &[u8], text: &[u8]) -> [u8; 33] {
    let d = sha384(cat(&[b"k3", id_header, text]).as_slice());
    let mut o = [0u8; 33];
    o.copy_from_slice(&d[..33]);
    o
}
