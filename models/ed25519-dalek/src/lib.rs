//! MODEL of `ed25519-dalek` 2.2 (hazmat API as used by paseto-v2/v4) — assumed contracts:
//!  * `ExpandedSecretKey::from(&seed)`: (scalar ‖ hash_prefix) = uf(SHA512_EXPAND, seed) — deterministic, injective.
//!  * `VerifyingKey::from(&esk)` = mul_base(esk.scalar) (curve25519-dalek model: injective, always valid).
//!  * `VerifyingKey::from_bytes(b)` is Ok iff the uninterpreted predicate valid(b) holds (same predicate as point decompression).
//!  * signing is deterministic: sig = uf(ED25519_SIG, key = vk ‖ hash_prefix, msg = M), provided `vk` is the key that belongs
//!    to `esk.scalar`; signing with a foreign `vk` yields bytes that never verify. Every signature produced is well formed.
//!  * IDEAL SIGNATURE: `verify(pk, M, sig)` holds iff `sig` was produced by the signing function for exactly (pk, M)
//!    ("no signature verifies for a message it was not made for"); malformed signatures are rejected already by `verify_stream`
//!    (uninterpreted well-formedness predicate uf(ED25519_SIG_WF, sig)).
#![no_std]
use curve25519_dalek::{EdwardsPoint, Scalar};
use vmodel_core::{alg, uf, was_output_of_kp, Buf, Collect, MCAP};

pub type SecretKey = [u8; 32];
pub const SECRET_KEY_LENGTH: usize = 32;
pub const PUBLIC_KEY_LENGTH: usize = 32;
pub const SIGNATURE_LENGTH: usize = 64;

#[derive(Debug, Clone, Copy, PartialEq, Eq)]
pub struct SignatureError(());
impl core::fmt::Display for SignatureError {
    fn fmt(&self, f: &mut core::fmt::Formatter<'_>) -> core::fmt::Result {
        f.write_str("signature error")
    }
}
impl core::error::Error for SignatureError {}

#[derive(Clone, Copy, PartialEq, Eq)]
pub struct Signature([u8; 64]);
impl Signature {
    pub fn from_bytes(b: &[u8; 64]) -> Signature {
        Signature(*b)
    }
    pub fn to_bytes(&self) -> [u8; 64] {
        self.0
    }
}
fn sig_well_formed(s: &[u8; 64]) -> bool {
    let mut o = [0u8; 1];
    uf(alg::ED25519_SIG_WF, false, s, &[], &mut o);
    o[0] & 1 == 1
}

#[derive(Clone, Copy, PartialEq, Eq)]
pub struct VerifyingKey([u8; 32]);
impl VerifyingKey {
    pub fn from_bytes(b: &[u8; 32]) -> Result<VerifyingKey, SignatureError> {
        if curve25519_dalek::model_point_valid(b) {
            Ok(VerifyingKey(*b))
        } else {
            Err(SignatureError(()))
        }
    }
    pub fn as_bytes(&self) -> &[u8; 32] {
        &self.0
    }
    pub fn to_bytes(&self) -> [u8; 32] {
        self.0
    }
    pub fn verify_stream(&self, signature: &Signature) -> Result<StreamVerifier, SignatureError> {
        if !sig_well_formed(&signature.0) {
            return Err(SignatureError(()));
        }
        Ok(StreamVerifier { pk: self.0, sig: signature.0, msg: Buf::new() })
    }
}
impl From<&hazmat::ExpandedSecretKey> for VerifyingKey {
    fn from(esk: &hazmat::ExpandedSecretKey) -> VerifyingKey {
        VerifyingKey(EdwardsPoint::mul_base(&esk.scalar).compress().to_bytes())
    }
}

pub struct StreamVerifier {
    pk: [u8; 32],
    sig: [u8; 64],
    msg: Buf<MCAP>,
}
impl StreamVerifier {
    pub fn update(&mut self, d: impl AsRef<[u8]>) {
        self.msg.push(d.as_ref())
    }
    pub fn finalize_and_verify(self) -> Result<(), SignatureError> {
        if was_output_of_kp(alg::ED25519_SIG, &self.pk, self.msg.as_slice(), &self.sig) {
            Ok(())
        } else {
            Err(SignatureError(()))
        }
    }
}

pub mod hazmat {
    use super::*;
    pub struct ExpandedSecretKey {
        pub scalar: Scalar,
        pub hash_prefix: [u8; 32],
    }
    impl From<&SecretKey> for ExpandedSecretKey {
        fn from(seed: &SecretKey) -> ExpandedSecretKey {
            let mut o = [0u8; 64];
            uf(alg::SHA512_EXPAND, true, seed, &[], &mut o);
            let mut s = [0u8; 32];
            s.copy_from_slice(&o[..32]);
            let mut p = [0u8; 32];
            p.copy_from_slice(&o[32..]);
            ExpandedSecretKey { scalar: Scalar::from_bytes_mod_order(s), hash_prefix: p }
        }
    }
    /// sign the message streamed into a fresh digest context by `msg_update`
    pub fn raw_sign_byupdate<CtxDigest, F>(esk: &ExpandedSecretKey, msg_update: F, verifying_key: &VerifyingKey) -> Result<Signature, SignatureError>
    where
        CtxDigest: Default + Collect,
        F: Fn(&mut CtxDigest) -> Result<(), SignatureError>,
    {
        let mut ctx = CtxDigest::default();
        msg_update(&mut ctx)?;
        Ok(model_sign(esk, ctx.collected(), verifying_key))
    }
    pub fn model_sign(esk: &ExpandedSecretKey, msg: &[u8], verifying_key: &VerifyingKey) -> Signature {
        let own = VerifyingKey::from(esk);
        let mut k = [0u8; 64];
        k[..32].copy_from_slice(&verifying_key.0);
        k[32..].copy_from_slice(&esk.hash_prefix);
        let mut o = [0u8; 64];
        let a = if own.0 == verifying_key.0 { alg::ED25519_SIG } else { alg::ED25519_SIG_INVALID };
        uf(a, true, &k, msg, &mut o);
        #[cfg(kani)]
        kani::assume(sig_well_formed(&o));
        Signature(o)
    }
}
