//! MODEL of `chacha20` 0.9.1 — assumed contract: XChaCha20::new(key32, nonce24) then apply_keystream(buf) XORs buf with
//! keystream(key, nonce)[pos .. pos+|buf|] and advances pos; keystream is an uninterpreted deterministic function
//! (64-byte chunks: uf(XCHACHA20_KS, key, nonce ‖ le32(chunk))). No injectivity is assumed for keystreams.
#![no_std]
use cipher::consts::{U24, U32};
use cipher::{Iv, IvSizeUser, Key, KeyIvInit, KeySizeUser, StreamCipher, StreamCipherError};
use vmodel_core::{alg, uf};

pub const KS_CHUNKS: usize = 2; // keystream positions 0..128 are modelled; beyond that: "[model] capacity"

pub struct XChaCha20 {
    key: [u8; 32],
    nonce: [u8; 24],
    pos: usize,
    have: [u8; KS_CHUNKS], // u8, not bool: a niche-bearing field would make rustc hide the discriminant of Result<(XChaCha20, ..), _> in it, and CBMC then stops constant-folding the payload
    ks: [[u8; 64]; KS_CHUNKS],
}
impl KeySizeUser for XChaCha20 {
    type KeySize = U32;
}
impl IvSizeUser for XChaCha20 {
    type IvSize = U24;
}
impl KeyIvInit for XChaCha20 {
    fn new(key: &Key<Self>, iv: &Iv<Self>) -> Self {
        let mut k = [0u8; 32];
        k.copy_from_slice(key);
        let mut n = [0u8; 24];
        n.copy_from_slice(iv);
        XChaCha20 { key: k, nonce: n, pos: 0, have: [0; KS_CHUNKS], ks: [[0; 64]; KS_CHUNKS] }
    }
}
impl XChaCha20 {
    fn byte(&mut self, p: usize) -> u8 {
        let c = p / 64;
        assert!(c < KS_CHUNKS, "[model] capacity: keystream position beyond the modelled chunks");
        if self.have[c] == 0 {
            let mut m = [0u8; 28];
            m[..24].copy_from_slice(&self.nonce);
            m[24..].copy_from_slice(&(c as u32).to_le_bytes());
            let mut o = [0u8; 64];
            uf(alg::XCHACHA20_KS, false, &self.key, &m, &mut o);
            self.ks[c] = o;
            self.have[c] = 1;
        }
        self.ks[c][p % 64]
    }
}
impl StreamCipher for XChaCha20 {
    fn try_apply_keystream_inout(&mut self, mut buf: cipher::inout::InOutBuf<'_, '_, u8>) -> Result<(), StreamCipherError> {
        let n = buf.len();
        let mut i = 0;
        while i < n {
            let k = self.byte(self.pos + i);
            let v = buf.get_in()[i] ^ k;
            buf.get_out()[i] = v;
            i += 1;
        }
        self.pos += n;
        Ok(())
    }
}
