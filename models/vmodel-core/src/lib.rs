//! vmodel-core — the *assumed contracts* of every cryptographic primitive used by paseto-rs, in one place.
//!
//! Every primitive is a **deterministic uninterpreted function** `uf(alg, key, msg) -> out`:
//!   * determinism: two calls with equal (alg, key, msg, output length) return equal bytes;
//!   * `ideal` algorithms (hashes, MACs, KDFs, public-key derivation, signatures) are additionally assumed
//!     collision-free: different inputs give outputs that differ somewhere in their used width
//!     (never at a fixed byte — a "compare only tag[..1]" change must not be masked);
//!   * nothing else is known about the outputs (they are `kani::any()`), so whatever Kani proves holds for
//!     *every* function with these two properties, in particular for the real algorithm if it is collision-free on
//!     the inputs explored (assumption "ideal hash/MAC/signature", DESIGN.md section 8.2).
//! Realisation: Ackermann reduction — each call appends (input, fresh output) to a table and *assumes* consistency with
//! all earlier entries; the number of entries stays concrete, which keeps CBMC's symbolic execution cheap.
//!
//! Capacity limits are `assert!`s whose message starts with "[model]": the runner reports them as *undecided*,
//! never as a violation.
#![no_std]
#![allow(static_mut_refs)]

pub const KCAP: usize = 64; // longest key
#[cfg(not(feature = "big"))]
pub const MCAP: usize = 176; // longest message
/// feature "big" (enabled by unit v1_pke only, its own build group): k1.seal hashes and MACs 512-byte RSA values
/// (longest message: "k1.seal." ‖ c(512) ‖ edk(32) = 552). Every other unit keeps 176.
#[cfg(feature = "big")]
pub const MCAP: usize = 560;
pub const OCAP: usize = 64; // longest output
pub const SLOTS: usize = 40; // calls per harness

/// Algorithm identifiers (domain separation between the uninterpreted functions).
pub mod alg {
    pub const BLAKE2B: u8 = 1; // unkeyed BLAKE2b, output length part of the function
    pub const BLAKE2B_MAC: u8 = 2; // keyed BLAKE2b
    pub const SHA384: u8 = 3;
    pub const SHA512: u8 = 4;
    pub const HMAC_SHA384: u8 = 5;
    pub const HKDF_SHA384: u8 = 6; // key = ikm, msg = salt_len(1) ‖ salt ‖ info
    pub const PBKDF2_SHA384: u8 = 7; // key = password, msg = iterations(be32) ‖ salt
    pub const ARGON2ID: u8 = 8; // key = password, msg = mem_kib(be32) ‖ time(be32) ‖ para(be32) ‖ salt
    pub const AES256_BLOCK: u8 = 9; // key = key, msg = 16-byte block
    pub const XCHACHA20_KS: u8 = 10; // key = key, msg = nonce(24) ‖ chunk index (le32); 64-byte keystream chunks
    pub const POLY1305_AEAD: u8 = 11; // XChaCha20-Poly1305 tag: key = key, msg = nonce ‖ le64(|aad|) ‖ aad ‖ ciphertext
    pub const ED25519_PK: u8 = 12; // key = scalar(32) -> compressed Edwards point
    pub const ED25519_SIG: u8 = 13; // key = pk(32) ‖ hash_prefix(32), msg -> signature(64)
    pub const X25519_PK: u8 = 14; // Edwards pk -> Montgomery u  (birational map)
    pub const X25519_DH: u8 = 15; // unordered pair of Montgomery points -> shared secret
    pub const SHA512_EXPAND: u8 = 16; // Ed25519 seed -> (scalar ‖ hash_prefix)
    pub const P384_PK: u8 = 17; // scalar(48) -> compressed SEC1 point (49)
    pub const P384_SIG: u8 = 18; // key = pk(49), msg = digest ‖ k -> r‖s (96)
    pub const P384_DH: u8 = 19;
    pub const RSA_PSS_SIG: u8 = 20;
    pub const RSA_KEM: u8 = 21;
    pub const SHA256: u8 = 22;
    pub const P384_DECOMPRESS: u8 = 23;
    pub const ED25519_VALID: u8 = 24; // key = 32 bytes -> bit 0 of out[0]: "is a valid compressed Edwards point"
    pub const ED25519_SIG_WF: u8 = 25; // key = 64-byte signature -> bit 0: "is well formed (canonical s, decodable R)"
    pub const ED25519_SIG_INVALID: u8 = 26; // signature made with a verifying key that does not belong to the signing key
    pub const P384_VALID: u8 = 27;
    pub const RSA_MISC: u8 = 28;
    pub const XCHACHA20POLY1305_KS: u8 = 29; // keystream of the AEAD construction: key, nonce(24) ‖ le32(chunk)
}

#[derive(Clone, Copy)]
pub struct Entry {
    pub alg: u8,
    pub klen: usize,
    pub key: [u8; KCAP],
    pub mlen: usize,
    pub msg: [u8; MCAP],
    pub olen: usize,
    pub out: [u8; OCAP],
}
const EMPTY: Entry = Entry { alg: 0, klen: 0, key: [0; KCAP], mlen: 0, msg: [0; MCAP], olen: 0, out: [0; OCAP] };

pub struct Table {
    pub n: usize,
    pub e: [Entry; SLOTS],
}
pub static mut TABLE: Table = Table { n: 0, e: [EMPTY; SLOTS] };

#[cfg(kani)]
fn fresh<const N: usize>() -> [u8; N] {
    kani::any()
}
#[cfg(not(kani))]
fn fresh<const N: usize>() -> [u8; N] {
    panic!("vmodel-core is a verification model: it has no native implementation")
}
/// `kani::assume` for model and spec crates (no-op outside Kani)
#[cfg(kani)]
pub fn assume(c: bool) {
    kani::assume(c)
}
#[cfg(not(kani))]
pub fn assume(_c: bool) {}

fn eq_prefix(a: &[u8], b: &[u8], n: usize) -> bool {
    let mut i = 0;
    let mut same = true;
    while i < n {
        same &= a[i] == b[i];
        i += 1;
    }
    same
}

/// The uninterpreted function. `ideal` => collision-free across *all* inputs of the same (alg, output length).
pub fn uf(alg: u8, ideal: bool, key: &[u8], msg: &[u8], out: &mut [u8]) {
    let (klen, mlen, olen) = (key.len(), msg.len(), out.len());
    assert!(klen <= KCAP, "[model] capacity: key longer than KCAP");
    assert!(mlen <= MCAP, "[model] capacity: message longer than MCAP");
    assert!(olen <= OCAP && olen > 0, "[model] capacity: output length outside 1..=OCAP");
    unsafe {
        let n = TABLE.n;
        assert!(n < SLOTS, "[model] capacity: more primitive calls than SLOTS");
        let o: [u8; OCAP] = fresh();
        let mut j = 0;
        while j < n {
            let e = &TABLE.e[j];
            if e.alg == alg && e.olen == olen {
                let same = e.klen == klen && e.mlen == mlen && eq_prefix(&e.key, key, klen) && eq_prefix(&e.msg, msg, mlen);
                let same_out = eq_prefix(&e.out, &o, olen);
                if same {
                    assume(same_out); // determinism
                } else if ideal {
                    assume(!same_out); // ideal hash / MAC / signature: no collisions
                }
            }
            j += 1;
        }
        let e = &mut TABLE.e[n];
        e.alg = alg;
        e.klen = klen;
        e.mlen = mlen;
        e.olen = olen;
        let mut i = 0;
        while i < klen {
            e.key[i] = key[i];
            i += 1;
        }
        let mut i = 0;
        while i < mlen {
            e.msg[i] = msg[i];
            i += 1;
        }
        e.out = o;
        TABLE.n = n + 1;
        let mut i = 0;
        while i < olen {
            out[i] = o[i];
            i += 1;
        }
    }
}

/// Ideal-signature verification: is there an earlier `uf(alg, key, msg)` call whose output equals `sig`?
/// ("no signature verifies for a message it was not made for").
pub fn was_output_of(alg: u8, key: &[u8], msg: &[u8], sig: &[u8]) -> bool {
    let (klen, mlen, olen) = (key.len(), msg.len(), sig.len());
    let mut found = false;
    unsafe {
        let n = TABLE.n;
        let mut j = 0;
        while j < n {
            let e = &TABLE.e[j];
            if e.alg == alg && e.olen == olen && e.klen == klen && e.mlen == mlen {
                found |= eq_prefix(&e.key, key, klen) && eq_prefix(&e.msg, msg, mlen) && eq_prefix(&e.out, sig, olen);
            }
            j += 1;
        }
    }
    found
}

/// Like `was_output_of`, but the stored key only has to *start with* `key_prefix` (e.g. signatures keyed by
/// public key ‖ signer-private data: the verifier knows only the public key).
pub fn was_output_of_kp(alg: u8, key_prefix: &[u8], msg: &[u8], sig: &[u8]) -> bool {
    let (plen, mlen, olen) = (key_prefix.len(), msg.len(), sig.len());
    let mut found = false;
    unsafe {
        let n = TABLE.n;
        let mut j = 0;
        while j < n {
            let e = &TABLE.e[j];
            if e.alg == alg && e.olen == olen && e.klen >= plen && e.mlen == mlen {
                found |= eq_prefix(&e.key, key_prefix, plen) && eq_prefix(&e.msg, msg, mlen) && eq_prefix(&e.out, sig, olen);
            }
            j += 1;
        }
    }
    found
}

/// A streaming hash context whose streamed message can be read back by another model.
pub trait Collect {
    fn collected(&self) -> &[u8];
}

/// Ghost view for harnesses: number of uf calls with this algorithm so far.
pub fn calls(alg: u8) -> usize {
    let mut c = 0;
    unsafe {
        let mut j = 0;
        while j < TABLE.n {
            if TABLE.e[j].alg == alg {
                c += 1;
            }
            j += 1;
        }
    }
    c
}
/// Ghost view: the k-th (0-based) call of `alg`, if any.
pub fn nth_call(alg: u8, k: usize) -> Option<Entry> {
    let mut c = 0;
    unsafe {
        let mut j = 0;
        while j < TABLE.n {
            if TABLE.e[j].alg == alg {
                if c == k {
                    return Some(TABLE.e[j]);
                }
                c += 1;
            }
            j += 1;
        }
    }
    None
}
pub fn total_calls() -> usize {
    unsafe { TABLE.n }
}

// ------------------------------------------------------------------------------------------------ byte buffer
/// Fixed-capacity byte string (streaming hash state, spec-side message builder).
#[derive(Clone, Copy)]
pub struct Buf<const N: usize> {
    pub len: usize,
    pub b: [u8; N],
}
impl<const N: usize> Buf<N> {
    pub const fn new() -> Self {
        Buf { len: 0, b: [0; N] }
    }
    pub fn push(&mut self, d: &[u8]) {
        assert!(self.len + d.len() <= N, "[model] capacity: streamed message longer than the model buffer");
        let mut i = 0;
        while i < d.len() {
            self.b[self.len + i] = d[i];
            i += 1;
        }
        self.len += d.len();
    }
    pub fn as_slice(&self) -> &[u8] {
        &self.b[..self.len]
    }
}
impl<const N: usize> Default for Buf<N> {
    fn default() -> Self {
        Self::new()
    }
}

// ------------------------------------------------------------------------------------------------ RNG
pub const DRAWS: usize = 6;
#[cfg(not(feature = "big"))]
pub const DRAW_CAP: usize = 48;
/// feature "big" (unit v1_pke only): k1.seal draws its 512-byte random integer in one call
#[cfg(feature = "big")]
pub const DRAW_CAP: usize = 512;
#[derive(Clone, Copy)]
pub struct Draw {
    pub len: usize,
    pub ok: bool,
    pub bytes: [u8; DRAW_CAP],
}
pub struct RngLog {
    pub n: usize,
    pub d: [Draw; DRAWS],
}
/// Bytes the k-th draw will return, fixed in advance when a harness asked for them with `rng_preview(k)`
/// (lets a harness compute the specification's output *before* calling the code under test).
pub static mut RNG_PRE: [(bool, [u8; DRAW_CAP]); DRAWS] = [(false, [0; DRAW_CAP]); DRAWS];
pub fn rng_preview(k: usize) -> [u8; DRAW_CAP] {
    unsafe {
        if !RNG_PRE[k].0 {
            RNG_PRE[k] = (true, fresh());
        }
        RNG_PRE[k].1
    }
}
/// Bytes fixed in advance for "the draw of `len` bytes" (order-independent form of `rng_preview`: harmless reordering of two
/// independent draws in the code under test must not change what a harness expects).
pub static mut RNG_PRE_LEN: [(usize, u64, [u8; DRAW_CAP]); 4] = [(0, 0, [0; DRAW_CAP]); 4];
pub fn rng_preview_len(len: usize) -> [u8; DRAW_CAP] {
    unsafe {
        let mut k = 0;
        while k < 4 {
            if RNG_PRE_LEN[k].0 == len {
                return RNG_PRE_LEN[k].2;
            }
            if RNG_PRE_LEN[k].0 == 0 {
                RNG_PRE_LEN[k] = (len, 0, fresh());
                return RNG_PRE_LEN[k].2;
            }
            k += 1;
        }
    }
    panic!("[model] capacity: more than 4 distinct previewed draw lengths");
}
/// the first draw of exactly `len` bytes in the ghost log (an all-default Draw with len 0 if there is none)
pub fn rng_draw_of_len(len: usize) -> Draw {
    unsafe {
        let mut k = 0;
        while k < RNG.n {
            if RNG.d[k].len == len {
                return RNG.d[k];
            }
            k += 1;
        }
    }
    Draw { len: 0, ok: false, bytes: [0; DRAW_CAP] }
}
/// is there a (successful) draw of exactly `len` bytes in the ghost log?
pub fn rng_has_len(len: usize) -> bool {
    let mut found = false;
    unsafe {
        let mut k = 0;
        while k < RNG.n {
            found |= RNG.d[k].len == len && RNG.d[k].ok;
            k += 1;
        }
    }
    found
}
pub static mut RNG: RngLog = RngLog { n: 0, d: [Draw { len: 0, ok: false, bytes: [0; DRAW_CAP] }; DRAWS] };

/// Assumed contract of the operating-system RNG: each draw either fails, or fills the whole buffer with arbitrary bytes.
/// Every draw is recorded in the ghost log `RNG`.
pub fn rng_fill(buf: &mut [u8]) -> bool {
    assert!(buf.len() <= DRAW_CAP, "[model] capacity: RNG draw longer than DRAW_CAP");
    unsafe {
        let n = RNG.n;
        assert!(n < DRAWS, "[model] capacity: more RNG draws than DRAWS");
        // failure is nondeterministic only when the harness asked for it: a symbolic Ok/Err merge would make every
        // length downstream of the draw non-constant for CBMC (see DESIGN.md section 3)
        let ok: bool = if rng_can_fail() { fresh::<1>()[0] & 1 == 1 } else { true };
        let mut bytes: [u8; DRAW_CAP] = if RNG_PRE[n].0 { RNG_PRE[n].1 } else { fresh() };
        // a preview registered by length wins (first unused entry of that length)
        let mut k = 0;
        let mut taken = false;
        while k < 4 {
            if !taken && RNG_PRE_LEN[k].0 == buf.len() && RNG_PRE_LEN[k].0 != 0 && RNG_PRE_LEN[k].1 == 0 {
                bytes = RNG_PRE_LEN[k].2;
                RNG_PRE_LEN[k].1 = 1;
                taken = true;
            }
            k += 1;
        }
        RNG.d[n] = Draw { len: buf.len(), ok, bytes };
        RNG.n = n + 1;
        if ok {
            let mut i = 0;
            while i < buf.len() {
                buf[i] = bytes[i];
                i += 1;
            }
        }
        ok
    }
}
// NOTE (Kani 0.68 pitfall, found by a native goto dump): a `static mut` whose initialiser has the same bytes as some program
// constant can be chosen as the backing memory of that constant. Small mutable statics therefore start from a distinctive magic.
const FLAG_MAGIC: u64 = 0x76_6d6f_6465_6c00;
pub static mut RNG_MAY_FAIL_FLAG: u64 = FLAG_MAGIC;
/// Harness switch: may the RNG fail (nondeterministically, independently at every draw)?
pub fn rng_may_fail(b: bool) {
    unsafe { RNG_MAY_FAIL_FLAG = FLAG_MAGIC | b as u64 }
}
fn rng_can_fail() -> bool {
    unsafe { RNG_MAY_FAIL_FLAG == FLAG_MAGIC | 1 }
}
pub fn rng_draws() -> usize {
    unsafe { RNG.n }
}
pub fn rng_draw(k: usize) -> Draw {
    unsafe { RNG.d[k] }
}
pub fn rng_all_ok() -> bool {
    let mut ok = true;
    unsafe {
        let mut k = 0;
        while k < RNG.n {
            ok &= RNG.d[k].ok;
            k += 1;
        }
    }
    ok
}
