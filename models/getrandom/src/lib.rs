//! MODEL of `getrandom` 0.3 — assumed contract of the OS RNG: `fill` either returns Err (buffer untouched) or fills the
//! whole buffer with arbitrary bytes. Each draw is recorded in vmodel_core::RNG (ghost log).
#![no_std]
#[derive(Debug, Clone, Copy, PartialEq, Eq)]
pub struct Error(());
impl core::fmt::Display for Error {
    fn fmt(&self, f: &mut core::fmt::Formatter<'_>) -> core::fmt::Result {
        f.write_str("model RNG failure")
    }
}
impl core::error::Error for Error {}
pub fn fill(dest: &mut [u8]) -> Result<(), Error> {
    if vmodel_core::rng_fill(dest) {
        Ok(())
    } else {
        Err(Error(()))
    }
}
