//! MODEL of `aws-lc-sys` 0.31.0 — the ASSUMED CONTRACT of the 29 FFI functions (plus 6 types, 1 enum) that
//! `paseto-v3-aws-lc/src/lc/{mod,ptr}.rs` imports. Same names, same signatures as the bindgen output
//! (`src/x86_64_unknown_linux_gnu_crypto.rs`), so the repository code compiles unmodified against it.
//! Behaviour transcribed from the aws-lc sources shipped in the crate (`aws-lc/crypto/...`, file named per function) and
//! the documentation in `aws-lc/include/openssl/{bn,ec,ec_key,ecdsa,ecdh,mem}.h`.
//!
//! OBJECTS are real heap allocations (`Box::into_raw` / `Box::from_raw`, DER buffers via `alloc`/`dealloc`), so CBMC's
//! pointer checks see every use-after-free, double free and out-of-bounds access of what the wrappers own; a ghost counter
//! (`model::live()`) counts live objects so harnesses can state "nothing leaks". Every `*_free(NULL)` is a no-op, as in aws-lc.
//! ALLOCATION FAILURE: every allocating function can return NULL / 0 exactly where aws-lc can (OPENSSL_malloc failure), but
//! only when a harness switched it on (`model::alloc_may_fail(true)`); otherwise allocation succeeds (keeps lengths concrete).
//!
//! BIGNUM (crypto/fipsmodule/bn/bytes.c, bn.c) — non-negative integer = big-endian magnitude of MINIMAL length:
//!   BN_bin2bn(in, len, ret)  reads exactly `len` bytes; strips leading zero bytes; ret == NULL => newly allocated (NULL on
//!                            allocation failure). Capacity of the model: len <= 66.
//!   BN_num_bytes(bn)         minimal byte length, 0 for zero (0..=66).
//!   BN_bn2bin(bn, out)       writes exactly BN_num_bytes(bn) bytes (no padding) to `out`, returns that count.
//!   BN_bn2bin_padded(out, len, bn)   (imported since the D2 repair) 0 if the value needs more than `len` bytes (`fits_in_bytes`),
//!                            else writes exactly `len` bytes = the value left-padded with zeros, returns 1. Capacity len <= 66.
//!   BN_free(bn)              frees.
//! EC_GROUP (ec.c): EC_group_p384() returns a pointer to a static object, never NULL; EC_GROUP_free of it is a no-op.
//! EC_POINT (ec.c, oct.c) — {point at infinity | affine point identified by its 49-byte compressed SEC1 encoding}:
//!   EC_POINT_new(group)      new point = infinity; NULL on allocation failure / NULL group.
//!   EC_POINT_oct2point       follows `ec_GFp_simple_oct2point`: len 0 -> 0; first byte 00 -> infinity iff len == 1 ("OpenSSL
//!                            supports decoding infinity"); 02/03 -> len must be 49 and x valid (conv::x_valid, uninterpreted);
//!                            04 -> len 97, x valid and y == Y(compressed); 06/07 (hybrid) -> as 04 plus tag parity == y
//!                            parity; everything else -> 0. Reads exactly `len` bytes when it decodes, at most 1 otherwise.
//!   EC_POINT_point2oct       infinity -> ONE byte 00 (returns 1; 0 if len < 1); affine -> 49 (compressed) / 97 bytes, 0 if the
//!                            buffer is too small; buf == NULL -> only the length.
//!   EC_POINT_mul(g, r, n, q = NULL, m = NULL, ctx)   r = n*G with n first reduced mod the order (`arbitrary_bignum_to_scalar`):
//!                            n == 0 -> infinity; 0 < n < order -> conv::p384_pk(n); n >= order -> some point (unconstrained).
//!                            n == NULL -> 0. Point operands (q, m) are outside the model's capacity.
//!   EC_POINT_free            frees.
//! EC_KEY (ec_key.c):
//!   EC_KEY_new               empty key (no group, no keys); NULL on allocation failure.
//!   EC_KEY_set_group         1 (there is only one group; setting the same group again is accepted, as in aws-lc).
//!   EC_KEY_set_private_key   0 without group; 0 for scalar == 0 or >= order (`ec_bignum_to_scalar` + zero check,
//!                            EC_R_INVALID_PRIVATE_KEY); otherwise stores a COPY (owned by the key), frees the previous one.
//!   EC_KEY_set_public_key    0 without group; frees the previous point, stores a COPY (`EC_POINT_dup`); 0 if the copy cannot be
//!                            made (NULL argument / allocation failure). NO validation: the point at infinity is accepted
//!                            (only `EC_KEY_check_key` / `EC_KEY_check_fips` reject it, and lc/*.rs never calls them).
//!   EC_KEY_get0_private_key / EC_KEY_get0_public_key   borrowed pointers into the key (NULL if unset), valid until the key is
//!                            freed or the component is replaced.
//!   EC_KEY_free              frees the key and both owned components.
//! ECDSA (ecdsa.c, ecdsa_asn1.c):
//!   ECDSA_size(key)          104 for P-384 (`ECDSA_SIG_max_len(48)`), 0 for NULL / group-less key.
//!   ECDSA_sign(type, digest, digest_len, sig, sig_len, key)   0 (and *sig_len = 0) if the key has no private key or on
//!                            allocation failure; else (r, s) = conv::ecdsa_sign = ANY pair in [1, n-1]^2 bound to
//!                            (public key of the scalar, digest) by the ideal-signature assumption, written as strict DER
//!                            (8..=104 bytes) to `sig`, *sig_len = that length; reads exactly digest_len bytes. The RNG
//!                            inside aws-lc aborts instead of failing, so there is no RNG error path.
//!   ECDSA_SIG_new            r = s = 0 (two owned BIGNUMs); NULL on allocation failure.
//!   ECDSA_SIG_set0(sig,r,s)  0 if r or s is NULL (nothing changes); else frees the old r, s and TAKES OWNERSHIP of the new.
//!   ECDSA_SIG_get0           borrowed pointers to r and s.
//!   ECDSA_SIG_from_bytes     strict parser (SEQUENCE of two minimal non-negative INTEGERs, nothing trailing); NULL otherwise.
//!                            NOTE on the byte layout: the framing and the LENGTH are those of DER, the content bytes of the two
//!                            INTEGERs are stored least-significant first (see "DER-shaped signature bytes" below) — the
//!                            repository treats these bytes as opaque.
//!   ECDSA_SIG_to_bytes       DER into a fresh OPENSSL_malloc buffer (*out_bytes, *out_len), 1; 0 on allocation failure.
//!   ECDSA_verify             0 unless `sig` is strict DER, 0 < r, s < n, the key has a public key and the ideal-signature
//!                            relation conv::ecdsa_verify holds (which accepts (r, s) and its twin (r, n - s): aws-lc accepts
//!                            high-S signatures, and ECDSA_sign emits s as drawn, low or high). With the point at infinity as public key the real equation
//!                            degenerates (forgeable): the model leaves the result unconstrained.
//!   ECDSA_SIG_free           frees r, s and the signature.
//! ECDH (ecdh_extra.c, fipsmodule/ecdh/ecdh.c):
//!   ECDH_compute_key(out, outlen, pub, priv, kdf = None)   -1 if priv has no private key or pub is infinity
//!                            (`EC_KEY_check_fips` on the peer key); else writes min(48, outlen) bytes of conv::ecdh and
//!                            returns that count.
//! OPENSSL_free (mem.c): frees a buffer returned by ECDSA_SIG_to_bytes (header prefix like OPENSSL_malloc; fixed 104-byte capacity,
//!                            see ossl_malloc).
#![allow(non_camel_case_types, non_snake_case, non_upper_case_globals, clippy::missing_safety_doc, static_mut_refs)]

pub mod conv;

use core::ffi::{c_int, c_uint, c_void};
use core::ptr::{null, null_mut};
use std::alloc::{alloc, dealloc, Layout};

pub const BN_CAP: usize = 66;
pub const DER_CAP: usize = 104;

#[repr(C)]
#[derive(Clone, Copy)]
pub struct bignum_st {
    len: usize,         // minimal length of the magnitude
    mag: [u8; BN_CAP],  // right-aligned big-endian magnitude, zero-filled on the left
}
pub type BIGNUM = bignum_st;
#[repr(C)]
pub struct bignum_ctx {
    _never: u8,
}
pub type BN_CTX = bignum_ctx;
#[repr(C)]
pub struct ec_group_st {
    nid: c_int,
}
pub type EC_GROUP = ec_group_st;
#[repr(C)]
#[derive(Clone, Copy)]
pub struct ec_point_st {
    inf: bool,
    enc: [u8; 49],
}
pub type EC_POINT = ec_point_st;
#[repr(C)]
pub struct ec_key_st {
    has_group: bool,
    pub_key: *mut EC_POINT,
    priv_key: *mut BIGNUM,
}
pub type EC_KEY = ec_key_st;
#[repr(C)]
pub struct ecdsa_sig_st {
    r: *mut BIGNUM,
    s: *mut BIGNUM,
}
pub type ECDSA_SIG = ecdsa_sig_st;

#[repr(u32)]
#[derive(Debug, Copy, Clone, Hash, PartialEq, Eq)]
pub enum point_conversion_form_t {
    POINT_CONVERSION_COMPRESSED = 2,
    POINT_CONVERSION_UNCOMPRESSED = 4,
    POINT_CONVERSION_HYBRID = 6,
}

// ------------------------------------------------------------------------------------------------ ghost state
pub mod model {
    use super::*;
    // KANI 0.68 PITFALL (found the hard way): a `static mut` whose initialiser has the same bytes as some constant of the program
    // (e.g. `false` and the constant `Ok(())` of a `Result<(), ZST>`, both the single byte 00) can be chosen by Kani's codegen as
    // the backing memory of that constant — writing the static then silently changes the constant (observed: after
    // `SCALARS_PROMISED = true`, `Ok(())` in models/aws-lc-rs read back as `Err`). Every mutable static of this model therefore
    // starts from a distinctive 8-byte magic value that no constant of the program has.
    const LIVE_BASE: isize = 0x5eed_11fe_c0de_0000;
    const FLAG_OFF: u64 = 0xa110_cf1a_9000_0000;
    pub(crate) static mut LIVE: isize = LIVE_BASE;
    pub(crate) static mut ALLOC_MAY_FAIL: u64 = FLAG_OFF + 0x10;
    pub(crate) static mut SCALARS_PROMISED: u64 = FLAG_OFF + 0x20;
    pub(crate) static mut POINTS_PROMISED: u64 = FLAG_OFF + 0x30;
    fn flag(v: u64) -> bool {
        v & 1 == 1
    }
    fn set(v: &mut u64, b: bool) {
        *v = (*v & !1) | b as u64;
    }
    pub(crate) fn scalars_promised() -> bool {
        unsafe { flag(SCALARS_PROMISED) }
    }
    pub(crate) fn points_promised() -> bool {
        unsafe { flag(POINTS_PROMISED) }
    }

    /// Number of live aws-lc objects (BIGNUM, EC_POINT, EC_KEY, ECDSA_SIG, OPENSSL buffers) allocated through the model.
    pub fn live() -> isize {
        unsafe { LIVE - LIVE_BASE }
    }
    /// Harness promise: every scalar that reaches EC_POINT_mul / EC_KEY_set_private_key is in 1..n-1 (the harness assumed it for
    /// the bytes it decodes / draws). Both functions then ASSUME the range instead of branching on it, so that a key built through the
    /// repository's fallible constructor is a concretely-Ok value with a concrete pointer (README rule 3: no symbolic Ok/Err merge in
    /// front of the code under test). Harnesses that decide which scalars are accepted (`*_codec_*`, `*_random_h`,
    /// `seal_out_of_range_draw_h`) do not give the promise.
    pub fn promise_scalars_in_range(b: bool) {
        unsafe { set(&mut SCALARS_PROMISED, b) }
    }
    /// Harness promise: every 49-byte string that reaches EC_POINT_oct2point is the compressed encoding of a point on the curve
    /// (an honestly generated public key). EC_POINT_oct2point then ASSUMES tag and validity instead of branching on them (same
    /// purpose as `promise_scalars_in_range`). Not given by the harnesses that decide which encodings are accepted or that tamper
    /// with key bytes.
    pub fn promise_points_valid(b: bool) {
        unsafe { set(&mut POINTS_PROMISED, b) }
    }
    #[cfg(kani)]
    pub(crate) fn assume(c: bool) {
        kani::assume(c)
    }
    #[cfg(not(kani))]
    pub(crate) fn assume(_c: bool) {}
    /// Harness switch: may allocations fail (nondeterministically, independently at every allocation)?
    pub fn alloc_may_fail(b: bool) {
        unsafe { set(&mut ALLOC_MAY_FAIL, b) }
    }
    #[cfg(kani)]
    pub(crate) fn nondet_bool() -> bool {
        kani::any()
    }
    #[cfg(not(kani))]
    pub(crate) fn nondet_bool() -> bool {
        panic!("aws-lc-sys model: no native implementation")
    }
    #[cfg(kani)]
    pub(crate) fn nondet<const N: usize>() -> [u8; N] {
        kani::any()
    }
    #[cfg(not(kani))]
    pub(crate) fn nondet<const N: usize>() -> [u8; N] {
        panic!("aws-lc-sys model: no native implementation")
    }
    pub(crate) fn alloc_fails() -> bool {
        unsafe { flag(ALLOC_MAY_FAIL) && nondet_bool() }
    }

    /// Ghost view of a BIGNUM: (minimal length, value left-padded to 48 bytes if it fits).
    pub unsafe fn bn_len(bn: *const BIGNUM) -> usize {
        (*bn).len
    }
    pub unsafe fn bn_pad48(bn: *const BIGNUM) -> [u8; 48] {
        let b = *bn;
        assert!(b.len <= 48, "[model] capacity: bn_pad48 of a value longer than 48 bytes");
        low48(&b)
    }
    /// Ghost view of an EC_POINT: None = infinity.
    pub unsafe fn point(p: *const EC_POINT) -> Option<[u8; 49]> {
        if (*p).inf {
            None
        } else {
            Some((*p).enc)
        }
    }
}
use model::{alloc_fails, LIVE};

fn low48(b: &BIGNUM) -> [u8; 48] {
    let mut o = [0u8; 48];
    let mut i = 0;
    while i < 48 {
        o[i] = b.mag[BN_CAP - 48 + i];
        i += 1;
    }
    o
}

unsafe fn new_obj<T>(v: T) -> *mut T {
    if alloc_fails() {
        return null_mut();
    }
    LIVE += 1;
    Box::into_raw(Box::new(v))
}
unsafe fn free_obj<T>(p: *mut T) {
    if !p.is_null() {
        drop(Box::from_raw(p));
        LIVE -= 1;
    }
}

// ------------------------------------------------------------------------------------------------ BIGNUM
fn bn_normalised(mag: [u8; BN_CAP]) -> BIGNUM {
    let mut len = 0;
    let mut i = 0;
    while i < BN_CAP {
        if len == 0 && mag[i] != 0 {
            len = BN_CAP - i;
        }
        i += 1;
    }
    BIGNUM { len, mag }
}
fn bn_from_slice(b: &[u8]) -> BIGNUM {
    assert!(b.len() <= BN_CAP, "[model] capacity: BIGNUM longer than 66 bytes");
    let mut mag = [0u8; BN_CAP];
    let n = b.len();
    let mut i = 0;
    while i < n {
        mag[BN_CAP - n + i] = b[i];
        i += 1;
    }
    bn_normalised(mag)
}

pub unsafe fn BN_bin2bn(in_: *const u8, len: usize, ret: *mut BIGNUM) -> *mut BIGNUM {
    assert!(len <= BN_CAP, "[model] capacity: BN_bin2bn input longer than 66 bytes");
    let mut mag = [0u8; BN_CAP];
    let mut i = 0;
    while i < BN_CAP {
        if i < len {
            mag[BN_CAP - len + i] = *in_.add(i);
        }
        i += 1;
    }
    let v = bn_normalised(mag);
    if ret.is_null() {
        new_obj(v)
    } else {
        *ret = v;
        ret
    }
}
pub unsafe fn BN_num_bytes(bn: *const BIGNUM) -> c_uint {
    (*bn).len as c_uint
}
pub unsafe fn BN_bn2bin(in_: *const BIGNUM, out: *mut u8) -> usize {
    // the magnitude is right-aligned: byte j of `mag` (j >= 66 - l) goes to out[j - (66 - l)]  (source index concrete)
    let b = *in_; // one read of the object, then only local accesses
    let l = b.len;
    let skip = BN_CAP - l;
    let mut j = 0;
    while j < BN_CAP {
        if j >= skip {
            *out.add(j - skip) = b.mag[j];
        }
        j += 1;
    }
    l
}
/// aws-lc bn/bytes.c `BN_bn2bin_padded(out, len, in)`: writes |in| as exactly `len` big-endian bytes, left-padded with zeros;
/// returns 1, or 0 (nothing guaranteed about `out`) when the value needs more than `len` bytes.
pub unsafe fn BN_bn2bin_padded(out: *mut u8, len: usize, in_: *const BIGNUM) -> c_int {
    assert!(len <= BN_CAP, "[model] capacity: BN_bn2bin_padded to more than 66 bytes");
    let b = *in_;
    let l = b.len;
    if l > len {
        return 0;
    }
    // out[i] for i in 0..len: zero for the first len - l bytes, then the magnitude (right-aligned in `mag`)
    let mut j = 0;
    while j < BN_CAP {
        // magnitude byte j (j >= BN_CAP - l) goes to out[len - (BN_CAP - j)]
        if j >= BN_CAP - l {
            *out.add(len - (BN_CAP - j)) = b.mag[j];
        } else if BN_CAP - j <= len {
            *out.add(len - (BN_CAP - j)) = 0;
        }
        j += 1;
    }
    1
}
pub unsafe fn BN_free(bn: *mut BIGNUM) {
    free_obj(bn)
}

// ------------------------------------------------------------------------------------------------ EC_GROUP / EC_POINT
static P384: EC_GROUP = EC_GROUP { nid: 715 };

pub unsafe fn EC_group_p384() -> *const EC_GROUP {
    &P384
}
pub unsafe fn EC_GROUP_free(_group: *mut EC_GROUP) {
    // static groups are not reference counted: no-op (ec.c: EC_GROUP_free returns early for built-in groups)
}
pub unsafe fn EC_POINT_new(group: *const EC_GROUP) -> *mut EC_POINT {
    if group.is_null() {
        return null_mut();
    }
    new_obj(EC_POINT { inf: true, enc: [0; 49] })
}
pub unsafe fn EC_POINT_free(point: *mut EC_POINT) {
    free_obj(point)
}

/// aws-lc ec.c `EC_POINT_is_at_infinity(group, point)`: 1 iff the point is the point at infinity, else 0.
pub unsafe fn EC_POINT_is_at_infinity(_group: *const EC_GROUP, point: *const EC_POINT) -> c_int {
    (*point).inf as c_int
}

pub unsafe fn EC_POINT_oct2point(_group: *const EC_GROUP, point: *mut EC_POINT, buf: *const u8, len: usize, _ctx: *mut BN_CTX) -> c_int {
    if len == 0 {
        return 0;
    }
    let form = *buf;
    if len == 1 {
        if form == 0 {
            (*point).inf = true;
            return 1;
        }
        return 0;
    }
    if len == 49 {
        let mut c = [0u8; 49];
        let mut i = 0;
        while i < 49 {
            c[i] = *buf.add(i);
            i += 1;
        }
        let valid = conv::x_valid(&c[1..]);
        let ok = (form == 2 || form == 3) && valid;
        if model::points_promised() {
            model::assume(ok);
        } else if !ok {
            return 0;
        }
        *point = EC_POINT { inf: false, enc: c };
        return 1;
    }
    if len == 97 {
        let mut c = [0u8; 49];
        let mut y = [0u8; 48];
        let mut i = 0;
        while i < 48 {
            c[1 + i] = *buf.add(1 + i);
            y[i] = *buf.add(49 + i);
            i += 1;
        }
        c[0] = 2 | (y[47] & 1);
        let valid = conv::x_valid(&c[1..]);
        let yy = conv::decompress_y(&c);
        let mut same = true;
        let mut i = 0;
        while i < 48 {
            same &= yy[i] == y[i];
            i += 1;
        }
        let form_ok = form == 4 || ((form == 6 || form == 7) && (form & 1) == (y[47] & 1));
        if form_ok && valid && same {
            (*point).inf = false;
            (*point).enc = c;
            return 1;
        }
        return 0;
    }
    0
}

pub unsafe fn EC_POINT_point2oct(_group: *const EC_GROUP, point: *const EC_POINT, form: point_conversion_form_t, buf: *mut u8, len: usize, _ctx: *mut BN_CTX) -> usize {
    if (*point).inf {
        if !buf.is_null() {
            if len < 1 {
                return 0;
            }
            *buf = 0;
        }
        return 1;
    }
    let compressed = form == point_conversion_form_t::POINT_CONVERSION_COMPRESSED;
    let out_len = if compressed { 49 } else { 97 };
    if buf.is_null() {
        return out_len;
    }
    if len < out_len {
        return 0;
    }
    let c = (*point).enc;
    if compressed {
        let mut i = 0;
        while i < 49 {
            *buf.add(i) = c[i];
            i += 1;
        }
    } else {
        let y = conv::decompress_y(&c);
        *buf = (form as u32 as u8) + if form == point_conversion_form_t::POINT_CONVERSION_HYBRID { y[47] & 1 } else { 0 };
        let mut i = 0;
        while i < 48 {
            *buf.add(1 + i) = c[1 + i];
            *buf.add(49 + i) = y[i];
            i += 1;
        }
    }
    out_len
}

pub unsafe fn EC_POINT_mul(_group: *const EC_GROUP, r: *mut EC_POINT, n: *const BIGNUM, q: *const EC_POINT, m: *const BIGNUM, _ctx: *mut BN_CTX) -> c_int {
    if n.is_null() && m.is_null() {
        return 0;
    }
    if q.is_null() != m.is_null() {
        return 0;
    }
    assert!(q.is_null(), "[model] capacity: EC_POINT_mul with a point operand is not modelled");
    let nb = *n;
    let k = low48(&nb);
    // always exactly the same uf calls, whatever the scalar (keeps the memo table's size independent of symbolic data)
    let pk = conv::p384_pk(&k);
    *r = if model::scalars_promised() {
        // harness promise (see model::promise_scalars_in_range): the scalar is in 1..n-1 — no branch, a concretely affine point
        model::assume(nb.len != 0 && nb.len <= 48 && conv::scalar_in_range(&k));
        EC_POINT { inf: false, enc: pk }
    } else if nb.len == 0 {
        EC_POINT { inf: true, enc: [0; 49] }
    } else if nb.len <= 48 && conv::scalar_in_range(&k) {
        EC_POINT { inf: false, enc: pk }
    } else {
        // n >= order: aws-lc reduces mod the order first; the model does not compute the reduction
        let mut e: [u8; 49] = model::nondet();
        e[0] = 2 | (e[0] & 1);
        EC_POINT { inf: model::nondet_bool(), enc: e }
    };
    1
}

// ------------------------------------------------------------------------------------------------ EC_KEY
pub unsafe fn EC_KEY_new() -> *mut EC_KEY {
    new_obj(EC_KEY { has_group: false, pub_key: null_mut(), priv_key: null_mut() })
}
pub unsafe fn EC_KEY_free(key: *mut EC_KEY) {
    if key.is_null() {
        return;
    }
    free_obj((*key).pub_key);
    free_obj((*key).priv_key);
    free_obj(key)
}
pub unsafe fn EC_KEY_set_group(key: *mut EC_KEY, group: *const EC_GROUP) -> c_int {
    if group.is_null() {
        return 0;
    }
    (*key).has_group = true;
    1
}
pub unsafe fn EC_KEY_get0_private_key(key: *const EC_KEY) -> *const BIGNUM {
    (*key).priv_key
}
pub unsafe fn EC_KEY_get0_public_key(key: *const EC_KEY) -> *const EC_POINT {
    (*key).pub_key
}
pub unsafe fn EC_KEY_set_private_key(key: *mut EC_KEY, priv_: *const BIGNUM) -> c_int {
    if !(*key).has_group {
        return 0;
    }
    let pb = *priv_;
    let k = low48(&pb);
    let in_range = pb.len <= 48 && conv::scalar_in_range(&k);
    if model::scalars_promised() {
        model::assume(in_range);
    } else if !in_range {
        return 0; // EC_R_INVALID_PRIVATE_KEY: zero or >= order
    }
    let copy = new_obj(pb);
    if copy.is_null() {
        return 0;
    }
    free_obj((*key).priv_key);
    (*key).priv_key = copy;
    1
}
pub unsafe fn EC_KEY_set_public_key(key: *mut EC_KEY, pub_: *const EC_POINT) -> c_int {
    if !(*key).has_group {
        return 0;
    }
    free_obj((*key).pub_key);
    (*key).pub_key = if pub_.is_null() { null_mut() } else { new_obj(*pub_) };
    if (*key).pub_key.is_null() {
        0
    } else {
        1
    }
}

// ------------------------------------------------------------------------------------------------ DER-shaped signature bytes
// The repository never looks inside the bytes ECDSA_sign / ECDSA_SIG_to_bytes produce; it only carries (pointer, length) to
// ECDSA_SIG_from_bytes / ECDSA_verify. The model therefore keeps what the repository can observe of DER — the framing
// 30 L 02 l1 <int> 02 l2 <int>, the exact LENGTH of the true DER encoding (minimal integers, one 00 pad byte when the top bit is
// set or the value is zero: 8..=104 bytes for P-384), strictness of the parser (every byte string has at most one reading, and only
// what the encoder produces is accepted) — but stores the content bytes of each INTEGER least-significant byte first. With the
// true big-endian layout every byte of s would sit at a position depending on the lengths of BOTH integers and CBMC has to
// prove three compositions of two-dimensional barrel shifts to be the identity (18 M clauses, no result in 15 min); with this
// layout r is at fixed positions and s is shifted by the length of r only (measured: see NOTES.md).
fn der_put_int(buf: &mut [u8; DER_CAP], pos: usize, b: &BIGNUM) -> usize {
    let l = b.len;
    let pad = l == 0 || b.mag[BN_CAP - l] & 0x80 != 0;
    let dl = l + pad as usize;
    buf[pos] = 0x02;
    buf[pos + 1] = dl as u8;
    let p = pos + 2;
    let mut i = 0;
    while i < 49 {
        if i < dl {
            // content byte i (least significant first); the pad byte, if any, is the last one and is zero
            buf[p + i] = if i < l { b.mag[BN_CAP - 1 - i] } else { 0 };
        }
        i += 1;
    }
    p + dl
}
fn der_encode(r: &BIGNUM, s: &BIGNUM) -> ([u8; DER_CAP], usize) {
    assert!(r.len <= 48 && s.len <= 48, "[model] capacity: DER encoding of signature components longer than 48 bytes");
    let mut buf = [0u8; DER_CAP];
    buf[0] = 0x30;
    let p = der_put_int(&mut buf, 2, r);
    let p = der_put_int(&mut buf, p, s);
    buf[1] = (p - 2) as u8;
    (buf, p)
}
/// strict INTEGER at `pos` inside buf[..end]: returns (value, next position)
fn der_get_int(buf: &[u8; DER_CAP], pos: usize, end: usize) -> Option<(BIGNUM, usize)> {
    if pos + 2 > end || buf[pos] != 0x02 {
        return None;
    }
    let dl = buf[pos + 1] as usize;
    let p = pos + 2;
    if dl == 0 || dl > 49 || p + dl > end {
        return None; // an empty INTEGER is invalid; more than 49 content bytes is outside P-384 (verify would reject it anyway)
    }
    let top = buf[p + dl - 1];
    if top & 0x80 != 0 {
        return None; // negative
    }
    if dl > 1 && top == 0 && buf[p + dl - 2] & 0x80 == 0 {
        return None; // non-minimal
    }
    let mut mag = [0u8; BN_CAP];
    let mut i = 0;
    while i < 49 {
        if i < dl {
            mag[BN_CAP - 1 - i] = buf[p + i];
        }
        i += 1;
    }
    // minimal encoding => the magnitude length is dl, minus the pad byte if there is one (zero is the single byte 00)
    let len = if top == 0 { dl - 1 } else { dl };
    Some((BIGNUM { len, mag }, p + dl))
}
unsafe fn der_decode(in_: *const u8, in_len: usize) -> Option<(BIGNUM, BIGNUM)> {
    assert!(in_len <= DER_CAP, "[model] capacity: DER signature longer than 104 bytes");
    let mut buf = [0u8; DER_CAP];
    let mut i = 0;
    while i < DER_CAP {
        if i < in_len {
            buf[i] = *in_.add(i);
        }
        i += 1;
    }
    if in_len < 2 || buf[0] != 0x30 || buf[1] >= 0x80 || buf[1] as usize + 2 != in_len {
        return None;
    }
    let (r, p) = der_get_int(&buf, 2, in_len)?;
    let (s, p) = der_get_int(&buf, p, in_len)?;
    if p != in_len {
        return None;
    }
    Some((r, s))
}

// OPENSSL_malloc keeps the size in a prefix so that OPENSSL_free needs only the pointer (mem.c: OPENSSL_MALLOC_PREFIX).
// The model's only OPENSSL_malloc client is ECDSA_SIG_to_bytes (n = 8..=104). The allocation has the FIXED size PREFIX + 104
// (an object of symbolic size makes every bounds check of every possibly-aliasing pointer symbolic: measured 2x formula size);
// bytes n..104 are never written (arbitrary), so a caller reading more than the n bytes it was told about gets arbitrary bytes
// that do not parse — detected by the functional obligations instead of as an out-of-bounds read. Reads beyond 104 and any use
// after OPENSSL_free are still pointer-check failures.
const PREFIX: usize = 8;
unsafe fn ossl_malloc(n: usize) -> *mut u8 {
    assert!(n <= DER_CAP, "[model] capacity: OPENSSL_malloc larger than 104 bytes");
    if alloc_fails() {
        return null_mut();
    }
    let base = alloc(Layout::from_size_align_unchecked(PREFIX + DER_CAP, 8));
    if base.is_null() {
        return null_mut();
    }
    *(base as *mut usize) = n;
    LIVE += 1;
    base.add(PREFIX)
}
pub unsafe fn OPENSSL_free(ptr: *mut c_void) {
    if ptr.is_null() {
        return;
    }
    let base = (ptr as *mut u8).sub(PREFIX);
    dealloc(base, Layout::from_size_align_unchecked(PREFIX + DER_CAP, 8));
    LIVE -= 1;
}

// ------------------------------------------------------------------------------------------------ ECDSA
unsafe fn sig_new(r: BIGNUM, s: BIGNUM) -> *mut ECDSA_SIG {
    let rp = new_obj(r);
    let sp = new_obj(s);
    let sig = new_obj(ECDSA_SIG { r: rp, s: sp });
    if rp.is_null() || sp.is_null() || sig.is_null() {
        free_obj(rp);
        free_obj(sp);
        free_obj(sig);
        return null_mut();
    }
    sig
}
const ZERO: BIGNUM = BIGNUM { len: 0, mag: [0; BN_CAP] };

pub unsafe fn ECDSA_SIG_new() -> *mut ECDSA_SIG {
    sig_new(ZERO, ZERO)
}
pub unsafe fn ECDSA_SIG_free(sig: *mut ECDSA_SIG) {
    if sig.is_null() {
        return;
    }
    free_obj((*sig).r);
    free_obj((*sig).s);
    free_obj(sig)
}
pub unsafe fn ECDSA_SIG_get0(sig: *const ECDSA_SIG, out_r: *mut *const BIGNUM, out_s: *mut *const BIGNUM) {
    if !out_r.is_null() {
        *out_r = (*sig).r;
    }
    if !out_s.is_null() {
        *out_s = (*sig).s;
    }
}
pub unsafe fn ECDSA_SIG_set0(sig: *mut ECDSA_SIG, r: *mut BIGNUM, s: *mut BIGNUM) -> c_int {
    if r.is_null() || s.is_null() {
        return 0;
    }
    free_obj((*sig).r);
    free_obj((*sig).s);
    (*sig).r = r;
    (*sig).s = s;
    1
}
pub unsafe fn ECDSA_SIG_from_bytes(in_: *const u8, in_len: usize) -> *mut ECDSA_SIG {
    match der_decode(in_, in_len) {
        Some((r, s)) => sig_new(r, s),
        None => null_mut(),
    }
}
pub unsafe fn ECDSA_SIG_to_bytes(out_bytes: *mut *mut u8, out_len: *mut usize, sig: *const ECDSA_SIG) -> c_int {
    let (rb, sb) = (*(*sig).r, *(*sig).s);
    let (der, n) = der_encode(&rb, &sb);
    let p = ossl_malloc(n);
    if p.is_null() {
        return 0;
    }
    let mut i = 0;
    while i < DER_CAP {
        if i < n {
            *p.add(i) = der[i];
        }
        i += 1;
    }
    *out_bytes = p;
    *out_len = n;
    1
}
pub unsafe fn ECDSA_size(key: *const EC_KEY) -> usize {
    if key.is_null() || !(*key).has_group {
        return 0;
    }
    DER_CAP
}
unsafe fn read_digest(digest: *const u8, digest_len: usize) -> ([u8; 64], usize) {
    assert!(digest_len <= 64, "[model] capacity: digest longer than 64 bytes");
    let mut d = [0u8; 64];
    let mut i = 0;
    while i < digest_len {
        d[i] = *digest.add(i);
        i += 1;
    }
    (d, digest_len)
}
pub unsafe fn ECDSA_sign(_type: c_int, digest: *const u8, digest_len: usize, sig: *mut u8, sig_len: *mut c_uint, key: *const EC_KEY) -> c_int {
    // the model calls are made on every path (a key without private half "signs" with the zero scalar and the result is
    // discarded): the number of memo-table entries must not depend on symbolic data
    let (d, dl) = read_digest(digest, digest_len);
    let usable = (*key).has_group && !(*key).priv_key.is_null();
    let pb = if usable { *(*key).priv_key } else { ZERO };
    let scalar = low48(&pb);
    let pk = conv::p384_pk(&scalar);
    let nonce: [u8; 15] = model::nondet();
    let (r, s) = conv::ecdsa_sign(&pk, &nonce, &d[..dl]);
    if !usable || alloc_fails() {
        *sig_len = 0;
        return 0;
    }
    let (der, n) = der_encode(&bn_from_slice(&r), &bn_from_slice(&s));
    let mut i = 0;
    while i < DER_CAP {
        if i < n {
            *sig.add(i) = der[i];
        }
        i += 1;
    }
    *sig_len = n as c_uint;
    1
}
pub unsafe fn ECDSA_verify(_type: c_int, digest: *const u8, digest_len: usize, sig: *const u8, sig_len: usize, key: *const EC_KEY) -> c_int {
    let (d, dl) = read_digest(digest, digest_len);
    let (r, s) = match der_decode(sig, sig_len) {
        Some(v) => v,
        None => return 0,
    };
    if alloc_fails() {
        return 0; // ECDSA_SIG_from_bytes / ECDSA_SIG_to_bytes inside ECDSA_verify allocate
    }
    if !(*key).has_group || (*key).pub_key.is_null() {
        return 0;
    }
    let (r48, s48) = (low48(&r), low48(&s));
    if r.len > 48 || s.len > 48 || !conv::scalar_in_range(&r48) || !conv::scalar_in_range(&s48) {
        return 0;
    }
    let p = *(*key).pub_key;
    if p.inf {
        return model::nondet_bool() as c_int;
    }
    conv::ecdsa_verify(&p.enc, &d[..dl], &r48, &s48) as c_int
}

// ------------------------------------------------------------------------------------------------ ECDH
pub unsafe fn ECDH_compute_key(
    out: *mut c_void,
    outlen: usize,
    pub_key: *const EC_POINT,
    priv_key: *const EC_KEY,
    kdf: Option<unsafe extern "C" fn(in_: *const c_void, inlen: usize, out: *mut c_void, outlen: *mut usize) -> *mut c_void>,
) -> c_int {
    assert!(kdf.is_none(), "[model] capacity: ECDH_compute_key with a KDF callback is not modelled");
    let usable = !(*priv_key).priv_key.is_null();
    let pb = if usable { *(*priv_key).priv_key } else { ZERO };
    let scalar = low48(&pb);
    let own = conv::p384_pk(&scalar);
    let peer = *pub_key;
    let xk = conv::ecdh(&own[1..], &peer.enc[1..]);
    if !usable || alloc_fails() {
        return -1;
    }
    if peer.inf {
        return -1; // EC_KEY_check_fips(peer) rejects the point at infinity
    }
    let n = if outlen < 48 { outlen } else { 48 };
    let o = out as *mut u8;
    let mut i = 0;
    while i < n {
        *o.add(i) = xk[i];
        i += 1;
    }
    n as c_int
}

#[allow(dead_code)]
fn _unused() -> *const u8 {
    null()
}
