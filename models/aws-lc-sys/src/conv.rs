//! The uninterpreted-function conventions for P-384, in ONE place. They are, by agreement, exactly those of
//! `models/p384` and `vspec::v3` (the RustCrypto sibling and the specification transcription), so that both v3 backends
//! are checked against the same ideal functions:
//!
//!  * public key   pk(49, compressed SEC1) = uf(P384_PK, ideal, key = scalar(48 BE), msg = [])      tag byte in {02, 03};
//!                 every derived key is a valid point: x_valid(pk[1..]) is assumed at derivation.
//!  * x validity   x_valid(x) = bit 0 of uf(P384_VALID, non-ideal, key = x(48), msg = [], out 1)   ("x < p and x^3+ax+b is a
//!                 square": depends on x only, so 02‖x and 03‖x are both valid or both invalid).
//!  * decompress   Y(c) = uf(P384_DECOMPRESS, non-ideal, key = c(49), msg = [], out 48), with parity(Y) == c[0] & 1.
//!  * ECDSA        r = uf(P384_SIG, ideal, key = pk(49) ‖ signer-private bytes, msg = digest ‖ [0], out 48), 0 < r < n
//!                 s = uf(P384_SIG, ideal, key = pk(49) ‖ signer-private bytes, msg = digest ‖ [1], out 48), 0 < s < n
//!                 aws-lc signs with a fresh random nonce k: the signer-private bytes are 15 fresh arbitrary bytes per call.
//!                 s is ANY value in 1..n-1, low or high: aws-lc does not normalise s (and neither does the specification).
//!                 IDEAL SIGNATURE WITH MALLEABILITY: verify(pk, digest, r‖s) iff r was produced by the signing function for
//!                 exactly (pk, digest) and s OR n - s was produced for it (`was_output_of_kp` on the 49-byte key prefix): the
//!                 twin (r, n - s) of a signature verifies too, as for real ECDSA. Same rule in models/p384 and vspec::v3.
//!  * ECDH         xk(48) = uf(P384_DH, non-ideal, key = [], msg = min(xA, xB) ‖ max(xA, xB)) where xA, xB are the 48-byte
//!                 X coordinates of the two public points (lexicographic order => commutative; sign of y irrelevant).
//!  * scalar range exact big-endian comparison with the group order n (no abstraction).
use vmodel_core::{alg, uf, was_output_of_kp};

/// The order n of the P-384 base point, big-endian (FIPS 186-4 D.1.2.4).
pub const ORDER: [u8; 48] = [
    0xff, 0xff, 0xff, 0xff, 0xff, 0xff, 0xff, 0xff, 0xff, 0xff, 0xff, 0xff, 0xff, 0xff, 0xff, 0xff, 0xff, 0xff, 0xff, 0xff, 0xff, 0xff, 0xff, 0xff,
    0xc7, 0x63, 0x4d, 0x81, 0xf4, 0x37, 0x2d, 0xdf, 0x58, 0x1a, 0x0d, 0xb2, 0x48, 0xb0, 0xa7, 0x7a, 0xec, 0xec, 0x19, 0x6a, 0xcc, 0xc5, 0x29, 0x73,
];

#[cfg(kani)]
fn assume(c: bool) {
    kani::assume(c)
}
#[cfg(not(kani))]
fn assume(_c: bool) {}

/// 0 < k < n for a 48-byte big-endian k.
pub fn scalar_in_range(k: &[u8; 48]) -> bool {
    let mut nonzero = false;
    let mut lt = false;
    let mut decided = false;
    let mut i = 0;
    while i < 48 {
        nonzero |= k[i] != 0;
        if !decided && k[i] != ORDER[i] {
            decided = true;
            lt = k[i] < ORDER[i];
        }
        i += 1;
    }
    nonzero && lt
}

pub fn x_valid(x: &[u8]) -> bool {
    let mut o = [0u8; 1];
    uf(alg::P384_VALID, false, x, &[], &mut o);
    o[0] & 1 == 1
}

/// pk = scalar * G (2 uf calls, always: the number of table entries must not depend on symbolic data).
pub fn p384_pk(scalar: &[u8; 48]) -> [u8; 49] {
    let mut pk = [0u8; 49];
    uf(alg::P384_PK, true, scalar, &[], &mut pk);
    assume(pk[0] == 2 || pk[0] == 3);
    let v = x_valid(&pk[1..]);
    assume(v);
    pk
}

pub fn decompress_y(c: &[u8; 49]) -> [u8; 48] {
    let mut y = [0u8; 48];
    uf(alg::P384_DECOMPRESS, false, c, &[], &mut y);
    assume(y[47] & 1 == c[0] & 1);
    y
}

fn sig_msg(digest: &[u8], which: u8) -> ([u8; 49], usize) {
    // aws-lc (digest_to_scalar) uses the leftmost 384 bits of the digest
    let dl = if digest.len() > 48 { 48 } else { digest.len() };
    let mut m = [0u8; 49];
    let mut i = 0;
    while i < dl {
        m[i] = digest[i];
        i += 1;
    }
    m[dl] = which;
    (m, dl + 1)
}

/// One ECDSA signature: any (r, s) in [1, n-1]^2 — including values whose big-endian form has leading zero bytes.
pub fn ecdsa_sign(pk: &[u8; 49], private: &[u8; 15], digest: &[u8]) -> ([u8; 48], [u8; 48]) {
    let mut key = [0u8; 64];
    key[..49].copy_from_slice(pk);
    key[49..].copy_from_slice(private);
    let (m0, l0) = sig_msg(digest, 0);
    let (m1, l1) = sig_msg(digest, 1);
    let mut r = [0u8; 48];
    uf(alg::P384_SIG, true, &key, &m0[..l0], &mut r);
    assume(scalar_in_range(&r));
    let mut s = [0u8; 48];
    uf(alg::P384_SIG, true, &key, &m1[..l1], &mut s);
    assume(scalar_in_range(&s));
    (r, s)
}

/// n - v, 48-byte big-endian, for 0 < v < n. Branch-free ripple-borrow subtraction, constant bound.
pub fn neg_mod_n(v: &[u8; 48]) -> [u8; 48] {
    let mut o = [0u8; 48];
    let mut borrow: u16 = 0;
    let mut i = 48;
    while i > 0 {
        i -= 1;
        let t = 256 + ORDER[i] as u16 - v[i] as u16 - borrow; // 0 ..= 511
        o[i] = (t & 0xff) as u8;
        borrow = 1 - (t >> 8);
    }
    o
}

/// r, s are in 1..n-1 (checked by the caller). No `uf` call: table look-ups only.
pub fn ecdsa_verify(pk: &[u8; 49], digest: &[u8], r: &[u8; 48], s: &[u8; 48]) -> bool {
    let (m0, l0) = sig_msg(digest, 0);
    let (m1, l1) = sig_msg(digest, 1);
    was_output_of_kp(alg::P384_SIG, pk, &m0[..l0], r)
        & (was_output_of_kp(alg::P384_SIG, pk, &m1[..l1], s) | was_output_of_kp(alg::P384_SIG, pk, &m1[..l1], &neg_mod_n(s)))
}

pub fn ecdh(xa: &[u8], xb: &[u8]) -> [u8; 48] {
    // lexicographic min ‖ max of the two 48-byte X coordinates
    let mut a_first = true;
    let mut decided = false;
    let mut i = 0;
    while i < 48 {
        if !decided && xa[i] != xb[i] {
            decided = true;
            a_first = xa[i] < xb[i];
        }
        i += 1;
    }
    let mut m = [0u8; 96];
    let mut i = 0;
    while i < 48 {
        m[i] = if a_first { xa[i] } else { xb[i] };
        m[48 + i] = if a_first { xb[i] } else { xa[i] };
        i += 1;
    }
    let mut o = [0u8; 48];
    uf(alg::P384_DH, false, &[], &m, &mut o);
    o
}
