//! MODEL of `ctr` 0.9.2 — assumed contract: `CtrXX::<C>::new(key, iv)` then `apply_keystream(buf)` XORs `buf` with
//! keystream[pos .. pos+|buf|] and advances pos, where keystream block j = C.encrypt_block(counter_block(iv, j)) and
//!   * Ctr128BE: counter_block(iv, j) = be128( be128(iv) + j  mod 2^128 )            (the whole block is the counter)
//!   * Ctr64BE : counter_block(iv, j) = iv[0..8] ‖ be64( be64(iv[8..16]) + j  mod 2^64 )   (only the LOW 64 bits count;
//!               a carry out of them is dropped, the high 8 bytes never change)
//!   * Ctr32BE : counter_block(iv, j) = iv[0..12] ‖ be32( be32(iv[12..16]) + j mod 2^32 )
//! exactly as ctr-0.9.2/src/flavors/{ctr128,ctr64,ctr32}.rs compute them (`cn.ctr.wrapping_add(cn.nonce[last])`).
//! This part is NOT uninterpreted: the counter arithmetic is the real one, only the block function C is a model (crate `aes`).
//! `apply_keystream` never fails for the positions modelled (the real crates' counters overflow only after 2^64 blocks).
//! Modelled keystream positions: 0 .. 16*KS_BLOCKS; beyond that "[model] capacity".
#![no_std]
pub use cipher;
use cipher::consts::U16;
use cipher::{Block, BlockEncrypt, BlockSizeUser, Iv, IvSizeUser, Key, KeyInit, KeyIvInit, KeySizeUser, StreamCipher, StreamCipherError};
use core::marker::PhantomData;

pub const KS_BLOCKS: usize = 4;

pub trait Flavor {
    fn counter_block(iv: &[u8; 16], j: u64) -> [u8; 16];
}
pub mod flavors {
    pub enum Ctr128BE {}
    pub enum Ctr64BE {}
    pub enum Ctr32BE {}
}
impl Flavor for flavors::Ctr128BE {
    fn counter_block(iv: &[u8; 16], j: u64) -> [u8; 16] {
        u128::from_be_bytes(*iv).wrapping_add(j as u128).to_be_bytes()
    }
}
impl Flavor for flavors::Ctr64BE {
    fn counter_block(iv: &[u8; 16], j: u64) -> [u8; 16] {
        let mut lo = [0u8; 8];
        lo.copy_from_slice(&iv[8..]);
        let mut b = *iv;
        b[8..].copy_from_slice(&u64::from_be_bytes(lo).wrapping_add(j).to_be_bytes());
        b
    }
}
impl Flavor for flavors::Ctr32BE {
    fn counter_block(iv: &[u8; 16], j: u64) -> [u8; 16] {
        let mut lo = [0u8; 4];
        lo.copy_from_slice(&iv[12..]);
        let mut b = *iv;
        b[12..].copy_from_slice(&u32::from_be_bytes(lo).wrapping_add(j as u32).to_be_bytes());
        b
    }
}

pub struct Ctr<C, F> {
    cipher: C,
    iv: [u8; 16],
    pos: usize,
    have: [bool; KS_BLOCKS],
    ks: [[u8; 16]; KS_BLOCKS],
    _f: PhantomData<F>,
}
pub type Ctr128BE<C> = Ctr<C, flavors::Ctr128BE>;
pub type Ctr64BE<C> = Ctr<C, flavors::Ctr64BE>;
pub type Ctr32BE<C> = Ctr<C, flavors::Ctr32BE>;

impl<C: KeySizeUser, F> KeySizeUser for Ctr<C, F> {
    type KeySize = C::KeySize;
}
impl<C, F> IvSizeUser for Ctr<C, F> {
    type IvSize = U16;
}
impl<C: KeyInit + BlockEncrypt + BlockSizeUser<BlockSize = U16>, F: Flavor> KeyIvInit for Ctr<C, F> {
    fn new(key: &Key<Self>, iv: &Iv<Self>) -> Self {
        let mut n = [0u8; 16];
        n.copy_from_slice(iv);
        Ctr { cipher: C::new(key), iv: n, pos: 0, have: [false; KS_BLOCKS], ks: [[0; 16]; KS_BLOCKS], _f: PhantomData }
    }
}
impl<C: BlockEncrypt + BlockSizeUser<BlockSize = U16>, F: Flavor> Ctr<C, F> {
    fn byte(&mut self, p: usize) -> u8 {
        let j = p / 16;
        assert!(j < KS_BLOCKS, "[model] capacity: keystream position beyond the modelled blocks");
        if !self.have[j] {
            let cb = F::counter_block(&self.iv, j as u64);
            let mut o = Block::<C>::default();
            self.cipher.encrypt_block_b2b(Block::<C>::from_slice(&cb), &mut o);
            self.ks[j].copy_from_slice(&o);
            self.have[j] = true;
        }
        self.ks[j][p % 16]
    }
}
impl<C: BlockEncrypt + BlockSizeUser<BlockSize = U16>, F: Flavor> StreamCipher for Ctr<C, F> {
    fn try_apply_keystream_inout(&mut self, mut buf: cipher::inout::InOutBuf<'_, '_, u8>) -> Result<(), StreamCipherError> {
        let n = buf.len();
        let mut i = 0;
        while i < n {
            let k = self.byte(self.pos + i);
            let v = buf.get_in()[i] ^ k;
            buf.get_out()[i] = v;
            i += 1;
        }
        self.pos += n;
        Ok(())
    }
}
