//! MODEL of `jiff` 0.2.15 — exactly the surface `paseto-json` uses (`jiff::Timestamp`), nothing else.
//!
//! ASSUMED CONTRACT of the real crate (this is what the verification of paseto-json's validators and serde glue rests on):
//!   * a `Timestamp` is an instant with nanosecond resolution inside jiff's documented range
//!     `Timestamp::MIN ..= Timestamp::MAX` = seconds `-377705023201 ..= 253402207200` since the Unix epoch
//!     (`UnixSeconds` in jiff/src/util/t.rs: years -9999..=9999 shrunk by the largest UTC offset, 93599 s), fractional
//!     nanoseconds `0 ..= 999_999_999` at the top end and `0` at the bottom end; i.e. the nanosecond count is in
//!     `-377705023201_000_000_000 ..= 253402207200_999_999_999`;
//!   * `PartialEq/Eq/PartialOrd/Ord` order timestamps chronologically (jiff derives them on `(second, nanosecond)`, both of
//!     the same sign, which is the order of the nanosecond count);
//!   * `Timestamp + core::time::Duration` / `Timestamp - core::time::Duration` are exact and PANIC when the exact result is
//!     outside the range (jiff/src/timestamp.rs `impl Add<UnsignedDuration>`: `self.checked_add(rhs).expect("adding unsigned
//!     duration to timestamp overflowed")`; `checked_add` fails when the duration does not fit a `SignedDuration`, when the
//!     96-bit sum overflows and when `Timestamp::from_duration` rejects the sum — all of which are "exact result out of
//!     range"); nothing saturates or wraps;
//!   * `Timestamp::now()` returns some timestamp of the range (under Kani: an arbitrary one);
//!   * `Serialize`/`Deserialize` are inverse to each other on the whole range and `Deserialize` yields nothing outside it.
//!     The real crate's serde form is an RFC 3339 string (`collect_str` / `deserialize_str` + `DEFAULT_DATETIME_PARSER`).
//!     That text layer is THIRD-PARTY AND ASSUMED: the model uses an OPAQUE form, one distinctive serde call
//!     (`serialize_i128(nanoseconds)` / `deserialize_i128`), so that a harness can recognise "the Timestamp's own serde form"
//!     without committing to any text.
//!
//! Model state: one `i128` nanosecond count with the range invariant (no niche-bearing fields, no loops, no allocation, no
//! error values with drop glue) plus one ghost static, the clock value a harness may fix. `model_from_nanos`, `model_nanos`,
//! `model_set_clock`, `model_duration_nanos` are for harnesses only.

/// Smallest / largest second of a `Timestamp` (documented range of jiff 0.2).
pub const MODEL_MIN_SECOND: i64 = -377705023201;
pub const MODEL_MAX_SECOND: i64 = 253402207200;
pub const MODEL_MIN_NANOS: i128 = MODEL_MIN_SECOND as i128 * 1_000_000_000;
pub const MODEL_MAX_NANOS: i128 = MODEL_MAX_SECOND as i128 * 1_000_000_000 + 999_999_999;

// ghost clock: distinctive "unset" value (outside the range, not a constant of any program)
const CLOCK_UNSET: i128 = -0x5eed_c10c_0000_0000_0000_0000_0000_0001;
static mut MODEL_CLOCK: i128 = CLOCK_UNSET;
/// harness helper: make `Timestamp::now()` return `t` from now on (so that a harness can name the clock value)
pub fn model_set_clock(t: Timestamp) {
    unsafe { MODEL_CLOCK = t.ns }
}

#[derive(Clone, Copy, Debug, Hash)]
pub struct Timestamp {
    ns: i128,
}

impl Timestamp {
    pub const MIN: Timestamp = Timestamp { ns: MODEL_MIN_NANOS };
    pub const MAX: Timestamp = Timestamp { ns: MODEL_MAX_NANOS };
    pub const UNIX_EPOCH: Timestamp = Timestamp { ns: 0 };

    /// harness helper: the timestamp with this nanosecond count, `None` outside jiff's range
    pub fn model_from_nanos(ns: i128) -> Option<Timestamp> {
        if MODEL_MIN_NANOS <= ns && ns <= MODEL_MAX_NANOS {
            Some(Timestamp { ns })
        } else {
            None
        }
    }

    /// harness helper: nanoseconds since the Unix epoch (what the real `as_nanosecond()` returns)
    pub fn model_nanos(&self) -> i128 {
        self.ns
    }

    pub fn as_nanosecond(self) -> i128 {
        self.ns
    }

    /// "some timestamp of the range": under Kani an arbitrary one, or the one a harness fixed with `model_set_clock`
    #[cfg(kani)]
    pub fn now() -> Timestamp {
        let fixed = unsafe { MODEL_CLOCK };
        if fixed != CLOCK_UNSET {
            return Timestamp { ns: fixed };
        }
        let ns: i128 = kani::any();
        kani::assume(MODEL_MIN_NANOS <= ns && ns <= MODEL_MAX_NANOS);
        Timestamp { ns }
    }

    #[cfg(not(kani))]
    pub fn now() -> Timestamp {
        let ns = match std::time::SystemTime::now().duration_since(std::time::UNIX_EPOCH) {
            Ok(d) => d.as_nanos() as i128,
            Err(e) => -(e.duration().as_nanos() as i128),
        };
        Timestamp::model_from_nanos(ns).expect("system time is valid")
    }
}

// One-entry memo of the last Duration -> nanoseconds conversion. Semantically invisible (a pure function is cached); it
// exists because CBMC otherwise builds one 128-bit multiplier per `+`/`-` and per harness oracle and the SAT solver then
// has to prove identical multipliers equivalent (measured: 105-500 s per query). With the memo every use of the same
// Duration shares ONE product. Distinctive initial key (never equal to a program constant).
static mut MEMO: (u64, u32, i128) = (0x5eed_0000_0000_0001, 0x7fff_fff1, 0);

/// harness helper: exact nanosecond count of a std Duration, `secs * 10^9 + subsec_nanos` (what the model's `+`/`-` use).
/// Checked against independent arithmetic by harness `oracle_duration_nanos_exact` of unit u5_validators.
pub fn model_duration_nanos(d: core::time::Duration) -> i128 {
    duration_nanos(d)
}

fn duration_nanos(d: core::time::Duration) -> i128 {
    let (s, n) = (d.as_secs(), d.subsec_nanos());
    unsafe {
        if MEMO.0 == s && MEMO.1 == n {
            return MEMO.2;
        }
        // u64::MAX * 10^9 + 999_999_999 < 2^94: exact in i128. `wrapping_mul` only to keep Kani from emitting an i128
        // multiplication-overflow check (a 256-bit multiplier for CBMC); it cannot wrap.
        let v = (s as i128).wrapping_mul(1_000_000_000) + n as i128;
        MEMO = (s, n, v);
        v
    }
}

impl PartialEq for Timestamp {
    #[inline]
    fn eq(&self, o: &Timestamp) -> bool {
        self.ns == o.ns
    }
}
impl Eq for Timestamp {}
impl PartialOrd for Timestamp {
    #[inline]
    fn partial_cmp(&self, o: &Timestamp) -> Option<core::cmp::Ordering> {
        Some(self.cmp(o))
    }
    #[inline]
    fn lt(&self, o: &Timestamp) -> bool {
        self.ns < o.ns
    }
    #[inline]
    fn le(&self, o: &Timestamp) -> bool {
        self.ns <= o.ns
    }
    #[inline]
    fn gt(&self, o: &Timestamp) -> bool {
        self.ns > o.ns
    }
    #[inline]
    fn ge(&self, o: &Timestamp) -> bool {
        self.ns >= o.ns
    }
}
impl Ord for Timestamp {
    #[inline]
    fn cmp(&self, o: &Timestamp) -> core::cmp::Ordering {
        if self.ns < o.ns {
            core::cmp::Ordering::Less
        } else if self.ns > o.ns {
            core::cmp::Ordering::Greater
        } else {
            core::cmp::Ordering::Equal
        }
    }
}

/// exact; panics (like the real crate) when the exact result is not a `Timestamp`
impl core::ops::Add<core::time::Duration> for Timestamp {
    type Output = Timestamp;
    #[inline]
    fn add(self, rhs: core::time::Duration) -> Timestamp {
        match Timestamp::model_from_nanos(self.ns + duration_nanos(rhs)) {
            Some(t) => t,
            None => panic!("[model] jiff contract boundary: adding unsigned duration to timestamp overflowed"),
        }
    }
}
impl core::ops::Sub<core::time::Duration> for Timestamp {
    type Output = Timestamp;
    #[inline]
    fn sub(self, rhs: core::time::Duration) -> Timestamp {
        match Timestamp::model_from_nanos(self.ns - duration_nanos(rhs)) {
            Some(t) => t,
            None => panic!("[model] jiff contract boundary: subtracting unsigned duration from timestamp overflowed"),
        }
    }
}
impl core::ops::AddAssign<core::time::Duration> for Timestamp {
    #[inline]
    fn add_assign(&mut self, rhs: core::time::Duration) {
        *self = *self + rhs
    }
}
impl core::ops::SubAssign<core::time::Duration> for Timestamp {
    #[inline]
    fn sub_assign(&mut self, rhs: core::time::Duration) {
        *self = *self - rhs
    }
}

/// OPAQUE serde form (see header): the one call `serialize_i128(nanoseconds)`.
impl serde_core::Serialize for Timestamp {
    #[inline]
    fn serialize<S: serde_core::Serializer>(&self, serializer: S) -> Result<S::Ok, S::Error> {
        serializer.serialize_i128(self.ns)
    }
}

impl<'de> serde_core::Deserialize<'de> for Timestamp {
    #[inline]
    fn deserialize<D: serde_core::Deserializer<'de>>(deserializer: D) -> Result<Timestamp, D::Error> {
        struct TimestampVisitor;
        impl<'de> serde_core::de::Visitor<'de> for TimestampVisitor {
            type Value = Timestamp;
            fn expecting(&self, f: &mut core::fmt::Formatter) -> core::fmt::Result {
                f.write_str("a timestamp (model: opaque i128 nanosecond count)")
            }
            #[inline]
            fn visit_i128<E: serde_core::de::Error>(self, v: i128) -> Result<Timestamp, E> {
                match Timestamp::model_from_nanos(v) {
                    Some(t) => Ok(t),
                    None => Err(E::custom("timestamp out of range")),
                }
            }
        }
        deserializer.deserialize_i128(TimestampVisitor)
    }
}
