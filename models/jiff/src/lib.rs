//! MODEL of `jiff` 0.2.15 — the surface `paseto-json` uses (`jiff::Timestamp`, `+`/`-` with `std::time::Duration`, `now`,
//! ordering, serde) plus what a maintainer of that file could plausibly reach for next: `jiff::SignedDuration`, the
//! checked / saturating arithmetic, the differences and the second / nanosecond constructors and accessors of `Timestamp`.
//! Not modelled (a change using them makes the scratch build fail = "undecided", never a wrong verdict): `Span`/`ToSpan`,
//! `Zoned`, civil types, time zones, parsing/printing (`FromStr`, `Display`, `strftime`), rounding, `SystemTime` conversions.
//!
//! ASSUMED CONTRACT of the real crate (this is what the verification of paseto-json's validators and serde glue rests on):
//!   * a `Timestamp` is an instant with nanosecond resolution inside jiff's documented range
//!     `Timestamp::MIN ..= Timestamp::MAX` = seconds `-377705023201 ..= 253402207200` since the Unix epoch
//!     (`UnixSeconds` in jiff/src/util/t.rs: years -9999..=9999 shrunk by the largest UTC offset, 93599 s), fractional
//!     nanoseconds `0 ..= 999_999_999` at the top end and `0` at the bottom end; i.e. the nanosecond count is in
//!     `-377705023201_000_000_000 ..= 253402207200_999_999_999`;
//!   * `PartialEq/Eq/PartialOrd/Ord` order timestamps chronologically (jiff derives them on `(second, nanosecond)`, both of
//!     the same sign, which is the order of the nanosecond count);
//!   * `Timestamp + d` / `Timestamp - d` for `d: core::time::Duration` or `d: SignedDuration` are exact and PANIC when the
//!     exact result is outside the range (jiff/src/timestamp.rs `impl Add<UnsignedDuration>`: `self.checked_add(rhs)
//!     .expect("adding unsigned duration to timestamp overflowed")`; `checked_add` fails when the duration does not fit a
//!     `SignedDuration`, when the 96-bit sum overflows and when `Timestamp::from_duration` rejects the sum — all of which
//!     are "exact result out of range"); `checked_add/checked_sub` return `Err` exactly there; `saturating_add/
//!     saturating_sub` return `Ok(clamp(exact result, MIN, MAX))` (jiff: `Timestamp::MIN` when the duration is negative,
//!     else `Timestamp::MAX`; every conversion failure on the way concerns durations of more than 2^63 s, for which the
//!     clamp gives the same answer); nothing wraps;
//!   * `duration_since/duration_until` are the exact differences; `as_second/as_millisecond/as_microsecond` truncate towards
//!     zero, `subsec_*` carry the sign of the timestamp (jiff keeps `second` and `nanosecond` of equal sign);
//!     `Timestamp::new(second, nanosecond)` accepts `second` in range and `|nanosecond| <= 999_999_999` (mixed signs are
//!     normalised, i.e. the value is `second * 10^9 + nanosecond`) except `second == MIN second && nanosecond < 0`;
//!   * `SignedDuration` is a pair `(secs: i64, nanos: i32)` of equal sign with `|nanos| <= 999_999_999`; constructors,
//!     accessors and checked arithmetic are transcribed from jiff/src/signed_duration.rs (same intermediate overflow points);
//!   * `Timestamp::now()` returns some timestamp of the range (under Kani: an arbitrary one);
//!   * `Serialize`/`Deserialize` are inverse to each other on the whole range and `Deserialize` yields nothing outside it.
//!     The real crate's serde form is an RFC 3339 string (`collect_str` / `deserialize_str` + `DEFAULT_DATETIME_PARSER`).
//!     That text layer is THIRD-PARTY AND ASSUMED: the model uses an OPAQUE form, one distinctive serde call
//!     (`serialize_i128(nanoseconds)` / `deserialize_i128`), so that a harness can recognise "the Timestamp's own serde form"
//!     without committing to any text.
//! The arithmetic part of this contract is compared with the real crate on boundary and random values by the native
//! differential test units/u5_json/jiffdiff (see units/u5_json/NOTES.md).
//!
//! Model state: `Timestamp` = one `i128` nanosecond count with the range invariant; `SignedDuration` = `(i64, i32)`;
//! `Error` = a unit-like Copy struct (no niche-bearing fields, no loops, no allocation, no error values with drop glue);
//! ghost statics: the clock value a harness may fix and two one-entry memos of Duration -> nanoseconds products.
//! `model_from_nanos`, `model_nanos`, `model_set_clock`, `model_duration_nanos` are for harnesses only.

use core::time::Duration as UnsignedDuration;

/// Smallest / largest second of a `Timestamp` (documented range of jiff 0.2).
pub const MODEL_MIN_SECOND: i64 = -377705023201;
pub const MODEL_MAX_SECOND: i64 = 253402207200;
pub const MODEL_MIN_NANOS: i128 = MODEL_MIN_SECOND as i128 * 1_000_000_000;
pub const MODEL_MAX_NANOS: i128 = MODEL_MAX_SECOND as i128 * 1_000_000_000 + 999_999_999;
const NANOS_PER_SEC: i32 = 1_000_000_000;

/// jiff::Error stand-in: unit-like, Copy, no drop glue (the real one is an `Arc` chain whose drop glue CBMC unwinds forever)
#[derive(Clone, Copy, Debug, PartialEq, Eq)]
pub struct Error(());
impl core::fmt::Display for Error {
    fn fmt(&self, f: &mut core::fmt::Formatter<'_>) -> core::fmt::Result {
        f.write_str("jiff model: value out of range")
    }
}
impl std::error::Error for Error {}
const ERR: Error = Error(());

// ghost clock: distinctive "unset" value (outside the range, not a constant of any program)
const CLOCK_UNSET: i128 = -0x5eed_c10c_0000_0000_0000_0000_0000_0001;
static mut MODEL_CLOCK: i128 = CLOCK_UNSET;
/// harness helper: make `Timestamp::now()` return `t` from now on (so that a harness can name the clock value)
pub fn model_set_clock(t: Timestamp) {
    unsafe { MODEL_CLOCK = t.ns }
}

// ---------------------------------------------------------------------------------------------------------------------
// Duration -> nanoseconds. One-entry memos of the last conversion, semantically invisible (a pure function is cached): they
// exist because CBMC otherwise builds one 128-bit multiplier per `+`/`-` and per harness oracle and the SAT solver then has to
// prove identical multipliers equivalent (measured: 105-500 s per query). With the memo every use of the same Duration shares
// ONE product. Distinctive initial keys (never equal to a program constant).
static mut MEMO: (u64, u32, i128) = (0x5eed_0000_0000_0001, 0x7fff_fff1, 0);
static mut MEMO_S: (i64, i32, i128) = (0x5eed_0000_0000_0002, 0x7fff_fff2, 0);

/// harness helper: exact nanosecond count of a std Duration, `secs * 10^9 + subsec_nanos` (what the model's `+`/`-` use).
/// Checked against independent arithmetic by harness `oracle_duration_nanos_exact` of unit u5_validators.
pub fn model_duration_nanos(d: UnsignedDuration) -> i128 {
    duration_nanos(d)
}

fn duration_nanos(d: UnsignedDuration) -> i128 {
    let (s, n) = (d.as_secs(), d.subsec_nanos());
    unsafe {
        if MEMO.0 == s && MEMO.1 == n {
            return MEMO.2;
        }
        // u64::MAX * 10^9 + 999_999_999 < 2^94: exact in i128. `wrapping_mul` only to keep Kani from emitting an i128
        // multiplication-overflow check (a 256-bit multiplier for CBMC); it cannot wrap.
        let v = (s as i128).wrapping_mul(1_000_000_000) + n as i128;
        MEMO = (s, n, v);
        v
    }
}

fn signed_nanos(d: SignedDuration) -> i128 {
    unsafe {
        if MEMO_S.0 == d.secs && MEMO_S.1 == d.nanos {
            return MEMO_S.2;
        }
        // |i64::MIN| * 10^9 + 999_999_999 < 2^93: exact in i128
        let v = (d.secs as i128).wrapping_mul(1_000_000_000) + d.nanos as i128;
        MEMO_S = (d.secs, d.nanos, v);
        v
    }
}

// ---------------------------------------------------------------------------------------------------------------------
/// jiff::SignedDuration: `secs` and `nanos` have the same sign (or one is zero), `|nanos| <= 999_999_999`.
/// Field order matters: the derived order (secs, then nanos) is the chronological one, as in jiff.
#[derive(Clone, Copy, Debug, Default, PartialEq, Eq, PartialOrd, Ord, Hash)]
pub struct SignedDuration {
    secs: i64,
    nanos: i32,
}

impl SignedDuration {
    pub const ZERO: SignedDuration = SignedDuration { secs: 0, nanos: 0 };
    pub const MIN: SignedDuration = SignedDuration { secs: i64::MIN, nanos: -(NANOS_PER_SEC - 1) };
    pub const MAX: SignedDuration = SignedDuration { secs: i64::MAX, nanos: NANOS_PER_SEC - 1 };

    /// transcribed from jiff: balances `|nanos| >= 1s` into seconds (panics if that overflows), then makes the signs agree
    pub const fn new(mut secs: i64, mut nanos: i32) -> SignedDuration {
        if !(-NANOS_PER_SEC < nanos && nanos < NANOS_PER_SEC) {
            let addsecs = nanos / NANOS_PER_SEC;
            secs = match secs.checked_add(addsecs as i64) {
                Some(secs) => secs,
                None => panic!("[model] jiff contract boundary: nanoseconds overflowed seconds in SignedDuration::new"),
            };
            nanos = nanos % NANOS_PER_SEC;
        }
        if nanos == 0 || secs == 0 || secs.signum() == (nanos.signum() as i64) {
            return SignedDuration { secs, nanos };
        }
        if secs < 0 {
            secs += 1;
            nanos -= NANOS_PER_SEC;
        } else {
            secs -= 1;
            nanos += NANOS_PER_SEC;
        }
        SignedDuration { secs, nanos }
    }
    pub const fn from_secs(secs: i64) -> SignedDuration {
        SignedDuration { secs, nanos: 0 }
    }
    pub const fn from_millis(millis: i64) -> SignedDuration {
        SignedDuration { secs: millis / 1_000, nanos: (millis % 1_000) as i32 * 1_000_000 }
    }
    pub const fn from_micros(micros: i64) -> SignedDuration {
        SignedDuration { secs: micros / 1_000_000, nanos: (micros % 1_000_000) as i32 * 1_000 }
    }
    pub const fn from_nanos(nanos: i64) -> SignedDuration {
        SignedDuration { secs: nanos / 1_000_000_000, nanos: (nanos % 1_000_000_000) as i32 }
    }
    pub const fn from_mins(minutes: i64) -> SignedDuration {
        if minutes < i64::MIN / 60 || minutes > i64::MAX / 60 {
            panic!("[model] jiff contract boundary: minutes overflowed SignedDuration seconds")
        }
        SignedDuration::from_secs(minutes * 60)
    }
    pub const fn from_hours(hours: i64) -> SignedDuration {
        if hours < i64::MIN / 3_600 || hours > i64::MAX / 3_600 {
            panic!("[model] jiff contract boundary: hours overflowed SignedDuration seconds")
        }
        SignedDuration::from_secs(hours * 3_600)
    }
    pub const fn is_zero(&self) -> bool {
        self.secs == 0 && self.nanos == 0
    }
    pub const fn as_secs(&self) -> i64 {
        self.secs
    }
    pub const fn subsec_nanos(&self) -> i32 {
        self.nanos
    }
    pub const fn subsec_micros(&self) -> i32 {
        self.nanos / 1_000
    }
    pub const fn subsec_millis(&self) -> i32 {
        self.nanos / 1_000_000
    }
    pub const fn as_millis(&self) -> i128 {
        (self.secs as i128).wrapping_mul(1_000) + (self.nanos / 1_000_000) as i128
    }
    pub const fn as_micros(&self) -> i128 {
        (self.secs as i128).wrapping_mul(1_000_000) + (self.nanos / 1_000) as i128
    }
    pub fn as_nanos(&self) -> i128 {
        signed_nanos(*self)
    }
    pub const fn signum(self) -> i8 {
        if self.secs > 0 || self.nanos > 0 {
            1
        } else if self.secs < 0 || self.nanos < 0 {
            -1
        } else {
            0
        }
    }
    pub const fn is_positive(&self) -> bool {
        self.secs > 0 || self.nanos > 0
    }
    pub const fn is_negative(&self) -> bool {
        self.secs < 0 || self.nanos < 0
    }
    pub const fn checked_neg(self) -> Option<SignedDuration> {
        match self.secs.checked_neg() {
            Some(secs) => Some(SignedDuration { secs, nanos: -self.nanos }),
            None => None,
        }
    }
    pub const fn abs(self) -> SignedDuration {
        // like jiff: i64::abs overflows (panics in debug builds) for secs == i64::MIN
        SignedDuration { secs: self.secs.abs(), nanos: self.nanos.abs() }
    }
    pub const fn unsigned_abs(self) -> UnsignedDuration {
        UnsignedDuration::new(self.secs.unsigned_abs(), self.nanos.unsigned_abs())
    }
    /// transcribed from jiff (same intermediate overflow points)
    pub const fn checked_add(self, rhs: SignedDuration) -> Option<SignedDuration> {
        let mut secs = match self.secs.checked_add(rhs.secs) {
            Some(s) => s,
            None => return None,
        };
        let mut nanos = self.nanos + rhs.nanos;
        if nanos != 0 {
            if nanos >= NANOS_PER_SEC {
                nanos -= NANOS_PER_SEC;
                secs = match secs.checked_add(1) {
                    None => return None,
                    Some(secs) => secs,
                };
            } else if nanos <= -NANOS_PER_SEC {
                nanos += NANOS_PER_SEC;
                secs = match secs.checked_sub(1) {
                    None => return None,
                    Some(secs) => secs,
                };
            }
            if secs != 0 && nanos != 0 && secs.signum() != (nanos.signum() as i64) {
                if secs < 0 {
                    secs += 1;
                    nanos -= NANOS_PER_SEC;
                } else {
                    secs -= 1;
                    nanos += NANOS_PER_SEC;
                }
            }
        }
        Some(SignedDuration { secs, nanos })
    }
    pub const fn checked_sub(self, rhs: SignedDuration) -> Option<SignedDuration> {
        match rhs.checked_neg() {
            Some(rhs) => self.checked_add(rhs),
            None => None,
        }
    }
    /// a nanosecond count that is known to fit (differences of timestamps, timestamps themselves)
    fn from_small_nanos(ns: i128) -> SignedDuration {
        SignedDuration { secs: (ns / 1_000_000_000) as i64, nanos: (ns % 1_000_000_000) as i32 }
    }
}
impl core::ops::Neg for SignedDuration {
    type Output = SignedDuration;
    fn neg(self) -> SignedDuration {
        match self.checked_neg() {
            Some(d) => d,
            None => panic!("[model] jiff contract boundary: overflow when negating signed duration"),
        }
    }
}
impl core::ops::Add for SignedDuration {
    type Output = SignedDuration;
    fn add(self, rhs: SignedDuration) -> SignedDuration {
        match self.checked_add(rhs) {
            Some(d) => d,
            None => panic!("[model] jiff contract boundary: overflow when adding signed durations"),
        }
    }
}
impl core::ops::Sub for SignedDuration {
    type Output = SignedDuration;
    fn sub(self, rhs: SignedDuration) -> SignedDuration {
        match self.checked_sub(rhs) {
            Some(d) => d,
            None => panic!("[model] jiff contract boundary: overflow when subtracting signed durations"),
        }
    }
}
impl core::ops::AddAssign for SignedDuration {
    fn add_assign(&mut self, rhs: SignedDuration) {
        *self = *self + rhs
    }
}
impl core::ops::SubAssign for SignedDuration {
    fn sub_assign(&mut self, rhs: SignedDuration) {
        *self = *self - rhs
    }
}
impl TryFrom<UnsignedDuration> for SignedDuration {
    type Error = Error;
    fn try_from(d: UnsignedDuration) -> Result<SignedDuration, Error> {
        if d.as_secs() > i64::MAX as u64 {
            return Err(ERR);
        }
        Ok(SignedDuration { secs: d.as_secs() as i64, nanos: d.subsec_nanos() as i32 })
    }
}
impl TryFrom<SignedDuration> for UnsignedDuration {
    type Error = Error;
    fn try_from(sd: SignedDuration) -> Result<UnsignedDuration, Error> {
        if sd.is_negative() {
            return Err(ERR);
        }
        Ok(UnsignedDuration::new(sd.secs as u64, sd.nanos as u32))
    }
}

/// jiff::TimestampArithmetic: what `checked_add/checked_sub/saturating_add/saturating_sub` accept (`Span` is not modelled).
/// Holds the exact signed nanosecond count of the duration.
#[derive(Clone, Copy, Debug)]
pub struct TimestampArithmetic {
    ns: i128,
}
impl From<SignedDuration> for TimestampArithmetic {
    fn from(d: SignedDuration) -> TimestampArithmetic {
        TimestampArithmetic { ns: signed_nanos(d) }
    }
}
impl From<UnsignedDuration> for TimestampArithmetic {
    fn from(d: UnsignedDuration) -> TimestampArithmetic {
        TimestampArithmetic { ns: duration_nanos(d) }
    }
}
impl<'a> From<&'a SignedDuration> for TimestampArithmetic {
    fn from(d: &'a SignedDuration) -> TimestampArithmetic {
        TimestampArithmetic::from(*d)
    }
}
impl<'a> From<&'a UnsignedDuration> for TimestampArithmetic {
    fn from(d: &'a UnsignedDuration) -> TimestampArithmetic {
        TimestampArithmetic::from(*d)
    }
}

// ---------------------------------------------------------------------------------------------------------------------
#[derive(Clone, Copy, Debug, Hash)]
pub struct Timestamp {
    ns: i128,
}

impl Default for Timestamp {
    fn default() -> Timestamp {
        Timestamp::UNIX_EPOCH
    }
}

impl Timestamp {
    pub const MIN: Timestamp = Timestamp { ns: MODEL_MIN_NANOS };
    pub const MAX: Timestamp = Timestamp { ns: MODEL_MAX_NANOS };
    pub const UNIX_EPOCH: Timestamp = Timestamp { ns: 0 };

    /// harness helper: the timestamp with this nanosecond count, `None` outside jiff's range
    pub fn model_from_nanos(ns: i128) -> Option<Timestamp> {
        if MODEL_MIN_NANOS <= ns && ns <= MODEL_MAX_NANOS {
            Some(Timestamp { ns })
        } else {
            None
        }
    }

    /// harness helper: nanoseconds since the Unix epoch (what the real `as_nanosecond()` returns)
    pub fn model_nanos(&self) -> i128 {
        self.ns
    }

    fn from_nanos_result(ns: i128) -> Result<Timestamp, Error> {
        match Timestamp::model_from_nanos(ns) {
            Some(t) => Ok(t),
            None => Err(ERR),
        }
    }

    /// "some timestamp of the range": under Kani an arbitrary one, or the one a harness fixed with `model_set_clock`
    #[cfg(kani)]
    pub fn now() -> Timestamp {
        let fixed = unsafe { MODEL_CLOCK };
        if fixed != CLOCK_UNSET {
            return Timestamp { ns: fixed };
        }
        let ns: i128 = kani::any();
        kani::assume(MODEL_MIN_NANOS <= ns && ns <= MODEL_MAX_NANOS);
        Timestamp { ns }
    }

    #[cfg(not(kani))]
    pub fn now() -> Timestamp {
        let ns = match std::time::SystemTime::now().duration_since(std::time::UNIX_EPOCH) {
            Ok(d) => d.as_nanos() as i128,
            Err(e) => -(e.duration().as_nanos() as i128),
        };
        Timestamp::model_from_nanos(ns).expect("system time is valid")
    }

    // ---- constructors
    pub fn new(second: i64, nanosecond: i32) -> Result<Timestamp, Error> {
        if second < MODEL_MIN_SECOND || second > MODEL_MAX_SECOND {
            return Err(ERR);
        }
        if nanosecond <= -NANOS_PER_SEC || nanosecond >= NANOS_PER_SEC {
            return Err(ERR);
        }
        if second == MODEL_MIN_SECOND && nanosecond < 0 {
            return Err(ERR);
        }
        // mixed signs are normalised by jiff to the same instant second * 10^9 + nanosecond (always in range here)
        Ok(Timestamp { ns: (second as i128).wrapping_mul(1_000_000_000) + nanosecond as i128 })
    }
    pub fn constant(second: i64, nanosecond: i32) -> Timestamp {
        match Timestamp::new(second, nanosecond) {
            Ok(t) => t,
            Err(_) => panic!("[model] jiff contract boundary: Timestamp::constant out of range"),
        }
    }
    pub fn from_second(second: i64) -> Result<Timestamp, Error> {
        if second < MODEL_MIN_SECOND || second > MODEL_MAX_SECOND {
            return Err(ERR);
        }
        Ok(Timestamp { ns: (second as i128).wrapping_mul(1_000_000_000) })
    }
    pub fn from_millisecond(millisecond: i64) -> Result<Timestamp, Error> {
        Timestamp::from_nanos_result((millisecond as i128).wrapping_mul(1_000_000))
    }
    pub fn from_microsecond(microsecond: i64) -> Result<Timestamp, Error> {
        Timestamp::from_nanos_result((microsecond as i128).wrapping_mul(1_000))
    }
    pub fn from_nanosecond(nanosecond: i128) -> Result<Timestamp, Error> {
        Timestamp::from_nanos_result(nanosecond)
    }
    pub fn from_duration(duration: SignedDuration) -> Result<Timestamp, Error> {
        Timestamp::from_nanos_result(signed_nanos(duration))
    }

    // ---- accessors (truncation towards zero; fractional parts carry the sign of the timestamp)
    pub fn as_second(self) -> i64 {
        (self.ns / 1_000_000_000) as i64
    }
    pub fn as_millisecond(self) -> i64 {
        (self.ns / 1_000_000) as i64
    }
    pub fn as_microsecond(self) -> i64 {
        (self.ns / 1_000) as i64
    }
    pub fn as_nanosecond(self) -> i128 {
        self.ns
    }
    pub fn subsec_nanosecond(self) -> i32 {
        (self.ns % 1_000_000_000) as i32
    }
    pub fn subsec_microsecond(self) -> i32 {
        ((self.ns % 1_000_000_000) / 1_000) as i32
    }
    pub fn subsec_millisecond(self) -> i32 {
        ((self.ns % 1_000_000_000) / 1_000_000) as i32
    }
    pub fn as_duration(self) -> SignedDuration {
        SignedDuration::from_small_nanos(self.ns)
    }
    pub fn signum(self) -> i8 {
        if self.ns > 0 {
            1
        } else if self.ns < 0 {
            -1
        } else {
            0
        }
    }
    pub fn is_zero(self) -> bool {
        self.ns == 0
    }

    // ---- arithmetic: exact; Err / saturation exactly where the exact result leaves the range
    pub fn checked_add<A: Into<TimestampArithmetic>>(self, duration: A) -> Result<Timestamp, Error> {
        let d: TimestampArithmetic = duration.into();
        Timestamp::from_nanos_result(self.ns + d.ns)
    }
    pub fn checked_sub<A: Into<TimestampArithmetic>>(self, duration: A) -> Result<Timestamp, Error> {
        let d: TimestampArithmetic = duration.into();
        Timestamp::from_nanos_result(self.ns - d.ns)
    }
    /// `Result` as in jiff 0.2 (the error is for `Span`s with calendar units, which are not modelled): always `Ok`
    pub fn saturating_add<A: Into<TimestampArithmetic>>(self, duration: A) -> Result<Timestamp, Error> {
        let d: TimestampArithmetic = duration.into();
        Ok(Timestamp::clamp_nanos(self.ns + d.ns))
    }
    pub fn saturating_sub<A: Into<TimestampArithmetic>>(self, duration: A) -> Result<Timestamp, Error> {
        let d: TimestampArithmetic = duration.into();
        Ok(Timestamp::clamp_nanos(self.ns - d.ns))
    }
    fn clamp_nanos(ns: i128) -> Timestamp {
        if ns < MODEL_MIN_NANOS {
            Timestamp::MIN
        } else if ns > MODEL_MAX_NANOS {
            Timestamp::MAX
        } else {
            Timestamp { ns }
        }
    }
    /// `self - other`
    pub fn duration_since(self, other: Timestamp) -> SignedDuration {
        SignedDuration::from_small_nanos(self.ns - other.ns)
    }
    /// `other - self`
    pub fn duration_until(self, other: Timestamp) -> SignedDuration {
        SignedDuration::from_small_nanos(other.ns - self.ns)
    }
}

impl PartialEq for Timestamp {
    #[inline]
    fn eq(&self, o: &Timestamp) -> bool {
        self.ns == o.ns
    }
}
impl Eq for Timestamp {}
impl PartialOrd for Timestamp {
    #[inline]
    fn partial_cmp(&self, o: &Timestamp) -> Option<core::cmp::Ordering> {
        Some(self.cmp(o))
    }
    #[inline]
    fn lt(&self, o: &Timestamp) -> bool {
        self.ns < o.ns
    }
    #[inline]
    fn le(&self, o: &Timestamp) -> bool {
        self.ns <= o.ns
    }
    #[inline]
    fn gt(&self, o: &Timestamp) -> bool {
        self.ns > o.ns
    }
    #[inline]
    fn ge(&self, o: &Timestamp) -> bool {
        self.ns >= o.ns
    }
}
impl Ord for Timestamp {
    #[inline]
    fn cmp(&self, o: &Timestamp) -> core::cmp::Ordering {
        if self.ns < o.ns {
            core::cmp::Ordering::Less
        } else if self.ns > o.ns {
            core::cmp::Ordering::Greater
        } else {
            core::cmp::Ordering::Equal
        }
    }
}

/// exact; panics (like the real crate) when the exact result is not a `Timestamp`
impl core::ops::Add<UnsignedDuration> for Timestamp {
    type Output = Timestamp;
    #[inline]
    fn add(self, rhs: UnsignedDuration) -> Timestamp {
        match Timestamp::model_from_nanos(self.ns + duration_nanos(rhs)) {
            Some(t) => t,
            None => panic!("[model] jiff contract boundary: adding unsigned duration to timestamp overflowed"),
        }
    }
}
impl core::ops::Sub<UnsignedDuration> for Timestamp {
    type Output = Timestamp;
    #[inline]
    fn sub(self, rhs: UnsignedDuration) -> Timestamp {
        match Timestamp::model_from_nanos(self.ns - duration_nanos(rhs)) {
            Some(t) => t,
            None => panic!("[model] jiff contract boundary: subtracting unsigned duration from timestamp overflowed"),
        }
    }
}
impl core::ops::Add<SignedDuration> for Timestamp {
    type Output = Timestamp;
    #[inline]
    fn add(self, rhs: SignedDuration) -> Timestamp {
        match Timestamp::model_from_nanos(self.ns + signed_nanos(rhs)) {
            Some(t) => t,
            None => panic!("[model] jiff contract boundary: adding signed duration to timestamp overflowed"),
        }
    }
}
impl core::ops::Sub<SignedDuration> for Timestamp {
    type Output = Timestamp;
    #[inline]
    fn sub(self, rhs: SignedDuration) -> Timestamp {
        match Timestamp::model_from_nanos(self.ns - signed_nanos(rhs)) {
            Some(t) => t,
            None => panic!("[model] jiff contract boundary: subtracting signed duration from timestamp overflowed"),
        }
    }
}
impl core::ops::AddAssign<UnsignedDuration> for Timestamp {
    #[inline]
    fn add_assign(&mut self, rhs: UnsignedDuration) {
        *self = *self + rhs
    }
}
impl core::ops::SubAssign<UnsignedDuration> for Timestamp {
    #[inline]
    fn sub_assign(&mut self, rhs: UnsignedDuration) {
        *self = *self - rhs
    }
}
impl core::ops::AddAssign<SignedDuration> for Timestamp {
    #[inline]
    fn add_assign(&mut self, rhs: SignedDuration) {
        *self = *self + rhs
    }
}
impl core::ops::SubAssign<SignedDuration> for Timestamp {
    #[inline]
    fn sub_assign(&mut self, rhs: SignedDuration) {
        *self = *self - rhs
    }
}

/// OPAQUE serde form (see header): the one call `serialize_i128(nanoseconds)`.
impl serde_core::Serialize for Timestamp {
    #[inline]
    fn serialize<S: serde_core::Serializer>(&self, serializer: S) -> Result<S::Ok, S::Error> {
        serializer.serialize_i128(self.ns)
    }
}

impl<'de> serde_core::Deserialize<'de> for Timestamp {
    #[inline]
    fn deserialize<D: serde_core::Deserializer<'de>>(deserializer: D) -> Result<Timestamp, D::Error> {
        struct TimestampVisitor;
        impl<'de> serde_core::de::Visitor<'de> for TimestampVisitor {
            type Value = Timestamp;
            fn expecting(&self, f: &mut core::fmt::Formatter) -> core::fmt::Result {
                f.write_str("a timestamp (model: opaque i128 nanosecond count)")
            }
            #[inline]
            fn visit_i128<E: serde_core::de::Error>(self, v: i128) -> Result<Timestamp, E> {
                match Timestamp::model_from_nanos(v) {
                    Some(t) => Ok(t),
                    None => Err(E::custom("timestamp out of range")),
                }
            }
        }
        deserializer.deserialize_i128(TimestampVisitor)
    }
}
