//! MODEL of `chacha20poly1305` 0.10 (XChaCha20Poly1305, detached in-place API) — assumed contract:
//!   encrypt_in_place_detached(nonce, aad, buf): buf ^= keystream(key, nonce)[0..|buf|];
//!       tag = uf(POLY1305_AEAD, key, nonce ‖ le64(|aad|) ‖ aad ‖ ciphertext) (16 bytes; deterministic, collision-free = ideal MAC)
//!   decrypt_in_place_detached(nonce, aad, buf, tag): recompute the tag over the ciphertext; on mismatch return Err and leave buf
//!       untouched; otherwise buf ^= keystream.
//!   keystream(key, nonce) = 64-byte chunks uf(XCHACHA20POLY1305_KS, key, nonce ‖ le32(chunk)), uninterpreted, distinct from raw XChaCha20.
#![no_std]
pub use aead;
use aead::consts::{U0, U16, U24, U32};
use aead::generic_array::GenericArray;
use aead::{AeadCore, AeadInPlace, Error, KeyInit, KeySizeUser};
use vmodel_core::{alg, uf, Buf, MCAP};

pub type Key = GenericArray<u8, U32>;
pub type XNonce = GenericArray<u8, U24>;
pub type Tag = GenericArray<u8, U16>;

#[derive(Clone)]
pub struct XChaCha20Poly1305 {
    key: [u8; 32],
}
impl KeySizeUser for XChaCha20Poly1305 {
    type KeySize = U32;
}
impl KeyInit for XChaCha20Poly1305 {
    fn new(key: &Key) -> Self {
        let mut k = [0u8; 32];
        k.copy_from_slice(key);
        XChaCha20Poly1305 { key: k }
    }
}
impl AeadCore for XChaCha20Poly1305 {
    type NonceSize = U24;
    type TagSize = U16;
    type CiphertextOverhead = U0;
}
impl XChaCha20Poly1305 {
    fn xor(&self, nonce: &[u8], buf: &mut [u8]) {
        let mut c = 0;
        while c * 64 < buf.len() {
            let mut m = [0u8; 28];
            m[..24].copy_from_slice(nonce);
            m[24..].copy_from_slice(&(c as u32).to_le_bytes());
            let mut ks = [0u8; 64];
            uf(alg::XCHACHA20POLY1305_KS, false, &self.key, &m, &mut ks);
            let mut i = 0;
            while i < 64 && c * 64 + i < buf.len() {
                buf[c * 64 + i] ^= ks[i];
                i += 1;
            }
            c += 1;
        }
    }
    fn tag(&self, nonce: &[u8], aad: &[u8], ct: &[u8]) -> [u8; 16] {
        let mut m: Buf<MCAP> = Buf::new();
        m.push(nonce);
        m.push(&(aad.len() as u64).to_le_bytes());
        m.push(aad);
        m.push(ct);
        let mut t = [0u8; 16];
        uf(alg::POLY1305_AEAD, true, &self.key, m.as_slice(), &mut t);
        t
    }
}
impl AeadInPlace for XChaCha20Poly1305 {
    fn encrypt_in_place_detached(&self, nonce: &XNonce, aad: &[u8], buffer: &mut [u8]) -> Result<Tag, Error> {
        self.xor(nonce, buffer);
        let t = self.tag(nonce, aad, buffer);
        Ok(GenericArray::clone_from_slice(&t))
    }
    fn decrypt_in_place_detached(&self, nonce: &XNonce, aad: &[u8], buffer: &mut [u8], tag: &Tag) -> Result<(), Error> {
        let t = self.tag(nonce, aad, buffer);
        let mut diff = 0u8;
        let mut i = 0;
        while i < 16 {
            diff |= t[i] ^ tag[i];
            i += 1;
        }
        if diff != 0 {
            return Err(Error);
        }
        self.xor(nonce, buffer);
        Ok(())
    }
}
