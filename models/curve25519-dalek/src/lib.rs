//! MODEL of `curve25519-dalek` 4.1 — assumed contracts (only the API paseto-v2/v4 use):
//!  * `Scalar` is an opaque 32-byte identifier; `from_bytes_mod_order` keeps the bytes (every function of a scalar below is
//!    uninterpreted, so reduction mod l is irrelevant); `clamp_integer` is the real bit-twiddling.
//!  * `EdwardsPoint::mul_base(s)` = uf(ED25519_PK, s): deterministic, injective (ideal), and always a *valid* point.
//!  * `CompressedEdwardsY(b).decompress()` is `Some` iff valid(b), where valid is an uninterpreted predicate
//!    (uf(ED25519_VALID, b) bit 0) that holds for every output of `mul_base`.
//!  * `to_montgomery()` = uf(X25519_PK, edwards bytes): deterministic, injective.
//!  * `s * P` (X25519): shared = uf(X25519_DH, sort(mont(mul_base(s)), P)): commutative — s1 * mont(B*s2) == s2 * mont(B*s1)
//!    — and otherwise uninterpreted.
#![no_std]
use core::ops::Mul;
use vmodel_core::{alg, uf};

pub mod scalar {
    #[derive(Clone, Copy, PartialEq, Eq)]
    pub struct Scalar(pub(crate) [u8; 32]);
    impl Scalar {
        pub fn from_bytes_mod_order(b: [u8; 32]) -> Scalar {
            Scalar(b)
        }
        pub fn to_bytes(&self) -> [u8; 32] {
            self.0
        }
        pub fn as_bytes(&self) -> &[u8; 32] {
            &self.0
        }
    }
    pub const fn clamp_integer(mut bytes: [u8; 32]) -> [u8; 32] {
        bytes[0] &= 0b1111_1000;
        bytes[31] &= 0b0111_1111;
        bytes[31] |= 0b0100_0000;
        bytes
    }
}
pub use scalar::Scalar;

/// uninterpreted validity predicate of a compressed Edwards point
pub fn model_point_valid(b: &[u8; 32]) -> bool {
    let mut o = [0u8; 1];
    uf(alg::ED25519_VALID, false, b, &[], &mut o);
    o[0] & 1 == 1
}

pub mod edwards {
    use super::*;
    #[derive(Clone, Copy, PartialEq, Eq)]
    pub struct CompressedEdwardsY(pub [u8; 32]);
    impl CompressedEdwardsY {
        pub fn decompress(&self) -> Option<EdwardsPoint> {
            if model_point_valid(&self.0) {
                Some(EdwardsPoint(self.0))
            } else {
                None
            }
        }
        pub fn as_bytes(&self) -> &[u8; 32] {
            &self.0
        }
        pub fn to_bytes(&self) -> [u8; 32] {
            self.0
        }
    }
    /// model: a point is identified by its compressed encoding
    #[derive(Clone, Copy, PartialEq, Eq)]
    pub struct EdwardsPoint(pub(crate) [u8; 32]);
    impl EdwardsPoint {
        pub fn mul_base(s: &Scalar) -> EdwardsPoint {
            let mut o = [0u8; 32];
            uf(alg::ED25519_PK, true, &s.0, &[], &mut o);
            #[cfg(kani)]
            kani::assume(model_point_valid(&o));
            EdwardsPoint(o)
        }
        pub fn compress(&self) -> CompressedEdwardsY {
            CompressedEdwardsY(self.0)
        }
        pub fn to_montgomery(&self) -> super::montgomery::MontgomeryPoint {
            let mut o = [0u8; 32];
            uf(alg::X25519_PK, true, &self.0, &[], &mut o);
            super::montgomery::MontgomeryPoint(o)
        }
    }
}
pub use edwards::EdwardsPoint;

pub mod montgomery {
    #[derive(Clone, Copy, PartialEq, Eq)]
    pub struct MontgomeryPoint(pub [u8; 32]);
    impl MontgomeryPoint {
        pub fn as_bytes(&self) -> &[u8; 32] {
            &self.0
        }
        pub fn to_bytes(&self) -> [u8; 32] {
            self.0
        }
    }
}
pub use montgomery::MontgomeryPoint;

fn x25519(s: &Scalar, p: &MontgomeryPoint) -> MontgomeryPoint {
    let a = EdwardsPoint::mul_base(s).to_montgomery();
    // canonical (sorted) order of the two public points makes the function commutative
    let mut a_first = true;
    let mut decided = false;
    let mut i = 0;
    while i < 32 {
        if !decided && a.0[i] != p.0[i] {
            a_first = a.0[i] < p.0[i];
            decided = true;
        }
        i += 1;
    }
    let mut k = [0u8; 64];
    if a_first {
        k[..32].copy_from_slice(&a.0);
        k[32..].copy_from_slice(&p.0);
    } else {
        k[..32].copy_from_slice(&p.0);
        k[32..].copy_from_slice(&a.0);
    }
    let mut o = [0u8; 32];
    uf(alg::X25519_DH, true, &k, &[], &mut o);
    MontgomeryPoint(o)
}
impl Mul<MontgomeryPoint> for Scalar {
    type Output = MontgomeryPoint;
    fn mul(self, p: MontgomeryPoint) -> MontgomeryPoint {
        x25519(&self, &p)
    }
}
impl Mul<&MontgomeryPoint> for &Scalar {
    type Output = MontgomeryPoint;
    fn mul(self, p: &MontgomeryPoint) -> MontgomeryPoint {
        x25519(self, p)
    }
}
impl Mul<Scalar> for MontgomeryPoint {
    type Output = MontgomeryPoint;
    fn mul(self, s: Scalar) -> MontgomeryPoint {
        x25519(&s, &self)
    }
}
