//! MODEL of `libsodium-rs` 0.2.0 — assumed contracts, not the algorithms. Only the API surface paseto-v4-sodium uses.
//! Everything is expressed over `vmodel-core` (memoised uninterpreted functions `uf`, logged model RNG) with EXACTLY the
//! (alg, key, message, output length) conventions of the RustCrypto-side models (models/{blake2,chacha20,ed25519-dalek,
//! curve25519-dalek,argon2}) and of `vspec::v4`, so that both v4 backends are the *same* uninterpreted functions.
//!
//! Assumed contracts, module by module:
//!
//! * `ensure_init()` — always `Ok(())` (sodium_init failure is not modelled; the real crate panics at load time in that case).
//!
//! * `random::{bytes, fill_bytes}` — INFALLIBLE BY API (no `Result`). Each call is one draw of `vmodel_core::rng_fill`
//!   (arbitrary bytes, logged in the ghost log). libsodium's `randombytes_buf` calls `sodium_misuse()` -> `abort()` when the
//!   OS source fails, so a failing draw never returns to Rust code: the model terminates the path (`assume(false)`) if the
//!   harness enabled RNG failure. Consequence: the "RNG failed => Err" branch of C16 does not exist for this backend; what is
//!   decided is "whenever the operation returns, every draw succeeded and the output carries exactly the drawn bytes".
//!
//! * `utils::compare(a, b)` — literal transcription of `sodium_compare` over min(|a|,|b|) bytes (that is what the wrapper
//!   passes): little-endian numeric comparison, 0 iff those bytes are all equal. Not an abstraction.
//!
//! * `crypto_generichash::{State, generichash}` — BLAKE2b. `State::new(key, n)`: Err unless 16 <= n <= 64 and (key absent or
//!   16 <= |key| <= 64), as the real wrapper. `update` concatenates. `finalize`:
//!       keyed:   uf(BLAKE2B_MAC, ideal, key, message) of n bytes;   unkeyed: uf(BLAKE2B, ideal, [], message) of n bytes
//!   — deterministic, collision-free, output length part of the function's identity (identical to models/blake2).
//!
//! * `crypto_stream::xchacha20::stream_xor(m, nonce, key)` — m XOR keystream(key, nonce)[0..|m|], keystream in 64-byte chunks
//!   uf(XCHACHA20_KS, not ideal, key, nonce(24) ‖ le32(chunk)) (identical to models/chacha20 and vspec). Never fails.
//!   `Key::from_slice` / `Nonce::try_from_slice` check the exact length (32 / 24) as the real wrapper.
//!
//! * `crypto_sign` (Ed25519):
//!     - seed expansion (scalar ‖ hash_prefix) = uf(SHA512_EXPAND, ideal, key = seed, msg = []) (64 bytes); the scalar half is
//!       assumed to be already clamped (RFC 8032 clamps after hashing; the sibling model treats these 32 bytes as *the* scalar);
//!     - public key of a scalar = uf(ED25519_PK, ideal, key = scalar) — injective, always a valid point;
//!     - `keypair_from_seed` / `KeyPair::from_seed`: sk = seed ‖ pk(seed), never fails for a 32-byte seed;
//!     - `PublicKey::from_bytes` / `SecretKey::from_bytes`: LENGTH CHECK ONLY (32 / 64), exactly as the real wrapper: no point
//!       validation, no seed/public-half consistency check;
//!     - `sign_detached(m, sk)`: libsodium signs with the scalar of sk[..32] and the public key bytes sk[32..] *as given*.
//!       sig = uf(ED25519_SIG, ideal, key = sk[32..] ‖ hash_prefix, msg = m) when sk[32..] is the public key of sk[..32];
//!       otherwise uf(ED25519_SIG_INVALID, ..): bytes that verify under no key (R + H(R‖A'‖m)·A' != S·B for A' != A). Never fails.
//!     - IDEAL SIGNATURE: `verify_detached(sig, m, pk)` holds iff sig was produced by the signing function for exactly
//!       (pk, m) (`was_output_of_kp(ED25519_SIG, pk, m, sig)`). libsodium's additional rejections (non-canonical S, small-order
//!       R or pk, non-canonical pk) only remove signatures that the ideal functionality never produces.
//!     - `ed25519_pk_to_curve25519(pk)`: Err unless valid(pk) (uninterpreted predicate uf(ED25519_VALID, pk), the same predicate
//!       the sibling uses for point decompression; libsodium additionally rejects small-order / mixed-order points — the model
//!       does not distinguish those from off-curve encodings); Ok = uf(X25519_PK, ideal, key = pk) (birational map, injective).
//!     - `ed25519_sk_to_curve25519(sk)`: the (clamped) scalar of sk[..32]. Never fails.
//!
//! * `crypto_box::KeyPair::generate()` — sk = one 32-byte RNG draw; pk = X25519 base multiplication, which clamps:
//!   pk = uf(X25519_PK, uf(ED25519_PK, clamp(sk))) (identical to the sibling's `EdwardsPoint::mul_base(clamp(..)).to_montgomery()`).
//!
//! * `crypto_scalarmult::curve25519::scalarmult(n, P)` — length checks as the wrapper; Err if P (top bit masked) is one of the 7
//!   encodings of libsodium's small-order blacklist (transcribed literally; real X25519 returns all-zero exactly for these);
//!   otherwise Ok(uf(X25519_DH, ideal, key = sort(A, P))) with A = uf(X25519_PK, uf(ED25519_PK, clamp(n))) the public point
//!   of n: commutative (n1·(n2·B) == n2·(n1·B)) and otherwise uninterpreted — identical to the sibling's `Scalar * MontgomeryPoint`.
//!   Points produced by the model itself (public keys) are assumed not to be in the blacklist.
//!
//! * `crypto_pwhash::pwhash(n, pw, salt, ops, mem, ALG_ARGON2ID13)` — the wrapper's and the C function's argument checks
//!   (16 <= n, |salt| == 16, 1 <= ops <= 2^32-1, 8192 <= mem <= 4398046510080, alg in {1 (argon2i), 2 (argon2id)}), then
//!   uf(ARGON2ID, ideal, key = pw, msg = be32(mem / 1024) ‖ be32(ops) ‖ be32(1) ‖ salt): libsodium FLOORS the byte count to KiB and
//!   always uses one lane. Memory/time cost and allocation failure are not modelled (budget only matters at native replay).
//!
//! Model switch (harness side, like `vmodel_core::rng_may_fail`): `model::assume_honest_points(true)` turns the two symbolic
//! failure branches of the curve conversions (`ed25519_pk_to_curve25519`: invalid point; `scalarmult`: blacklisted point) into
//! assumptions. Harnesses that call a sealing operation *before* another model-calling operation use it with keys the
//! model itself derived (for which the predicates hold by contract), so that no symbolic Ok/Err merge precedes later `uf` calls
//! (units/README.md rule 3). Harnesses about invalid / adversarial points leave it off.
//!
//! Representation choices forced by CBMC (units/v4s/NOTES.md section 5): (1) model functions are branch-free in front of `uf`
//! calls — argument checks are folded into a flag that selects Ok/Err after the uninterpreted function has been evaluated;
//! (2) `crypto_generichash::State` is a three-word handle into a static arena and has no niche-bearing field, because the
//! repository moves it through `Result<(Key, State), PasetoError>`; (3) `random::fill_bytes` draws into a local array first.
//!
//! Capacity limits are `assert!`s whose message starts with "[model]" (reported as undecided, never as violation).

/// Error type of the real crate (payloads are static strings here; the repository only ever discards the error).
#[derive(Debug)]
pub enum SodiumError {
    HexDecodingFailed,
    Base64DecodingFailed,
    InitializationError,
    InvalidKey(&'static str),
    InvalidNonce(&'static str),
    InvalidInput(&'static str),
    AuthenticationError,
    EncryptionError(&'static str),
    DecryptionError(&'static str),
    OperationError(&'static str),
    UnsupportedOperation(&'static str),
}
impl core::fmt::Display for SodiumError {
    fn fmt(&self, f: &mut core::fmt::Formatter<'_>) -> core::fmt::Result {
        f.write_str("libsodium model error")
    }
}
impl std::error::Error for SodiumError {}

pub type Result<T> = core::result::Result<T, SodiumError>;

/// `sodium_init`: always succeeds in the model.
pub fn ensure_init() -> Result<()> {
    Ok(())
}

pub mod crypto_box;
pub mod crypto_core {
    //! `crypto_core_ed25519_is_valid_point`: the same uninterpreted validity predicate the Ed25519 model uses everywhere
    //! (holds for every public key the model derives; libsodium additionally rejects small-order and non-canonical points,
    //! which is inside "valid" here).
    pub mod ed25519 {
        pub const BYTES: usize = 32;
        pub fn is_valid_point(p: &[u8]) -> crate::Result<bool> {
            if p.len() != BYTES {
                return Err(crate::SodiumError::InvalidInput("invalid point length"));
            }
            let mut b = [0u8; 32];
            b.copy_from_slice(p);
            Ok(crate::crypto_sign::point_valid(&b))
        }
    }
}
pub mod crypto_generichash;
pub mod crypto_pwhash;
pub mod crypto_scalarmult;
pub mod crypto_sign;
pub mod crypto_stream;
pub mod random;
pub mod utils;

/// Model controls and ghost helpers (not part of the real crate's API).
pub mod model {
    #![allow(static_mut_refs)]
    // Kani 0.68 pitfall (found by the framework owner, see vmodel-core): a `static mut` whose initialiser has the same bytes as
    // some program constant can become the backing memory of that constant, so writing it changes the constant. Small mutable
    // statics of the model therefore start from a distinctive magic value instead of 0 / false.
    const FLAG_MAGIC: u64 = 0x73_6f64_6975_6d00;
    static mut HONEST_POINTS_FLAG: u64 = FLAG_MAGIC;
    /// true: `ed25519_pk_to_curve25519` / `scalarmult` *assume* their point argument is acceptable instead of branching.
    pub fn assume_honest_points(b: bool) {
        unsafe { HONEST_POINTS_FLAG = FLAG_MAGIC | b as u64 }
    }
    pub(crate) fn honest_points() -> bool {
        unsafe { HONEST_POINTS_FLAG == FLAG_MAGIC | 1 }
    }
}

#[cfg(kani)]
pub(crate) fn assume(c: bool) {
    kani::assume(c)
}
#[cfg(not(kani))]
pub(crate) fn assume(_c: bool) {}

/// libsodium `sodium_misuse()` -> `abort()`: the process ends, nothing is returned to the caller.
#[cfg(kani)]
pub(crate) fn abort_process() {
    kani::assume(false)
}
#[cfg(not(kani))]
pub(crate) fn abort_process() {
    std::process::abort()
}
