//! `libsodium_rs::crypto_pwhash` — only `pwhash` with Argon2id and the constants the repository reads, see the crate header.
use crate::{Result, SodiumError};
use vmodel_core::{alg, uf, Buf};

pub const ALG_DEFAULT: i32 = 2;
pub const ALG_ARGON2ID13: i32 = 2;
pub const ALG_ARGON2I13: i32 = 1;
pub const BYTES_MIN: usize = 16;
pub const BYTES_MAX: usize = 0x001f_ffff_ffe0;
pub const PASSWD_MIN: usize = 0;
pub const PASSWD_MAX: usize = 4294967295;
pub const SALTBYTES: usize = 16;
pub const OPSLIMIT_MIN: u64 = 1;
pub const OPSLIMIT_MAX: u64 = 4294967295;
pub const MEMLIMIT_MIN: usize = 8192;
pub const MEMLIMIT_MAX: usize = 4_398_046_510_080;
pub const OPSLIMIT_INTERACTIVE: u64 = 2;
pub const MEMLIMIT_INTERACTIVE: usize = 67108864;
pub const OPSLIMIT_MODERATE: u64 = 3;
pub const MEMLIMIT_MODERATE: usize = 268435456;
pub const OPSLIMIT_SENSITIVE: u64 = 4;
pub const MEMLIMIT_SENSITIVE: usize = 1073741824;
/// crypto_pwhash_argon2i_OPSLIMIT_MIN (only reachable with ALG_ARGON2I13)
const ARGON2I_OPSLIMIT_MIN: u64 = 3;

pub fn pwhash(out_len: usize, password: &[u8], salt: &[u8], opslimit: u64, memlimit: usize, alg: i32) -> Result<Vec<u8>> {
    // the wrapper's checks
    if !(BYTES_MIN..=BYTES_MAX).contains(&out_len) {
        return Err(SodiumError::InvalidInput("pwhash output length"));
    }
    if password.len() > PASSWD_MAX {
        return Err(SodiumError::InvalidInput("pwhash password length"));
    }
    if salt.len() != SALTBYTES {
        return Err(SodiumError::InvalidInput("salt must be exactly 16 bytes"));
    }
    if !(OPSLIMIT_MIN..=OPSLIMIT_MAX).contains(&opslimit) {
        return Err(SodiumError::InvalidInput("opslimit out of range"));
    }
    if !(MEMLIMIT_MIN..=MEMLIMIT_MAX).contains(&memlimit) {
        return Err(SodiumError::InvalidInput("memlimit out of range"));
    }
    // the C function's checks that the wrapper does not already make
    if alg != ALG_ARGON2ID13 && alg != ALG_ARGON2I13 {
        return Err(SodiumError::OperationError("password hashing failed"));
    }
    if alg == ALG_ARGON2I13 && opslimit < ARGON2I_OPSLIMIT_MIN {
        return Err(SodiumError::OperationError("password hashing failed"));
    }
    assert!(alg == ALG_ARGON2ID13, "[model] capacity: only Argon2id is modelled");
    assert!(out_len <= vmodel_core::OCAP, "[model] capacity: pwhash output longer than OCAP");
    // argon2id_hash_raw(t = opslimit, m = memlimit / 1024 KiB (floor), lanes = 1, pw, salt)
    let mut m: Buf<28> = Buf::new();
    m.push(&((memlimit / 1024) as u32).to_be_bytes());
    m.push(&(opslimit as u32).to_be_bytes());
    m.push(&1u32.to_be_bytes());
    m.push(salt);
    let mut output = vec![0u8; out_len];
    uf(alg::ARGON2ID, true, password, m.as_slice(), &mut output);
    Ok(output)
}
