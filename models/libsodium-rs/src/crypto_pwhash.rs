//! `libsodium_rs::crypto_pwhash` — only `pwhash` with Argon2id and the constants the repository reads, see the crate header.
use crate::{Result, SodiumError};
use vmodel_core::{alg, uf, Buf};

pub const ALG_DEFAULT: i32 = 2;
pub const ALG_ARGON2ID13: i32 = 2;
pub const ALG_ARGON2I13: i32 = 1;
pub const BYTES_MIN: usize = 16;
pub const BYTES_MAX: usize = 0x001f_ffff_ffe0;
pub const PASSWD_MIN: usize = 0;
pub const PASSWD_MAX: usize = 4294967295;
pub const SALTBYTES: usize = 16;
pub const OPSLIMIT_MIN: u64 = 1;
pub const OPSLIMIT_MAX: u64 = 4294967295;
pub const MEMLIMIT_MIN: usize = 8192;
pub const MEMLIMIT_MAX: usize = 4_398_046_510_080;
pub const OPSLIMIT_INTERACTIVE: u64 = 2;
pub const MEMLIMIT_INTERACTIVE: usize = 67108864;
pub const OPSLIMIT_MODERATE: u64 = 3;
pub const MEMLIMIT_MODERATE: usize = 268435456;
pub const OPSLIMIT_SENSITIVE: u64 = 4;
pub const MEMLIMIT_SENSITIVE: usize = 1073741824;
/// crypto_pwhash_argon2i_OPSLIMIT_MIN (only reachable with ALG_ARGON2I13)
const ARGON2I_OPSLIMIT_MIN: u64 = 3;

/// Branch-free in front of the uninterpreted function: the argument checks are evaluated into one flag, the function is
/// evaluated unconditionally and the flag only selects Ok/Err at the very end (a symbolic early return in front of a `uf` call
/// would leave a symbolic call count behind — units/README.md rule 3b). Evaluating a deterministic function on rejected
/// arguments is unobservable.
pub fn pwhash(out_len: usize, password: &[u8], salt: &[u8], opslimit: u64, memlimit: usize, alg: i32) -> Result<Vec<u8>> {
    // lengths are concrete in every harness: these three checks never branch symbolically
    if !(BYTES_MIN..=BYTES_MAX).contains(&out_len) {
        return Err(SodiumError::InvalidInput("pwhash output length"));
    }
    if password.len() > PASSWD_MAX {
        return Err(SodiumError::InvalidInput("pwhash password length"));
    }
    if salt.len() != SALTBYTES {
        return Err(SodiumError::InvalidInput("salt must be exactly 16 bytes"));
    }
    assert!(out_len <= vmodel_core::OCAP, "[model] capacity: pwhash output longer than OCAP");
    // the wrapper's range checks ...
    let mut valid = (OPSLIMIT_MIN..=OPSLIMIT_MAX).contains(&opslimit) & (MEMLIMIT_MIN..=MEMLIMIT_MAX).contains(&memlimit);
    // ... and the C function's checks that the wrapper does not already make
    valid &= (alg == ALG_ARGON2ID13) | ((alg == ALG_ARGON2I13) & (opslimit >= ARGON2I_OPSLIMIT_MIN));
    assert!(alg != ALG_ARGON2I13, "[model] capacity: only Argon2id is modelled");
    // argon2id_hash_raw(t = opslimit, m = memlimit / 1024 KiB (floor), lanes = 1, pw, salt)
    let mut m: Buf<28> = Buf::new();
    m.push(&((memlimit / 1024) as u32).to_be_bytes());
    m.push(&(opslimit as u32).to_be_bytes());
    m.push(&1u32.to_be_bytes());
    m.push(salt);
    let mut output = vec![0u8; out_len];
    uf(alg::ARGON2ID, true, password, m.as_slice(), &mut output);
    if valid {
        Ok(output)
    } else {
        Err(SodiumError::InvalidInput("opslimit / memlimit out of range"))
    }
}
