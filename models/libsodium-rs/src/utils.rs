//! `libsodium_rs::utils` — only `compare` (used for tag comparison) and `memzero`.

/// `sodium_compare(a, b, min(|a|, |b|))`: the two strings are compared as little-endian numbers over the first
/// min(|a|,|b|) bytes (exactly what libsodium-rs 0.2.0 passes to the C function): -1, 0 or 1. 0 iff those bytes are all equal.
/// This is a transcription of the (branch-free) C function, not an abstraction.
pub fn compare(a: &[u8], b: &[u8]) -> i32 {
    let n = if a.len() < b.len() { a.len() } else { b.len() };
    let mut gt: u16 = 0;
    let mut eq: u16 = 1;
    let mut i = n;
    while i != 0 {
        i -= 1;
        let x1 = a[i] as u16;
        let x2 = b[i] as u16;
        gt |= (x2.wrapping_sub(x1) >> 8) & eq;
        eq &= ((x2 ^ x1).wrapping_sub(1)) >> 8;
    }
    let gt = (gt & 1) as i32;
    let eq = (eq & 1) as i32;
    gt + gt + eq - 1
}

/// `sodium_memcmp == 0` with the wrapper's length check.
pub fn memcmp(a: &[u8], b: &[u8]) -> bool {
    if a.len() != b.len() {
        return false;
    }
    let mut same = true;
    let mut i = 0;
    while i < a.len() {
        same &= a[i] == b[i];
        i += 1;
    }
    same
}

pub fn memzero(buf: &mut [u8]) {
    let mut i = 0;
    while i < buf.len() {
        buf[i] = 0;
        i += 1;
    }
}
