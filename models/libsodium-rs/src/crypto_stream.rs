//! `libsodium_rs::crypto_stream` — `Key` and the `xchacha20` submodule, see the crate header. Same keystream function as
//! models/chacha20 and vspec::v4::xchacha20_xor: 64-byte chunks  uf(XCHACHA20_KS, not ideal, key, nonce(24) ‖ le32(chunk)).
use crate::{Result, SodiumError};

pub const KEYBYTES: usize = 32;
pub const NONCEBYTES: usize = 24;

#[derive(Debug, Clone, Eq, PartialEq)]
pub struct Key([u8; KEYBYTES]);

impl Key {
    pub fn from_slice(slice: &[u8]) -> Result<Self> {
        if slice.len() != KEYBYTES {
            return Err(SodiumError::InvalidInput("stream key must be exactly 32 bytes"));
        }
        let mut key = [0u8; KEYBYTES];
        key.copy_from_slice(slice);
        Ok(Key(key))
    }
    pub fn as_bytes(&self) -> &[u8] {
        &self.0
    }
}
impl TryFrom<&[u8]> for Key {
    type Error = SodiumError;
    fn try_from(bytes: &[u8]) -> core::result::Result<Self, Self::Error> {
        Key::from_slice(bytes)
    }
}
impl AsRef<[u8]> for Key {
    fn as_ref(&self) -> &[u8] {
        &self.0
    }
}
impl From<[u8; KEYBYTES]> for Key {
    fn from(bytes: [u8; KEYBYTES]) -> Self {
        Self(bytes)
    }
}
impl From<Key> for [u8; KEYBYTES] {
    fn from(key: Key) -> [u8; KEYBYTES] {
        key.0
    }
}

pub mod xchacha20 {
    use super::Key;
    use crate::{Result, SodiumError};
    use vmodel_core::{alg, uf};

    pub const KEYBYTES: usize = 32;
    pub const NONCEBYTES: usize = 24;
    /// keystream positions 0..64*KS_CHUNKS are modelled; beyond that: "[model] capacity"
    pub const KS_CHUNKS: usize = 2;

    #[derive(Debug, Clone, PartialEq, Eq)]
    pub struct Nonce([u8; NONCEBYTES]);

    impl Nonce {
        pub fn from_bytes(bytes: [u8; NONCEBYTES]) -> Self {
            Self(bytes)
        }
        pub fn try_from_slice(bytes: &[u8]) -> Result<Self> {
            if bytes.len() != NONCEBYTES {
                return Err(SodiumError::InvalidNonce("nonce must be exactly 24 bytes"));
            }
            let mut nonce_bytes = [0u8; NONCEBYTES];
            nonce_bytes.copy_from_slice(bytes);
            Ok(Self(nonce_bytes))
        }
        pub fn as_bytes(&self) -> &[u8; NONCEBYTES] {
            &self.0
        }
    }
    impl AsRef<[u8]> for Nonce {
        fn as_ref(&self) -> &[u8] {
            &self.0
        }
    }
    impl TryFrom<&[u8]> for Nonce {
        type Error = SodiumError;
        fn try_from(slice: &[u8]) -> core::result::Result<Self, Self::Error> {
            Self::try_from_slice(slice)
        }
    }
    impl From<[u8; NONCEBYTES]> for Nonce {
        fn from(bytes: [u8; NONCEBYTES]) -> Self {
            Self(bytes)
        }
    }
    impl From<Nonce> for [u8; NONCEBYTES] {
        fn from(nonce: Nonce) -> [u8; NONCEBYTES] {
            nonce.0
        }
    }

    /// `crypto_stream_xchacha20_xor`: message XOR keystream(key, nonce)[0 .. |message|] in a fresh Vec. Never fails
    /// (the real wrapper has no failing path either).
    pub fn stream_xor(message: &[u8], nonce: &Nonce, key: &Key) -> Result<Vec<u8>> {
        let n = message.len();
        assert!(n <= 64 * KS_CHUNKS, "[model] capacity: keystream position beyond the modelled chunks");
        // never a zero-capacity allocation: CBMC loses constant lengths behind pointers to zero-sized objects
        let mut output = if n == 0 { Vec::with_capacity(1) } else { vec![0u8; n] };
        let mut c = 0;
        while c * 64 < n {
            let mut m = [0u8; 28];
            m[..24].copy_from_slice(&nonce.0);
            m[24..].copy_from_slice(&(c as u32).to_le_bytes());
            let mut ks = [0u8; 64];
            uf(alg::XCHACHA20_KS, false, key.as_bytes(), &m, &mut ks);
            let mut i = 0;
            while i < 64 && c * 64 + i < n {
                output[c * 64 + i] = message[c * 64 + i] ^ ks[i];
                i += 1;
            }
            c += 1;
        }
        Ok(output)
    }
}
