//! `libsodium_rs::crypto_scalarmult` — only the `curve25519` submodule (X25519), see the crate header.
pub const BYTES: usize = 32;
pub const SCALARBYTES: usize = 32;

pub mod curve25519 {
    use crate::crypto_sign::{clamp, montgomery_of, pk_of_scalar_raw};
    use crate::{assume, Result, SodiumError};
    use vmodel_core::{alg, uf};

    pub const BYTES: usize = 32;
    pub const SCALARBYTES: usize = 32;

    /// libsodium's `has_small_order` blacklist (x25519_ref10.c), transcribed literally; the top bit of the last byte is ignored.
    const BLACKLIST: [[u8; 32]; 7] = [
        [0x00; 32],
        [
            0x01, 0x00, 0x00, 0x00, 0x00, 0x00, 0x00, 0x00, 0x00, 0x00, 0x00, 0x00, 0x00, 0x00, 0x00, 0x00, 0x00, 0x00, 0x00, 0x00, 0x00, 0x00,
            0x00, 0x00, 0x00, 0x00, 0x00, 0x00, 0x00, 0x00, 0x00, 0x00,
        ],
        [
            0xe0, 0xeb, 0x7a, 0x7c, 0x3b, 0x41, 0xb8, 0xae, 0x16, 0x56, 0xe3, 0xfa, 0xf1, 0x9f, 0xc4, 0x6a, 0xda, 0x09, 0x8d, 0xeb, 0x9c, 0x32,
            0xb1, 0xfd, 0x86, 0x62, 0x05, 0x16, 0x5f, 0x49, 0xb8, 0x00,
        ],
        [
            0x5f, 0x9c, 0x95, 0xbc, 0xa3, 0x50, 0x8c, 0x24, 0xb1, 0xd0, 0xb1, 0x55, 0x9c, 0x83, 0xef, 0x5b, 0x04, 0x44, 0x5c, 0xc4, 0x58, 0x1c,
            0x8e, 0x86, 0xd8, 0x22, 0x4e, 0xdd, 0xd0, 0x9f, 0x11, 0x57,
        ],
        [
            0xec, 0xff, 0xff, 0xff, 0xff, 0xff, 0xff, 0xff, 0xff, 0xff, 0xff, 0xff, 0xff, 0xff, 0xff, 0xff, 0xff, 0xff, 0xff, 0xff, 0xff, 0xff,
            0xff, 0xff, 0xff, 0xff, 0xff, 0xff, 0xff, 0xff, 0xff, 0x7f,
        ],
        [
            0xed, 0xff, 0xff, 0xff, 0xff, 0xff, 0xff, 0xff, 0xff, 0xff, 0xff, 0xff, 0xff, 0xff, 0xff, 0xff, 0xff, 0xff, 0xff, 0xff, 0xff, 0xff,
            0xff, 0xff, 0xff, 0xff, 0xff, 0xff, 0xff, 0xff, 0xff, 0x7f,
        ],
        [
            0xee, 0xff, 0xff, 0xff, 0xff, 0xff, 0xff, 0xff, 0xff, 0xff, 0xff, 0xff, 0xff, 0xff, 0xff, 0xff, 0xff, 0xff, 0xff, 0xff, 0xff, 0xff,
            0xff, 0xff, 0xff, 0xff, 0xff, 0xff, 0xff, 0xff, 0xff, 0x7f,
        ],
    ];

    /// Is `p` one of the small-order encodings libsodium rejects? (branch-free, like the C function)
    pub fn small_order(p: &[u8; 32]) -> bool {
        let mut hit = false;
        let mut i = 0;
        while i < 7 {
            let mut d: u8 = 0;
            let mut j = 0;
            while j < 31 {
                d |= p[j] ^ BLACKLIST[i][j];
                j += 1;
            }
            d |= (p[31] & 0x7f) ^ BLACKLIST[i][31];
            hit |= d == 0;
            i += 1;
        }
        hit
    }

    /// X25519 public point of a (to be clamped) scalar: Montgomery form of the Edwards base multiple.
    pub(crate) fn public_point(n: &[u8; 32]) -> [u8; 32] {
        let a = montgomery_of(&pk_of_scalar_raw(&clamp(*n)));
        assume(!small_order(&a));
        a
    }

    /// commutative uninterpreted DH: uf(X25519_DH, sort(a, p))
    fn shared(a: &[u8; 32], p: &[u8; 32]) -> [u8; 32] {
        let mut a_first = true;
        let mut decided = false;
        let mut i = 0;
        while i < 32 {
            if !decided && a[i] != p[i] {
                a_first = a[i] < p[i];
                decided = true;
            }
            i += 1;
        }
        let mut k = [0u8; 64];
        if a_first {
            k[..32].copy_from_slice(a);
            k[32..].copy_from_slice(p);
        } else {
            k[..32].copy_from_slice(p);
            k[32..].copy_from_slice(a);
        }
        let mut o = [0u8; 32];
        uf(alg::X25519_DH, true, &k, &[], &mut o);
        o
    }

    pub fn scalarmult(secret_key: &[u8], public_key: &[u8]) -> Result<[u8; BYTES]> {
        if secret_key.len() != SCALARBYTES {
            return Err(SodiumError::InvalidInput("secret key must be exactly 32 bytes"));
        }
        if public_key.len() != BYTES {
            return Err(SodiumError::InvalidInput("public key must be exactly 32 bytes"));
        }
        let mut n = [0u8; 32];
        n.copy_from_slice(secret_key);
        let mut p = [0u8; 32];
        p.copy_from_slice(public_key);
        // branch-free in front of the uninterpreted functions (units/README.md rule 3b)
        let bad = small_order(&p);
        let a = public_point(&n);
        let q = shared(&a, &p);
        if crate::model::honest_points() {
            assume(!bad);
            return Ok(q);
        }
        if bad {
            Err(SodiumError::OperationError("curve25519 scalarmult failed (result may be all zeros)"))
        } else {
            Ok(q)
        }
    }

    pub fn scalarmult_base(secret_key: &[u8]) -> Result<[u8; BYTES]> {
        if secret_key.len() != SCALARBYTES {
            return Err(SodiumError::InvalidInput("secret key must be exactly 32 bytes"));
        }
        let mut n = [0u8; 32];
        n.copy_from_slice(secret_key);
        Ok(public_point(&n))
    }
}
