//! `libsodium_rs::crypto_sign` — Ed25519 as an ideal signature, see the crate header. Conventions identical to
//! models/ed25519-dalek + models/curve25519-dalek and vspec::v4::{ed25519_expand, ed25519_pk, ed25519_sign, ed25519_verify}.
use crate::{assume, Result, SodiumError};
use vmodel_core::{alg, uf, was_output_of_kp};

pub const PUBLICKEYBYTES: usize = 32;
pub const SECRETKEYBYTES: usize = 64;
pub const BYTES: usize = 64;
pub const SEEDBYTES: usize = 32;

#[derive(Debug, Clone, Eq, PartialEq)]
pub struct PublicKey([u8; PUBLICKEYBYTES]);
#[derive(Debug, Clone, Eq, PartialEq)]
pub struct SecretKey([u8; SECRETKEYBYTES]);
pub struct KeyPair {
    pub public_key: PublicKey,
    pub secret_key: SecretKey,
}

impl PublicKey {
    /// LENGTH CHECK ONLY, as the real wrapper (no point validation).
    pub fn from_bytes(bytes: &[u8]) -> Result<Self> {
        if bytes.len() != PUBLICKEYBYTES {
            return Err(SodiumError::InvalidInput("public key must be exactly 32 bytes"));
        }
        let mut key = [0u8; PUBLICKEYBYTES];
        key.copy_from_slice(bytes);
        Ok(Self(key))
    }
    pub fn from_secret_key(secret_key: &SecretKey) -> Result<Self> {
        // crypto_sign_ed25519_sk_to_pk: copies the second half
        let mut pk = [0u8; PUBLICKEYBYTES];
        pk.copy_from_slice(&secret_key.0[32..]);
        Ok(PublicKey(pk))
    }
    pub fn as_bytes(&self) -> &[u8; PUBLICKEYBYTES] {
        &self.0
    }
    pub const fn from_bytes_exact(bytes: [u8; PUBLICKEYBYTES]) -> Self {
        Self(bytes)
    }
}
impl AsRef<[u8]> for PublicKey {
    fn as_ref(&self) -> &[u8] {
        &self.0
    }
}
impl From<[u8; PUBLICKEYBYTES]> for PublicKey {
    fn from(bytes: [u8; PUBLICKEYBYTES]) -> Self {
        Self(bytes)
    }
}
impl From<PublicKey> for [u8; PUBLICKEYBYTES] {
    fn from(key: PublicKey) -> [u8; PUBLICKEYBYTES] {
        key.0
    }
}
impl TryFrom<&[u8]> for PublicKey {
    type Error = SodiumError;
    fn try_from(bytes: &[u8]) -> core::result::Result<Self, Self::Error> {
        PublicKey::from_bytes(bytes)
    }
}

impl SecretKey {
    /// LENGTH CHECK ONLY, as the real wrapper (no seed / public-half consistency check).
    pub fn from_bytes(bytes: &[u8]) -> Result<Self> {
        if bytes.len() != SECRETKEYBYTES {
            return Err(SodiumError::InvalidInput("secret key must be exactly 64 bytes"));
        }
        let mut key = [0u8; SECRETKEYBYTES];
        key.copy_from_slice(bytes);
        Ok(SecretKey(key))
    }
    pub fn as_bytes(&self) -> &[u8; SECRETKEYBYTES] {
        &self.0
    }
    pub const fn from_bytes_exact(bytes: [u8; SECRETKEYBYTES]) -> Self {
        Self(bytes)
    }
}
impl AsRef<[u8]> for SecretKey {
    fn as_ref(&self) -> &[u8] {
        &self.0
    }
}
impl From<[u8; SECRETKEYBYTES]> for SecretKey {
    fn from(bytes: [u8; SECRETKEYBYTES]) -> Self {
        Self(bytes)
    }
}
impl From<SecretKey> for [u8; SECRETKEYBYTES] {
    fn from(key: SecretKey) -> [u8; SECRETKEYBYTES] {
        key.0
    }
}
impl TryFrom<&[u8]> for SecretKey {
    type Error = SodiumError;
    fn try_from(bytes: &[u8]) -> core::result::Result<Self, Self::Error> {
        SecretKey::from_bytes(bytes)
    }
}

// ------------------------------------------------------------------------------------------------ primitives
pub(crate) fn clamp(mut k: [u8; 32]) -> [u8; 32] {
    k[0] &= 248;
    k[31] &= 127;
    k[31] |= 64;
    k
}

/// (scalar, hash_prefix) = uf(SHA512_EXPAND, seed); the scalar half is the *clamped* secret scalar (assumed: see crate header).
pub(crate) fn expand(seed: &[u8]) -> ([u8; 32], [u8; 32]) {
    let mut o = [0u8; 64];
    uf(alg::SHA512_EXPAND, true, seed, &[], &mut o);
    let mut s = [0u8; 32];
    s.copy_from_slice(&o[..32]);
    let mut p = [0u8; 32];
    p.copy_from_slice(&o[32..]);
    assume(s[0] & 7 == 0 && s[31] & 0xC0 == 0x40);
    (s, p)
}

/// uninterpreted validity predicate of a compressed Edwards point (same function as curve25519_dalek::model_point_valid)
pub(crate) fn point_valid(b: &[u8; 32]) -> bool {
    let mut o = [0u8; 1];
    uf(alg::ED25519_VALID, false, b, &[], &mut o);
    o[0] & 1 == 1
}

/// Edwards public key of a scalar: uf(ED25519_PK, scalar), injective, always a valid point.
pub(crate) fn pk_of_scalar(scalar: &[u8; 32]) -> [u8; 32] {
    let o = pk_of_scalar_raw(scalar);
    assume(point_valid(&o));
    o
}
/// the same function without spending a table entry on stating the validity of the result
pub(crate) fn pk_of_scalar_raw(scalar: &[u8; 32]) -> [u8; 32] {
    let mut o = [0u8; 32];
    uf(alg::ED25519_PK, true, scalar, &[], &mut o);
    o
}

/// Edwards -> Montgomery (birational map): uf(X25519_PK, edwards bytes), injective; results are never small-order encodings.
pub(crate) fn montgomery_of(ed: &[u8; 32]) -> [u8; 32] {
    let mut o = [0u8; 32];
    uf(alg::X25519_PK, true, ed, &[], &mut o);
    o
}

// ------------------------------------------------------------------------------------------------ API
pub fn keypair_from_seed(seed: &[u8; SEEDBYTES]) -> Result<KeyPair> {
    let (scalar, _prefix) = expand(seed);
    let pk = pk_of_scalar(&scalar);
    let mut sk = [0u8; SECRETKEYBYTES];
    sk[..32].copy_from_slice(seed);
    sk[32..].copy_from_slice(&pk);
    Ok(KeyPair { public_key: PublicKey(pk), secret_key: SecretKey(sk) })
}

impl KeyPair {
    pub fn from_seed(seed: &[u8]) -> Result<Self> {
        if seed.len() != SEEDBYTES {
            return Err(SodiumError::InvalidInput("invalid seed length"));
        }
        let mut s = [0u8; SEEDBYTES];
        s.copy_from_slice(seed);
        keypair_from_seed(&s)
    }
    /// crypto_sign_keypair: one 32-byte RNG draw as the seed.
    pub fn generate() -> Result<Self> {
        let mut seed = [0u8; SEEDBYTES];
        crate::random::fill_bytes(&mut seed);
        keypair_from_seed(&seed)
    }
    pub fn into_tuple(self) -> (PublicKey, SecretKey) {
        (self.public_key, self.secret_key)
    }
}

pub fn secret_key_to_seed(secret_key: &SecretKey) -> Result<[u8; SEEDBYTES]> {
    let mut seed = [0u8; SEEDBYTES];
    seed.copy_from_slice(&secret_key.0[..32]);
    Ok(seed)
}

/// crypto_sign_detached: scalar and hash prefix from sk[..32], public key bytes sk[32..] taken *as given*.
pub fn sign_detached(message: &[u8], secret_key: &SecretKey) -> Result<[u8; BYTES]> {
    let (scalar, prefix) = expand(&secret_key.0[..32]);
    let own = pk_of_scalar(&scalar);
    let mut k = [0u8; 64];
    k[..32].copy_from_slice(&secret_key.0[32..]);
    k[32..].copy_from_slice(&prefix);
    let a = if own[..] == secret_key.0[32..] { alg::ED25519_SIG } else { alg::ED25519_SIG_INVALID };
    let mut o = [0u8; 64];
    uf(a, true, &k, message, &mut o);
    Ok(o)
}

/// IDEAL SIGNATURE: valid iff `signature` was produced by the signing function for exactly (public_key, message).
pub fn verify_detached(signature: &[u8; BYTES], message: &[u8], public_key: &PublicKey) -> bool {
    was_output_of_kp(alg::ED25519_SIG, &public_key.0, message, signature)
}

/// Branch-free in front of the second uninterpreted function (units/README.md rule 3b): validity only selects Ok/Err at the end.
pub fn ed25519_pk_to_curve25519(ed25519_pk: &PublicKey) -> Result<[u8; 32]> {
    let ok = point_valid(&ed25519_pk.0);
    let x = montgomery_of(&ed25519_pk.0);
    if crate::model::honest_points() {
        assume(ok);
        assume(!crate::crypto_scalarmult::curve25519::small_order(&x));
        return Ok(x);
    }
    if ok {
        assume(!crate::crypto_scalarmult::curve25519::small_order(&x));
        Ok(x)
    } else {
        Err(SodiumError::OperationError("Failed to convert Ed25519 public key to Curve25519"))
    }
}

pub fn ed25519_sk_to_curve25519(ed25519_sk: &SecretKey) -> Result<[u8; 32]> {
    let (scalar, _prefix) = expand(&ed25519_sk.0[..32]);
    Ok(clamp(scalar))
}
