//! `libsodium_rs::random` — see the crate header for the contract (infallible by API; a failing OS source aborts the process).
use crate::abort_process;
use vmodel_core::DRAW_CAP;

/// `randombytes_buf` into a fresh Vec of `size` bytes. One logged draw per call.
pub fn bytes(size: usize) -> Vec<u8> {
    let mut buf = vec![0u8; size];
    fill_bytes(&mut buf);
    buf
}

/// `randombytes_buf` into `buf`. One logged draw per call.
///
/// The draw goes into a local array first and is copied out unconditionally once the failing path has been terminated:
/// `vmodel_core::rng_fill` writes its buffer under the (symbolic) success condition, and with such a guarded write into the
/// caller's large heap buffer CBMC 6.11 returned byte-swapped values for later 4-byte big-endian reads of *other* bytes of
/// that buffer (observed in v4s_pbkw wrap_fail_closed_h, see units/v4s/NOTES.md). The local copy keeps guarded writes out of
/// caller memory; the observable behaviour (all of `buf` = the logged draw, or no return) is the same.
pub fn fill_bytes(buf: &mut [u8]) {
    let n = buf.len();
    assert!(n <= DRAW_CAP, "[model] capacity: RNG draw longer than DRAW_CAP");
    let mut tmp = [0u8; DRAW_CAP];
    if !vmodel_core::rng_fill(&mut tmp[..n]) {
        // libsodium: randombytes_sysrandom_buf -> sodium_misuse() -> abort(). The call never returns to Rust code.
        abort_process();
    }
    let mut i = 0;
    while i < n {
        buf[i] = tmp[i];
        i += 1;
    }
}
