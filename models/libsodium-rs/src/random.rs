//! `libsodium_rs::random` — see the crate header for the contract (infallible by API; a failing OS source aborts the process).
use crate::abort_process;

/// `randombytes_buf` into a fresh Vec of `size` bytes. One logged draw per call.
pub fn bytes(size: usize) -> Vec<u8> {
    let mut buf = vec![0u8; size];
    fill_bytes(&mut buf);
    buf
}

/// `randombytes_buf` into `buf`. One logged draw per call.
pub fn fill_bytes(buf: &mut [u8]) {
    if !vmodel_core::rng_fill(buf) {
        // libsodium: randombytes_sysrandom_buf -> sodium_misuse() -> abort(). The call never returns to Rust code.
        abort_process();
    }
}
