//! `libsodium_rs::crypto_generichash` — BLAKE2b, see the crate header. Same uninterpreted function as models/blake2:
//!   keyed   : uf(BLAKE2B_MAC, ideal, key = key,  msg = streamed message, |out| = output_len)
//!   unkeyed : uf(BLAKE2B,     ideal, key = [],   msg = streamed message, |out| = output_len)
//!
//! Representation: a `State` is a small handle (slot index, keyed flag, output length); key and streamed message live in a
//! static arena. Reason: the repository moves states through `Result<(Key, State), _>`; CBMC loses the constant length fields of
//! a large struct (with > 64-byte arrays inside) when it travels through an enum payload, and every later loop over the
//! message would be unrolled to the global bound. The handle keeps all lengths constant-foldable.
#![allow(static_mut_refs)]
use crate::{Result, SodiumError};
use vmodel_core::{alg, uf, Buf, KCAP, MCAP};

pub const BYTES_MIN: usize = 16;
pub const BYTES_MAX: usize = 64;
pub const BYTES: usize = 32;
pub const KEYBYTES_MIN: usize = 16;
pub const KEYBYTES_MAX: usize = 64;
pub const KEYBYTES: usize = 32;

/// states per harness
pub const STATES: usize = 20;
struct Slot {
    key: Buf<KCAP>,
    msg: Buf<MCAP>,
}
const EMPTY: Slot = Slot { key: Buf::new(), msg: Buf::new() };
static mut ARENA: [Slot; STATES] = [EMPTY; STATES];
// starts from a distinctive magic, not 0: see `model` in lib.rs (a mutable static must not share its bytes with a program constant)
const NEXT_MAGIC: usize = 0x736f_6469_756d_4e00;
static mut NEXT: usize = NEXT_MAGIC;

/// Streaming BLAKE2b state: `update` concatenates, `finalize` evaluates the uninterpreted function once.
/// NOTE: no field with a niche (bool, reference, NonNull, enum): rustc would store the discriminant of
/// `Result<(Key, State), PasetoError>` in that niche, and CBMC does not constant-fold reads through a niche-encoded enum whose
/// payload also holds symbolic bytes — every length behind it would become symbolic (measured: units/v4s/NOTES.md).
pub struct State {
    slot: usize,
    keyed: usize, // 0 = unkeyed, 1 = keyed
    output_len: usize,
}

impl State {
    /// Same argument checks as the real wrapper: 16 <= output_len <= 64; a key, if given, has 16..=64 bytes.
    pub fn new(key: Option<&[u8]>, output_len: usize) -> Result<Self> {
        if !(BYTES_MIN..=BYTES_MAX).contains(&output_len) {
            return Err(SodiumError::InvalidInput("generichash output length"));
        }
        if let Some(key) = key {
            if key.len() < KEYBYTES_MIN || key.len() > KEYBYTES_MAX {
                return Err(SodiumError::InvalidInput("generichash key length"));
            }
        }
        unsafe {
            let slot = NEXT - NEXT_MAGIC;
            assert!(slot < STATES, "[model] capacity: more generichash states than STATES");
            NEXT = NEXT_MAGIC + slot + 1;
            ARENA[slot].key = Buf::new();
            ARENA[slot].msg = Buf::new();
            let mut keyed = 0;
            if let Some(key) = key {
                ARENA[slot].key.push(key);
                keyed = 1;
            }
            Ok(State { slot, keyed, output_len })
        }
    }

    pub fn update(&mut self, input: &[u8]) {
        unsafe { ARENA[self.slot].msg.push(input) }
    }

    pub fn finalize(&mut self) -> Vec<u8> {
        let mut out = vec![0u8; self.output_len];
        unsafe {
            let s = &ARENA[self.slot];
            if self.keyed == 1 {
                uf(alg::BLAKE2B_MAC, true, s.key.as_slice(), s.msg.as_slice(), &mut out);
            } else {
                uf(alg::BLAKE2B, true, &[], s.msg.as_slice(), &mut out);
            }
        }
        out
    }
}

/// Ghost accessors for contract harnesses (not part of the real API): what a state has been keyed with / fed so far.
impl State {
    pub fn model_key(&self) -> Option<&[u8]> {
        if self.keyed == 1 {
            Some(unsafe { ARENA[self.slot].key.as_slice() })
        } else {
            None
        }
    }
    pub fn model_message(&self) -> &[u8] {
        unsafe { ARENA[self.slot].msg.as_slice() }
    }
    pub fn model_output_len(&self) -> usize {
        self.output_len
    }
}

/// One-shot form (same checks, same function).
pub fn generichash(input: &[u8], key: Option<&[u8]>, output_len: usize) -> Result<Vec<u8>> {
    let mut st = State::new(key, output_len)?;
    st.update(input);
    Ok(st.finalize())
}
