//! `libsodium_rs::crypto_generichash` — BLAKE2b, see the crate header. Same uninterpreted function as models/blake2:
//!   keyed   : uf(BLAKE2B_MAC, ideal, key = key,  msg = streamed message, |out| = output_len)
//!   unkeyed : uf(BLAKE2B,     ideal, key = [],   msg = streamed message, |out| = output_len)
use crate::{Result, SodiumError};
use vmodel_core::{alg, uf, Buf, KCAP, MCAP};

pub const BYTES_MIN: usize = 16;
pub const BYTES_MAX: usize = 64;
pub const BYTES: usize = 32;
pub const KEYBYTES_MIN: usize = 16;
pub const KEYBYTES_MAX: usize = 64;
pub const KEYBYTES: usize = 32;

/// Streaming BLAKE2b state: `update` concatenates, `finalize` evaluates the uninterpreted function once.
pub struct State {
    keyed: bool,
    key: Buf<KCAP>,
    msg: Buf<MCAP>,
    output_len: usize,
}

impl State {
    /// Same argument checks as the real wrapper: 16 <= output_len <= 64; a key, if given, has 16..=64 bytes.
    pub fn new(key: Option<&[u8]>, output_len: usize) -> Result<Self> {
        if !(BYTES_MIN..=BYTES_MAX).contains(&output_len) {
            return Err(SodiumError::InvalidInput("generichash output length"));
        }
        let mut k = Buf::new();
        let mut keyed = false;
        if let Some(key) = key {
            if key.len() < KEYBYTES_MIN || key.len() > KEYBYTES_MAX {
                return Err(SodiumError::InvalidInput("generichash key length"));
            }
            k.push(key);
            keyed = true;
        }
        Ok(State { keyed, key: k, msg: Buf::new(), output_len })
    }

    pub fn update(&mut self, input: &[u8]) {
        self.msg.push(input)
    }

    pub fn finalize(&mut self) -> Vec<u8> {
        let mut out = vec![0u8; self.output_len];
        if self.keyed {
            uf(alg::BLAKE2B_MAC, true, self.key.as_slice(), self.msg.as_slice(), &mut out);
        } else {
            uf(alg::BLAKE2B, true, &[], self.msg.as_slice(), &mut out);
        }
        out
    }
}

/// One-shot form (same checks, same function).
pub fn generichash(input: &[u8], key: Option<&[u8]>, output_len: usize) -> Result<Vec<u8>> {
    let mut st = State::new(key, output_len)?;
    st.update(input);
    Ok(st.finalize())
}
