//! `libsodium_rs::crypto_box` — only the key types and `KeyPair::generate` (ephemeral X25519 key pair), see the crate header.
use crate::{Result, SodiumError};

pub const PUBLICKEYBYTES: usize = 32;
pub const SECRETKEYBYTES: usize = 32;

#[derive(Clone, Eq, PartialEq)]
pub struct PublicKey([u8; PUBLICKEYBYTES]);
#[derive(Clone, Eq, PartialEq)]
pub struct SecretKey([u8; SECRETKEYBYTES]);
pub struct KeyPair {
    pub public_key: PublicKey,
    pub secret_key: SecretKey,
}

impl PublicKey {
    pub fn from_bytes(bytes: &[u8]) -> Result<Self> {
        if bytes.len() != PUBLICKEYBYTES {
            return Err(SodiumError::InvalidKey("public key must be exactly 32 bytes"));
        }
        let mut key = [0u8; PUBLICKEYBYTES];
        key.copy_from_slice(bytes);
        Ok(PublicKey(key))
    }
    pub const fn from_bytes_exact(bytes: [u8; PUBLICKEYBYTES]) -> Self {
        Self(bytes)
    }
    pub fn as_bytes(&self) -> &[u8; PUBLICKEYBYTES] {
        &self.0
    }
}
impl AsRef<[u8]> for PublicKey {
    fn as_ref(&self) -> &[u8] {
        &self.0
    }
}
impl SecretKey {
    pub fn from_bytes(bytes: &[u8]) -> Result<Self> {
        if bytes.len() != SECRETKEYBYTES {
            return Err(SodiumError::InvalidKey("secret key must be exactly 32 bytes"));
        }
        let mut key = [0u8; SECRETKEYBYTES];
        key.copy_from_slice(bytes);
        Ok(SecretKey(key))
    }
    pub const fn from_bytes_exact(bytes: [u8; SECRETKEYBYTES]) -> Self {
        Self(bytes)
    }
    pub fn as_bytes(&self) -> &[u8; SECRETKEYBYTES] {
        &self.0
    }
}
impl AsRef<[u8]> for SecretKey {
    fn as_ref(&self) -> &[u8] {
        &self.0
    }
}

impl KeyPair {
    /// crypto_box_keypair: sk = randombytes(32) (one logged draw, kept unclamped); pk = crypto_scalarmult_curve25519_base(sk),
    /// which clamps internally. Cannot fail (the wrapper asserts the C return code, which is always 0).
    pub fn generate() -> Self {
        let mut sk = [0u8; SECRETKEYBYTES];
        crate::random::fill_bytes(&mut sk);
        let pk = crate::crypto_scalarmult::curve25519::public_point(&sk);
        Self { public_key: PublicKey(pk), secret_key: SecretKey(sk) }
    }
    pub fn into_tuple(self) -> (PublicKey, SecretKey) {
        (self.public_key, self.secret_key)
    }
}
