//! MODEL of `hkdf` 0.12.4 — assumed contract, not the algorithm.
//!   Hkdf::<D>::new(salt, ikm) remembers (salt, ikm); expand / expand_multi_info(infos, okm):
//!     Err(InvalidLength) iff |okm| > 255 * |D output| (as the real crate); otherwise
//!     okm = uf(HKDF_SHA384, key = ikm, msg = [|salt|] ‖ salt ‖ info_0 ‖ info_1 ‖ ..) of length |okm| —
//!     deterministic, collision-free over (ikm, salt, info) per output length [ideal KDF]. `expand_multi_info` equals `expand`
//!     on the concatenation of the infos (as documented by the real crate).
//!   Salt: `None` and the empty salt are the same salt (length 0). NOT modelled: that HMAC zero-pads its key, so in reality an
//!     all-zero salt (or a salt with trailing zero bytes) gives the same output as the shorter one; here they are different
//!     salts. (A content-dependent normalisation would make the message length symbolic for CBMC — v1.local passes 16
//!     symbolic nonce bytes as salt.) No code under test relies on the equivalence.
//!   Not modelled: that a shorter output is a prefix of a longer one (output length is part of the function's identity);
//!     the code under test always asks for 48 bytes. Only D with a 48-byte output (SHA-384) is modelled.
#![no_std]
use core::fmt;
use core::marker::PhantomData;
pub use hmac;
use hmac::digest::typenum::Unsigned;
use hmac::digest::OutputSizeUser;
use vmodel_core::{alg, uf, Buf, KCAP, MCAP};

#[derive(Copy, Clone, Debug, Eq, PartialEq)]
pub struct InvalidLength;
impl fmt::Display for InvalidLength {
    fn fmt(&self, f: &mut fmt::Formatter<'_>) -> fmt::Result {
        f.write_str("invalid number of blocks, too large output")
    }
}
#[derive(Copy, Clone, Debug, Eq, PartialEq)]
pub struct InvalidPrkLength;
impl fmt::Display for InvalidPrkLength {
    fn fmt(&self, f: &mut fmt::Formatter<'_>) -> fmt::Result {
        f.write_str("invalid pseudorandom key length, too short")
    }
}

#[derive(Clone)]
pub struct Hkdf<D> {
    ikm: Buf<KCAP>,
    salt: Buf<KCAP>,
    _d: PhantomData<D>,
}
pub type SimpleHkdf<D> = Hkdf<D>;

impl<D: OutputSizeUser> Hkdf<D> {
    pub fn new(salt: Option<&[u8]>, ikm: &[u8]) -> Self {
        let mut k = Buf::new();
        k.push(ikm);
        let mut s = Buf::new();
        if let Some(salt) = salt {
            s.push(salt);
        }
        Hkdf { ikm: k, salt: s, _d: PhantomData }
    }
    pub fn expand_multi_info(&self, infos: &[&[u8]], okm: &mut [u8]) -> Result<(), InvalidLength> {
        assert!(D::OutputSize::USIZE == 48, "[model] capacity: only HKDF-SHA384 is modelled");
        if okm.len() > 255 * D::OutputSize::USIZE {
            return Err(InvalidLength);
        }
        let mut m: Buf<MCAP> = Buf::new();
        m.push(&[self.salt.len as u8]);
        m.push(self.salt.as_slice());
        let mut i = 0;
        while i < infos.len() {
            m.push(infos[i]);
            i += 1;
        }
        uf(alg::HKDF_SHA384, true, self.ikm.as_slice(), m.as_slice(), okm);
        Ok(())
    }
    pub fn expand(&self, info: &[u8], okm: &mut [u8]) -> Result<(), InvalidLength> {
        self.expand_multi_info(&[info], okm)
    }
}
