//! MODEL of `p384` 0.13.1 (with ecdsa 0.16 / elliptic-curve 0.13 / sec1 0.7 types flattened into one crate) — assumed
//! contract, not the arithmetic. Only the API surface paseto-v3 uses is present.
//!
//! Points. A non-identity affine point is represented by its 49-byte compressed SEC1 encoding `c` = tag(02|03) ‖ X.
//!   * public key of a scalar:   c = uf(P384_PK, key = scalar(48)) — deterministic and collision-free (distinct scalars give
//!     distinct points), tag assumed in {02,03}; every derived point is assumed valid.
//!   * validity of a decoded point is an UNINTERPRETED PREDICATE of X only: valid(X) = bit 0 of uf(P384_VALID, key = X)
//!     ("X < p and X^3 - 3X + b is a square"); 02‖X and 03‖X are both valid or both invalid, as on the real curve.
//!   * the Y coordinate is uninterpreted: Y(c) = uf(P384_DECOMPRESS, key = c), its parity assumed equal to the tag's.
//!   * SEC1 decoding (`EncodedPoint::from_bytes`, `from_sec1_bytes`, `AffinePoint::try_from`) follows the real crates exactly:
//!     lengths/tags 00 (1 byte, identity), 02/03 (49), 04 (97), 05 (49, "compact") are well-formed encodings, everything else
//!     is rejected; 02/03/05 are points iff valid(X); 04‖X‖Y is a point iff valid(X) and Y == Y((02|Y&1)‖X); the identity is
//!     an `AffinePoint` (as in primeorder) but never a `PublicKey` / `VerifyingKey`; a compact point gets the root selected by
//!     an uninterpreted bit of X (bit 1 of the same uf output). `to_encoded_point(true)` = c, `(false)` = 04 ‖ X ‖ Y(c);
//!     `compress()` as in sec1.
//! CBMC note: every decoding / key-construction path performs the same number of uf calls whatever the (symbolic) bytes are
//!   (the public point of a scalar is derived before the range check is evaluated; decoding a point always evaluates
//!   valid(X) and Y(c), whatever tag and length are), so the memo table's entry count stays concrete (units/README.md rule 3b).
//! Model-only API (for harnesses): `model::in_range`, `model::stash/stashed`, `NonZeroScalar::model_new_unchecked`, `NonZeroScalar::model_bytes`.
//! Scalars. `SecretKey::from_bytes/from_slice`, `SigningKey::from_bytes/from_slice`: EXACT range check 0 < d < n against
//!   the constant group order (no uninterpreted validity bit); `from_slice` also accepts 24..47 bytes (left-padded) like the
//!   real crate. `to_bytes` returns the 48 bytes given.
//! ECDSA (`DigestSigner::sign_digest`, RFC 6979 in the real crate: a deterministic function of key and digest):
//!   r = uf(P384_SIG, key = c, msg = digest ‖ 00), s = uf(P384_SIG, key = c, msg = digest ‖ 01), each assumed in 1..n-1
//!   (two 48-byte halves because vmodel-core outputs are at most 64 bytes). Signing never fails.
//!   The signer's s is ANY value in 1..n-1 — low or high: `ecdsa` does not normalise for NistP384 (`NORMALIZE_S = false`).
//!   IDEAL SIGNATURE WITH MALLEABILITY: `verify_digest(pk, digest, (r, s))` is Ok iff r was produced by the signing function for
//!   exactly (pk, digest) and s OR n - s was produced for it ("no signature verifies for a message it was not made for", and the
//!   only other signature that verifies is the twin (r, n - s), as for real ECDSA: the verification equation depends on ±s only
//!   through the x coordinate). Verification makes no `uf` call (table look-ups only), so the memo-table size never depends on it.
//!   `Signature::from_bytes` is exact: Err iff r or s is 0 or >= n. `normalize_s()` is exact: Some((r, n - s)) iff s > floor(n/2)
//!   (48-byte big-endian arithmetic against the constant ORDER; n is odd, so s > floor(n/2) <=> s > n - s), None otherwise.
//!   `Signature::r()/s()` are not provided (the repository does not use them; the model's NonZeroScalar carries a derived point).
//! ECDH: `diffie_hellman(d, Q)` = uf(P384_DH, msg = min(X_P, X_Q) ‖ max(X_P, X_Q)) with P = public key of d — a commutative
//!   uninterpreted function of the two X coordinates (dh(a, pk(b)) == dh(b, pk(a)); the sign of either point is irrelevant,
//!   as for the real x-coordinate ECDH); not assumed collision-free. Q = identity gives the all-zero secret.
#![no_std]
#![allow(static_mut_refs)]
pub use generic_array;
use generic_array::typenum::{U48, U96};
use generic_array::GenericArray;
use vmodel_core::{alg, uf, was_output_of_kp};

pub type FieldBytes = GenericArray<u8, U48>;

#[cfg(kani)]
fn assume(c: bool) {
    kani::assume(c)
}
#[cfg(not(kani))]
fn assume(_c: bool) {}

/// Order of the group, big-endian (FIPS 186-4 D.1.2.4).
pub const ORDER: [u8; 48] = [
    0xff, 0xff, 0xff, 0xff, 0xff, 0xff, 0xff, 0xff, 0xff, 0xff, 0xff, 0xff, 0xff, 0xff, 0xff, 0xff, 0xff, 0xff, 0xff, 0xff, 0xff, 0xff, 0xff, 0xff,
    0xc7, 0x63, 0x4d, 0x81, 0xf4, 0x37, 0x2d, 0xdf, 0x58, 0x1a, 0x0d, 0xb2, 0x48, 0xb0, 0xa7, 0x7a, 0xec, 0xec, 0x19, 0x6a, 0xcc, 0xc5, 0x29, 0x73,
];
/// 0 < v < n
fn in_range(v: &[u8; 48]) -> bool {
    let mut nonzero = false;
    let mut lt = false;
    let mut decided = false;
    let mut i = 0;
    while i < 48 {
        nonzero |= v[i] != 0;
        if !decided && v[i] != ORDER[i] {
            lt = v[i] < ORDER[i];
            decided = true;
        }
        i += 1;
    }
    nonzero && lt
}
/// n - v, 48-byte big-endian, for 0 < v < n (then 0 < n - v < n). Branch-free ripple-borrow subtraction, constant bound.
fn neg_mod_n(v: &[u8; 48]) -> [u8; 48] {
    let mut o = [0u8; 48];
    let mut borrow: u16 = 0;
    let mut i = 48;
    while i > 0 {
        i -= 1;
        let t = 256 + ORDER[i] as u16 - v[i] as u16 - borrow; // 0 ..= 511
        o[i] = (t & 0xff) as u8;
        borrow = 1 - (t >> 8);
    }
    o
}
/// a > b as 48-byte big-endian numbers
fn gt_be(a: &[u8; 48], b: &[u8; 48]) -> bool {
    let mut gt = false;
    let mut decided = false;
    let mut i = 0;
    while i < 48 {
        if !decided && a[i] != b[i] {
            gt = a[i] > b[i];
            decided = true;
        }
        i += 1;
    }
    gt
}
/// (valid(X), compact-root selector(X))
fn x_valid(x: &[u8]) -> (bool, u8) {
    let mut o = [0u8; 1];
    uf(alg::P384_VALID, false, x, &[], &mut o);
    (o[0] & 1 == 1, (o[0] >> 1) & 1)
}
pub mod model {
    /// 0 < v < n (the exact check `SecretKey::from_bytes` performs)
    pub fn in_range(v: &[u8; 48]) -> bool {
        super::in_range(v)
    }
    /// n - v (for 0 < v < n): the s component of the twin signature
    pub fn neg_mod_n(v: &[u8; 48]) -> [u8; 48] {
        super::neg_mod_n(v)
    }
    /// v > floor(n/2): "high S"
    pub fn is_high(v: &[u8; 48]) -> bool {
        super::gt_be(v, &super::neg_mod_n(v))
    }
    static mut STASH: super::NonZeroScalar = super::NonZeroScalar { d: [0; 48], c: [0; 49] };
    /// MODEL-ONLY (harness support): derive the key pair of `d` now and keep it, so that a harness-side replacement of
    /// `SigningKey::from_bytes` can hand it out later WITHOUT model calls (used when an RNG failure may short-cut the code
    /// under test before the derivation: the model-call count must be the same on both paths).
    pub fn stash(d: &[u8; 48]) {
        let s = super::NonZeroScalar::model_new_unchecked(d);
        unsafe { STASH = s }
    }
    pub fn stashed() -> super::NonZeroScalar {
        unsafe { STASH }
    }
}
fn y_of(c: &[u8; 49]) -> [u8; 48] {
    let mut y = [0u8; 48];
    uf(alg::P384_DECOMPRESS, false, c, &[], &mut y);
    assume(y[47] & 1 == c[0] & 1);
    y
}
/// public point of a valid scalar (2 uf calls: derivation + "derived points are valid")
fn derive(d: &[u8; 48]) -> [u8; 49] {
    let mut c = [0u8; 49];
    uf(alg::P384_PK, true, d, &[], &mut c);
    assume(c[0] == 2 || c[0] == 3);
    assume(x_valid(&c[1..]).0);
    c
}

// ---------------------------------------------------------------------------------------------------- sec1 / points
pub mod elliptic_curve {
    #[derive(Copy, Clone, Debug, Eq, PartialEq)]
    pub struct Error;
    impl core::fmt::Display for Error {
        fn fmt(&self, f: &mut core::fmt::Formatter<'_>) -> core::fmt::Result {
            f.write_str("crypto error")
        }
    }
    pub mod sec1 {
        pub use crate::EncodedPoint;
        #[derive(Copy, Clone, Debug, Eq, PartialEq)]
        pub enum Error {
            PointEncoding,
        }
        pub trait ToEncodedPoint {
            fn to_encoded_point(&self, compress: bool) -> EncodedPoint;
        }
        pub trait FromEncodedPoint: Sized {
            fn from_encoded_point(p: &EncodedPoint) -> Option<Self>;
        }
    }
}
use elliptic_curve::sec1::{FromEncodedPoint, ToEncodedPoint};

/// SEC1 encoded point: 1, 49 or 97 significant bytes in a 97-byte buffer (like sec1::EncodedPoint).
#[derive(Copy, Clone, Eq, PartialEq)]
pub struct EncodedPoint {
    bytes: [u8; 97],
    len: usize, // 1, 49 or 97 — always consistent with the tag; kept separately so that it stays concrete for CBMC
}
impl Default for EncodedPoint {
    fn default() -> Self {
        EncodedPoint { bytes: [0; 97], len: 1 } // identity
    }
}
impl EncodedPoint {
    pub fn from_bytes(input: impl AsRef<[u8]>) -> Result<Self, elliptic_curve::sec1::Error> {
        let input = input.as_ref();
        let n = input.len();
        if n == 0 {
            return Err(elliptic_curve::sec1::Error::PointEncoding);
        }
        let tag = input[0];
        let mut bytes = [0u8; 97];
        if n == 1 {
            if tag == 0 {
                Ok(EncodedPoint { bytes, len: 1 })
            } else {
                Err(elliptic_curve::sec1::Error::PointEncoding)
            }
        } else if n == 49 {
            let mut i = 0;
            while i < 49 {
                bytes[i] = input[i];
                i += 1;
            }
            if tag == 2 || tag == 3 || tag == 5 {
                Ok(EncodedPoint { bytes, len: 49 })
            } else {
                Err(elliptic_curve::sec1::Error::PointEncoding)
            }
        } else if n == 97 {
            let mut i = 0;
            while i < 97 {
                bytes[i] = input[i];
                i += 1;
            }
            if tag == 4 {
                Ok(EncodedPoint { bytes, len: 97 })
            } else {
                Err(elliptic_curve::sec1::Error::PointEncoding)
            }
        } else {
            Err(elliptic_curve::sec1::Error::PointEncoding)
        }
    }
    pub fn len(&self) -> usize {
        self.len
    }
    pub fn as_bytes(&self) -> &[u8] {
        &self.bytes[..self.len]
    }
    pub fn is_identity(&self) -> bool {
        self.len == 1
    }
    pub fn is_compressed(&self) -> bool {
        self.bytes[0] == 2 || self.bytes[0] == 3
    }
    /// as sec1: an uncompressed point becomes (02 | parity(Y)) ‖ X, everything else is returned unchanged
    pub fn compress(&self) -> Self {
        if self.len == 97 {
            let mut bytes = [0u8; 97];
            bytes[0] = 2 | (self.bytes[96] & 1);
            let mut i = 1;
            while i < 49 {
                bytes[i] = self.bytes[i];
                i += 1;
            }
            EncodedPoint { bytes, len: 49 }
        } else {
            *self
        }
    }
}
impl AsRef<[u8]> for EncodedPoint {
    fn as_ref(&self) -> &[u8] {
        self.as_bytes()
    }
}

#[derive(Copy, Clone, Eq, PartialEq)]
pub struct AffinePoint {
    c: [u8; 49],
    infinity: bool,
}
impl AffinePoint {
    pub const IDENTITY: AffinePoint = AffinePoint { c: [0; 49], infinity: true };
    pub fn is_identity(&self) -> bool {
        self.infinity
    }
}
impl FromEncodedPoint for AffinePoint {
    /// Every path performs the same two uf calls (validity of X, Y of the candidate point) in the same order, whatever the
    /// tag and length are — an `EncodedPoint` that went through a symbolic Ok/Err merge has a symbolic `len` for CBMC.
    fn from_encoded_point(p: &EncodedPoint) -> Option<Self> {
        let b = &p.bytes;
        let tag = b[0]; // consistent with p.len by construction: 00 <-> 1, 02/03/05 <-> 49, 04 <-> 97
        let mut c = [0u8; 49];
        let mut i = 0;
        while i < 49 {
            c[i] = b[i];
            i += 1;
        }
        if tag == 4 {
            c[0] = 2 | (b[96] & 1);
        }
        let (valid, sel) = x_valid(&c[1..]);
        if tag == 5 {
            // compact: the root with the numerically smaller Y — an uninterpreted bit of X
            c[0] = 2 | sel;
        }
        let y = y_of(&c);
        let mut same = true;
        let mut i = 0;
        while i < 48 {
            same &= y[i] == b[49 + i];
            i += 1;
        }
        if tag == 0 {
            Some(AffinePoint::IDENTITY)
        } else if tag == 4 {
            // 04 ‖ X ‖ Y
            if valid && same {
                Some(AffinePoint { c, infinity: false })
            } else {
                None
            }
        } else {
            // 02/03 ‖ X, or 05 ‖ X
            if valid {
                Some(AffinePoint { c, infinity: false })
            } else {
                None
            }
        }
    }
}
impl ToEncodedPoint for AffinePoint {
    fn to_encoded_point(&self, compress: bool) -> EncodedPoint {
        let mut bytes = [0u8; 97];
        if compress {
            if self.infinity {
                return EncodedPoint { bytes, len: 1 };
            }
            let mut i = 0;
            while i < 49 {
                bytes[i] = self.c[i];
                i += 1;
            }
            return EncodedPoint { bytes, len: 49 };
        }
        let y = y_of(&self.c); // before the identity test: the uf-call count must not depend on symbolic data
        if self.infinity {
            return EncodedPoint { bytes, len: 1 };
        }
        let mut i = 0;
        while i < 49 {
            bytes[i] = self.c[i];
            i += 1;
        }
        {
            bytes[0] = 4;
            let mut i = 0;
            while i < 48 {
                bytes[49 + i] = y[i];
                i += 1;
            }
            EncodedPoint { bytes, len: 97 }
        }
    }
}
impl TryFrom<&EncodedPoint> for AffinePoint {
    type Error = elliptic_curve::Error;
    fn try_from(p: &EncodedPoint) -> Result<Self, Self::Error> {
        AffinePoint::from_encoded_point(p).ok_or(elliptic_curve::Error)
    }
}
impl TryFrom<EncodedPoint> for AffinePoint {
    type Error = elliptic_curve::Error;
    fn try_from(p: EncodedPoint) -> Result<Self, Self::Error> {
        AffinePoint::try_from(&p)
    }
}

/// elliptic_curve::PublicKey<NistP384>: a non-identity point
#[derive(Copy, Clone, Eq, PartialEq)]
pub struct PublicKey {
    point: AffinePoint,
}
impl PublicKey {
    pub fn from_affine(point: AffinePoint) -> Result<Self, elliptic_curve::Error> {
        if point.infinity {
            Err(elliptic_curve::Error)
        } else {
            Ok(PublicKey { point })
        }
    }
    /// = `EncodedPoint::from_bytes(bytes)` then `from_encoded_point`, evaluated so that the number of uf calls depends only
    /// on the (concrete) length, not on the (symbolic) tag: the point is examined first, the tag is judged afterwards.
    pub fn from_sec1_bytes(bytes: &[u8]) -> Result<Self, elliptic_curve::Error> {
        let n = bytes.len();
        if n != 49 && n != 97 {
            // 1 byte: only the identity (00) is a well-formed encoding and it is not a public key; other lengths are malformed
            return Err(elliptic_curve::Error);
        }
        let mut raw = [0u8; 97];
        let mut i = 0;
        while i < 97 {
            if i < n {
                raw[i] = bytes[i];
            }
            i += 1;
        }
        let point = AffinePoint::from_encoded_point(&EncodedPoint { bytes: raw, len: n });
        let well_formed = EncodedPoint::from_bytes(bytes).is_ok();
        match point {
            Some(point) if well_formed => Ok(PublicKey { point }),
            _ => Err(elliptic_curve::Error),
        }
    }
    pub fn as_affine(&self) -> &AffinePoint {
        &self.point
    }
    pub fn to_nonidentity_compressed(&self) -> [u8; 49] {
        self.point.c
    }
}
impl FromEncodedPoint for PublicKey {
    fn from_encoded_point(p: &EncodedPoint) -> Option<Self> {
        if p.is_identity() {
            return None;
        }
        match AffinePoint::from_encoded_point(p) {
            Some(point) => Some(PublicKey { point }),
            None => None,
        }
    }
}
impl ToEncodedPoint for PublicKey {
    fn to_encoded_point(&self, compress: bool) -> EncodedPoint {
        self.point.to_encoded_point(compress)
    }
}
/// NistP384 has `COMPRESS_POINTS = false`: the default encoding is the uncompressed one
impl From<PublicKey> for EncodedPoint {
    fn from(k: PublicKey) -> EncodedPoint {
        k.to_encoded_point(false)
    }
}
impl From<&PublicKey> for EncodedPoint {
    fn from(k: &PublicKey) -> EncodedPoint {
        k.to_encoded_point(false)
    }
}

// ---------------------------------------------------------------------------------------------------- scalars / secret keys
/// A scalar in 1..n-1 together with its public point (cached; the real types recompute it on demand).
#[derive(Copy, Clone)]
pub struct NonZeroScalar {
    d: [u8; 48],
    c: [u8; 49],
}
impl AsRef<NonZeroScalar> for NonZeroScalar {
    fn as_ref(&self) -> &NonZeroScalar {
        self
    }
}
impl NonZeroScalar {
    /// MODEL-ONLY constructor for harnesses: the caller has assumed `model::in_range(d)`; no range branch is taken.
    pub fn model_new_unchecked(d: &[u8; 48]) -> NonZeroScalar {
        NonZeroScalar { d: *d, c: derive(d) }
    }
    pub fn model_bytes(&self) -> [u8; 48] {
        self.d
    }
}
fn scalar_from(bytes: &[u8; 48]) -> Option<NonZeroScalar> {
    // derive first, decide afterwards: the number of uf calls must not depend on the (symbolic) range check
    let s = NonZeroScalar { d: *bytes, c: derive(bytes) };
    if in_range(bytes) {
        Some(s)
    } else {
        None
    }
}
fn fb(d: &[u8; 48]) -> FieldBytes {
    let mut o = FieldBytes::default();
    o.copy_from_slice(d);
    o
}
/// as elliptic_curve::SecretKey::from_slice: 48 bytes, or 24..=47 bytes left-padded with zeros
fn pad48(slice: &[u8]) -> Option<[u8; 48]> {
    let n = slice.len();
    if n > 48 || n < 24 {
        return None;
    }
    let off = 48 - n;
    let mut b = [0u8; 48];
    let mut i = 0;
    while i < 48 {
        if i >= off {
            b[i] = slice[i - off];
        }
        i += 1;
    }
    Some(b)
}

#[derive(Clone)]
pub struct SecretKey {
    inner: NonZeroScalar,
}
impl SecretKey {
    pub fn from_bytes(bytes: &FieldBytes) -> Result<Self, elliptic_curve::Error> {
        let mut b = [0u8; 48];
        b.copy_from_slice(bytes);
        match scalar_from(&b) {
            Some(inner) => Ok(SecretKey { inner }),
            None => Err(elliptic_curve::Error),
        }
    }
    pub fn from_slice(slice: &[u8]) -> Result<Self, elliptic_curve::Error> {
        match pad48(slice) {
            Some(b) => match scalar_from(&b) {
                Some(inner) => Ok(SecretKey { inner }),
                None => Err(elliptic_curve::Error),
            },
            None => Err(elliptic_curve::Error),
        }
    }
    pub fn to_bytes(&self) -> FieldBytes {
        fb(&self.inner.d)
    }
    pub fn to_nonzero_scalar(&self) -> NonZeroScalar {
        self.inner
    }
    pub fn public_key(&self) -> PublicKey {
        PublicKey { point: AffinePoint { c: self.inner.c, infinity: false } }
    }
}

// ---------------------------------------------------------------------------------------------------- ECDSA
pub mod ecdsa {
    use super::*;
    pub use signature;
    pub use signature::Error;
    use digest::{Digest, FixedOutput};
    use signature::{DigestSigner, DigestVerifier};

    pub type SignatureBytes = GenericArray<u8, U96>;

    #[derive(Copy, Clone, Eq, PartialEq)]
    pub struct Signature {
        r: [u8; 48],
        s: [u8; 48],
    }
    impl Signature {
        pub fn from_bytes(bytes: &SignatureBytes) -> Result<Self, Error> {
            let mut r = [0u8; 48];
            r.copy_from_slice(&bytes[..48]);
            let mut s = [0u8; 48];
            s.copy_from_slice(&bytes[48..]);
            if in_range(&r) && in_range(&s) {
                Ok(Signature { r, s })
            } else {
                Err(Error::new())
            }
        }
        pub fn from_slice(slice: &[u8]) -> Result<Self, Error> {
            if slice.len() == 96 {
                Self::from_bytes(SignatureBytes::from_slice(slice))
            } else {
                Err(Error::new())
            }
        }
        pub fn to_bytes(&self) -> SignatureBytes {
            let mut b = SignatureBytes::default();
            b[..48].copy_from_slice(&self.r);
            b[48..].copy_from_slice(&self.s);
            b
        }
        /// exact (ecdsa 0.16): `if s.is_high() { Some((r, -s)) } else { None }`, is_high <=> s > floor(n/2) <=> s > n - s (n odd)
        pub fn normalize_s(&self) -> Option<Self> {
            let neg = neg_mod_n(&self.s);
            if gt_be(&self.s, &neg) {
                Some(Signature { r: self.r, s: neg })
            } else {
                None
            }
        }
    }

    #[derive(Copy, Clone, Eq, PartialEq)]
    pub struct VerifyingKey {
        inner: PublicKey,
    }
    impl VerifyingKey {
        pub fn from_sec1_bytes(bytes: &[u8]) -> Result<Self, Error> {
            PublicKey::from_sec1_bytes(bytes).map(|pk| VerifyingKey { inner: pk }).map_err(|_| Error::new())
        }
        pub fn from_affine(affine: AffinePoint) -> Result<Self, Error> {
            PublicKey::from_affine(affine).map(|pk| VerifyingKey { inner: pk }).map_err(|_| Error::new())
        }
        pub fn from_encoded_point(p: &EncodedPoint) -> Result<Self, Error> {
            PublicKey::from_encoded_point(p).map(|pk| VerifyingKey { inner: pk }).ok_or_else(Error::new)
        }
        pub fn to_encoded_point(&self, compress: bool) -> EncodedPoint {
            self.inner.to_encoded_point(compress)
        }
        pub fn as_affine(&self) -> &AffinePoint {
            self.inner.as_affine()
        }
    }
    impl From<PublicKey> for VerifyingKey {
        fn from(inner: PublicKey) -> Self {
            VerifyingKey { inner }
        }
    }
    impl From<VerifyingKey> for PublicKey {
        fn from(k: VerifyingKey) -> Self {
            k.inner
        }
    }
    fn half_msg(d: &[u8], which: u8) -> [u8; 49] {
        let mut m = [0u8; 49];
        m[..48].copy_from_slice(d);
        m[48] = which;
        m
    }
    impl<D> DigestVerifier<D, Signature> for VerifyingKey
    where
        D: Digest + FixedOutput<OutputSize = U48>,
    {
        fn verify_digest(&self, msg_digest: D, signature: &Signature) -> Result<(), Error> {
            let d = msg_digest.finalize_fixed();
            let c = &self.inner.point.c;
            let r = was_output_of_kp(alg::P384_SIG, c, &half_msg(&d, 0), &signature.r);
            // malleability: (r, s) and (r, n - s) verify together
            let s = was_output_of_kp(alg::P384_SIG, c, &half_msg(&d, 1), &signature.s)
                | was_output_of_kp(alg::P384_SIG, c, &half_msg(&d, 1), &neg_mod_n(&signature.s));
            if r && s {
                Ok(())
            } else {
                Err(Error::new())
            }
        }
    }

    #[derive(Clone)]
    pub struct SigningKey {
        secret_scalar: NonZeroScalar,
        verifying_key: VerifyingKey,
    }
    impl SigningKey {
        pub fn from_bytes(bytes: &FieldBytes) -> Result<Self, Error> {
            SecretKey::from_bytes(bytes).map(Into::into).map_err(|_| Error::new())
        }
        pub fn from_slice(bytes: &[u8]) -> Result<Self, Error> {
            SecretKey::from_slice(bytes).map(Into::into).map_err(|_| Error::new())
        }
        pub fn to_bytes(&self) -> FieldBytes {
            fb(&self.secret_scalar.d)
        }
        pub fn as_nonzero_scalar(&self) -> &NonZeroScalar {
            &self.secret_scalar
        }
        pub fn verifying_key(&self) -> &VerifyingKey {
            &self.verifying_key
        }
    }
    impl From<NonZeroScalar> for SigningKey {
        fn from(s: NonZeroScalar) -> Self {
            SigningKey { secret_scalar: s, verifying_key: VerifyingKey { inner: PublicKey { point: AffinePoint { c: s.c, infinity: false } } } }
        }
    }
    impl From<SecretKey> for SigningKey {
        fn from(k: SecretKey) -> Self {
            k.inner.into()
        }
    }
    impl From<&SecretKey> for SigningKey {
        fn from(k: &SecretKey) -> Self {
            k.inner.into()
        }
    }
    impl From<SigningKey> for SecretKey {
        fn from(k: SigningKey) -> Self {
            SecretKey { inner: k.secret_scalar }
        }
    }
    impl From<&SigningKey> for SecretKey {
        fn from(k: &SigningKey) -> Self {
            SecretKey { inner: k.secret_scalar }
        }
    }
    impl From<SigningKey> for VerifyingKey {
        fn from(k: SigningKey) -> Self {
            k.verifying_key
        }
    }
    impl From<&SigningKey> for VerifyingKey {
        fn from(k: &SigningKey) -> Self {
            k.verifying_key
        }
    }
    impl<D> DigestSigner<D, Signature> for SigningKey
    where
        D: Digest + FixedOutput<OutputSize = U48>,
    {
        fn try_sign_digest(&self, msg_digest: D) -> Result<Signature, Error> {
            let d = msg_digest.finalize_fixed();
            let c = &self.verifying_key.inner.point.c;
            let mut r = [0u8; 48];
            uf(alg::P384_SIG, true, c, &half_msg(&d, 0), &mut r);
            assume(in_range(&r));
            let mut s = [0u8; 48];
            uf(alg::P384_SIG, true, c, &half_msg(&d, 1), &mut s);
            assume(in_range(&s));
            Ok(Signature { r, s })
        }
    }
}

// ---------------------------------------------------------------------------------------------------- ECDH
pub mod ecdh {
    use super::*;
    use core::borrow::Borrow;

    pub struct SharedSecret {
        secret_bytes: FieldBytes,
    }
    impl SharedSecret {
        pub fn raw_secret_bytes(&self) -> &FieldBytes {
            &self.secret_bytes
        }
    }
    pub fn diffie_hellman(secret_key: impl Borrow<NonZeroScalar>, public_key: impl Borrow<AffinePoint>) -> SharedSecret {
        let sk = secret_key.borrow();
        let q = public_key.borrow();
        let (xa, xb) = (&sk.c[1..], &q.c[1..]);
        let mut a_first = true;
        let mut decided = false;
        let mut i = 0;
        while i < 48 {
            if !decided && xa[i] != xb[i] {
                a_first = xa[i] < xb[i];
                decided = true;
            }
            i += 1;
        }
        let mut m = [0u8; 96];
        if a_first {
            m[..48].copy_from_slice(xa);
            m[48..].copy_from_slice(xb);
        } else {
            m[..48].copy_from_slice(xb);
            m[48..].copy_from_slice(xa);
        }
        let mut o = [0u8; 48];
        uf(alg::P384_DH, false, &[], &m, &mut o);
        if q.infinity {
            o = [0u8; 48]; // d * identity = identity
        }
        SharedSecret { secret_bytes: fb(&o) }
    }
}
