"""bin/check <property> [--tier quick|thorough] — decide one property by discharging the obligations of its units."""
from __future__ import annotations

import dataclasses
import hashlib
import importlib.util
import json
import os
import re
import sys
import time
from concurrent.futures import ThreadPoolExecutor
from pathlib import Path

from . import core
from .core import VERIF, Harness, HarnessResult, Undecided, Unit

EVID = Path(os.environ.get("VERIF_EVIDENCE_DIR", VERIF / "evidence"))
REPLAYS = Path(os.environ.get("VERIF_REPLAY_DIR", VERIF / "replays"))
LOGS = Path(os.environ.get("VERIF_LOG_DIR", VERIF / "logs"))
KNOWN = VERIF / "known_findings.json"


LOAD_ERRORS = []
# curated quick tier for units with very many instances (everything else of these units runs in the thorough tier)
QUICK_OVERRIDE = {
    "u6_serde": (r"^(serialize_exact_p(000|048|120)|roundtrip_p(000|048|124)|deserialize_script_n[12]|deserialize_order_independent_n2|field_names_exact|writer_forwards_every_byte|footer_empty_rejected|canary_serde)$", 14),
}
BACKEND_GROUPS = {"paseto-v1": "v1", "paseto-v2": "v2", "paseto-v3": "v3", "paseto-v3-aws-lc": "awslc", "paseto-v4": "v4", "paseto-v4-sodium": "v4s"}


def load_units() -> dict:
    units = {}
    for p in sorted((VERIF / "units").glob("*/unit.py")):
        try:
            spec = importlib.util.spec_from_file_location(f"unit_{p.parent.name}", p)
            m = importlib.util.module_from_spec(spec)
            spec.loader.exec_module(m)
            us = m.units() if hasattr(m, "units") else [m.unit()]
        except Exception as e:  # a broken unit definition must not take the other units down
            print(f"WARNING: unit definition {p} could not be loaded: {e!r}", file=sys.stderr)
            LOAD_ERRORS.append(str(p))
            continue
        for u in us:
            for h in u.harnesses:
                h.path = h.path or u.harness_path
                h.unit = u.name
            # all units of one backend crate share one scratch workspace and one build
            if u.name in QUICK_OVERRIDE:
                pat, qc = QUICK_OVERRIDE[u.name]
                for h in u.harnesses:
                    if h.tier == "quick" and not re.search(pat, h.name):
                        h.tier = "thorough"
                u.quick_cap = qc
            if not u.group and u.kind == "kani" and not u.harness_crate and u.package in BACKEND_GROUPS:
                u.group = BACKEND_GROUPS[u.package]
            units[u.name] = u
    return units


def load_props() -> dict:
    props = {}
    for line in (VERIF / "properties.jsonl").read_text().splitlines():
        if line.strip():
            p = json.loads(line)
            props[p["id"]] = p
    return props


def load_manifest_level(prop: str) -> str:
    try:
        m = json.loads((VERIF / "MANIFEST.json").read_text())
        for c in m["checks"]:
            if c["property_id"] == prop:
                return c["level_claimed"]["category"]
    except Exception:
        pass
    return "model_checking"


# which harness families matter most for a property (substring of the harness name, in order of priority): used only to ORDER the
# quick-tier selection — the thorough tier runs everything
PRIORITY = {
    "C01": ["roundtrip", "accepts_spec", "is_spec"], "C02": ["tamper", "boundary", "shift", "refused"], "C03": ["is_spec", "accepts_spec"],
    "C04": ["usable", "zero_iter", "identity", "short", "len_", "codec"], "C05": ["params_acceptance", "roundtrip", "is_spec"],
    "C06": ["tamper", "len_", "short", "relabel"], "C07": ["is_spec", "accepts_spec", "contract", "params"],
    "C08": ["codec", "encode", "decode", "signs_verifiably", "valid_point"], "C10": ["codec", "relabel", "binding", "constants"],
    "C12": ["tamper", "short", "unseal_contract"], "C16": ["fail_closed", "random", "own_nonce"],
}


def priority_rank(prop: str, name: str) -> int:
    for i, sub in enumerate(PRIORITY.get(prop, [])):
        if sub in name:
            return i
    return 99


def boundary_first(hs: list) -> list:
    """Order numeric families (`unseal_short_0, _31, _63, _64, _66`) so that the middle members — the ones next to the length
    boundary the family brackets — come first; other harnesses keep their declaration order."""
    fam = {}
    for h in hs:
        m = re.match(r"^(.*)_(\d+)$", h.name)
        if m:
            fam.setdefault(m.group(1), []).append(h)
    out, done = [], set()
    for h in hs:
        m = re.match(r"^(.*)_(\d+)$", h.name)
        if m and len(fam[m.group(1)]) >= 3:
            if m.group(1) in done:
                continue
            done.add(m.group(1))
            members = sorted(fam[m.group(1)], key=lambda x: int(x.name.rsplit("_", 1)[1]))
            # largest first: the members at and just beyond the exact length (…_96, _97 of a 96-byte format; _64, _66 of a 64-byte
            # minimum) exercise the most code and sit on the boundary; then downwards
            out += list(reversed(members))
        else:
            out.append(h)
    return out


def tag_of(desc: str):
    return re.findall(r"\[(C\d{2,3})\]", desc)


def relevant_failures(prop: str, r: HarnessResult):
    """Failures that decide `prop`: checks tagged with it, and untagged ones (Kani's own safety obligations,
    contract clauses) in a harness that carries the property. Checks tagged only with other properties are reported as notes."""
    mine, other = [], []
    for c in r.failed:
        tags = tag_of(c.description)
        if not tags or prop in tags:
            mine.append(c)
        else:
            other.append(c)
    return mine, other


def known_match(prop, unit, harness, check, known):
    for k in known.get("known", []):
        if k.get("property") != prop:
            continue
        if k.get("unit") and k["unit"] != unit:
            continue
        if k.get("harness") and not re.fullmatch(k["harness"], harness):
            continue
        if k.get("obligation") and not re.search(k["obligation"], check.description):
            continue
        if k.get("location") and not re.search(k["location"], check.location):
            continue
        return k
    return None


# ----------------------------------------------------------------------------------------------------------------------
def playback(unit: Unit, h: Harness, ws: Path, logdir: Path):
    """Ask Kani for the counterexample of a failing harness and replay it natively (cargo kani playback) on the scratch copy:
    the repo functions run as compiled machine code on the concrete inputs. Returns dict for the replay file."""
    info = {"counterexample": None, "native_replay": "not-attempted", "native_output": ""}
    if os.environ.get("VERIF_NO_PLAYBACK"):
        return info
    if any("function-contracts" in f for f in unit.kani_flags) and h.name.startswith("c_") and "proof_for_contract" in h.desc:
        return info
    h = dataclasses.replace(h, timeout=int(os.environ.get("VERIF_PLAYBACK_TIMEOUT", "420")))
    r = core.run_harness(unit, h, ws, logdir, playback=True)
    out = Path(r.log_path).read_text(errors="replace")
    m = re.search(r"```\n(.*?)```", out, flags=re.S)
    if not m:
        info["native_replay"] = "no-counterexample-from-verifier"
        return info
    test_src = m.group(1)
    vals = re.findall(r"^\s*vec!\[([0-9, ]*)\],?\s*$", test_src, flags=re.M)
    info["counterexample"] = {"draws_in_order": [[int(x) for x in v.replace(" ", "").split(",") if x] for v in vals]}
    fn = re.search(r"fn (kani_concrete_playback_\w+)\(", test_src)
    if not fn:
        return info
    # place the generated test inside the harness module (marker) and run it natively
    target = None
    for inj in unit.inject:
        f = ws / inj[0]
        t = f.read_text()
        if "// @@PLAYBACK@@" in t and re.search(r"\b%s\b" % re.escape(h.name), t):
            target = f
            break
    if target is None:
        info["native_replay"] = "no-playback-anchor"
        return info
    # the generated test uses `vec!`/`Vec`, which are not in scope in #![no_std] crates: import them from alloc inside the test fn
    test_src = re.sub(r"(fn kani_concrete_playback_\w+\(\) \{)", r"\1\n    extern crate alloc as valloc; use valloc::vec; use valloc::vec::Vec;", test_src, count=1)
    t = target.read_text().replace("// @@PLAYBACK@@", test_src + "\n// @@PLAYBACK@@", 1)
    target.write_text(t)
    cwd = ws / unit.harness_crate if unit.harness_crate else ws
    cmd = ["cargo", "kani", "playback"] + ([] if unit.harness_crate else ["-p", unit.package])
    if unit.no_default_features:
        cmd += ["--no-default-features"]
    if unit.features:
        cmd += ["--features", ",".join(unit.features)]
    zflags = []
    for i, f in enumerate(unit.kani_flags):
        if f == "-Z" and i + 1 < len(unit.kani_flags):
            zflags += ["-Z", unit.kani_flags[i + 1]]
    cmd += ["-Z", "concrete-playback"] + zflags + ["--", fn.group(1)]
    try:
        env = core.kani_env(); env["RUST_BACKTRACE"] = "0"
        p = core.sh(cmd, cwd=cwd, env=env, timeout=900)
        tail = "\n".join(l for l in p.stdout.splitlines() if not l.startswith("warning"))[-3000:]
        info["native_output"] = tail
        if re.search(r"test result: FAILED|panicked at", p.stdout):
            info["native_replay"] = "reproduced"
        elif re.search(r"test result: ok\. 1 passed", p.stdout):
            info["native_replay"] = "not-reproduced"
        else:
            info["native_replay"] = "replay-build-failed"
    except Exception as e:  # noqa
        info["native_replay"] = f"replay-error: {e}"
    return info


# ----------------------------------------------------------------------------------------------------------------------
def main(argv=None):
    argv = argv or sys.argv[1:]
    if not argv:
        print("usage: check <property-id> [--tier quick|thorough] [--only unit[:harness-regex]]")
        return 2
    prop = argv[0]
    tier = os.environ.get("VERIF_TIER", "quick")
    only = None
    plan_only = False
    i = 1
    while i < len(argv):
        if argv[i] == "--tier":
            tier = argv[i + 1]; i += 2
        elif argv[i] == "--only":
            only = argv[i + 1]; i += 2
        elif argv[i] == "--plan":
            plan_only = True; i += 1
        else:
            i += 1
    seed = int(os.environ.get("VERIF_SEED", "0") or 0)
    t0 = time.time()
    props = load_props()
    if prop not in props:
        print(f"unknown property {prop}")
        return 2
    units = load_units()
    known = json.loads(KNOWN.read_text()) if KNOWN.exists() else {"known": [], "fixed": []}
    logdir = LOGS / f"{prop}-{tier}"

    # select harnesses
    cap = int(os.environ.get("VERIF_QUICK_CAP", "4"))
    # measured cost of each harness (units/timings.json, seconds on a loaded machine; regenerated by bin/collect-timings):
    # the quick tier defers harnesses above VERIF_QUICK_MAX_S to the thorough tier, unless nothing else of the unit carries the property
    try:
        timings = json.loads((VERIF / "units" / "timings.json").read_text())
    except Exception:
        timings = {}
    qmax = float(os.environ.get("VERIF_QUICK_MAX_S", "300"))
    selected = {}
    for u in units.values():
        hs = [h for h in u.harnesses if prop in h.props and h.tier != "manual" and (tier == "thorough" or h.tier == "quick")]
        if tier == "quick" and not (only and ":" in only) and hs:
            cost = lambda h: timings.get(f"{u.name}::{h.name}", 0.0)
            fast = [h for h in hs if cost(h) <= qmax]
            # nothing cheap enough: keep the cheapest one if it is at most 1.25 x the limit, otherwise the unit's harnesses for this
            # property run in the thorough tier only (e.g. the 512-byte RSA flows of v1_pke, 8-10 min each)
            hs = fast if fast else [h for h in [min(hs, key=cost)] if cost(h) <= 1.25 * qmax]
        if only:
            un, _, hre = only.partition(":")
            if u.name != un and u.group != un:
                continue
            if hre:
                hs = [h for h in hs if re.search(hre, h.name)]
        elif tier == "quick":
            cap_u = u.quick_cap or cap
            # quick tier: at most `cap` expensive harnesses per unit and property — ordered by the property's priority families, then
            # harnesses whose primary (first-listed) property is this one, then declaration order; canary last; the rest runs in the
            # thorough tier. Harnesses that cost at most 60 s do not count against the cap.
            # (an expensive canary is thorough-only: in the quick tier vacuity is still guarded by the cover at the end of every harness)
            canaries = [h for h in hs if h.expect == "fail" and timings.get(f"{u.name}::{h.name}", 120.0) <= 150.0][:1]
            rest = sorted(boundary_first([h for h in hs if h.expect != "fail"]), key=lambda h: (priority_rank(prop, h.name), 0 if h.props[0] == prop else 1))
            cheap = lambda h: False   # (an exemption for cheap harnesses was tried: 226 harnesses for C04, 807 s — removed)
            keep, n_exp = [], 0
            for h in rest:
                if cheap(h) and len(keep) < 2 * cap_u:
                    keep.append(h)
                elif n_exp < cap_u - len(canaries):
                    keep.append(h); n_exp += 1
            hs = keep + canaries
        if hs:
            selected[u.name] = hs
    if not selected:
        print(f"no harness carries {prop} in tier {tier}")
        return 2
    # units of the same group share one scratch workspace and one build
    groups = {}
    for un in selected:
        g = units[un].group or un
        groups.setdefault(g, []).append(units[un])
    # quick tier: at most `gcap` harnesses per backend group and property, taken round-robin from its units (each unit's list is
    # already ordered canary-last / primary-property-first), so that every unit of the backend contributes
    gcap = int(os.environ.get("VERIF_QUICK_GROUP_CAP", "7"))
    if tier == "quick" and not only:
        for g, us in groups.items():
            total = sum(len(selected[u.name]) for u in us)
            if len(us) > 1 and total > gcap:
                picked = {u.name: [] for u in us}
                i, n = 0, 0
                while True:
                    progressed = False
                    for u in us:
                        if i < len(selected[u.name]):
                            h = selected[u.name][i]
                            progressed = True
                            if n < gcap:
                                picked[u.name].append(h); n += 1
                    if not progressed:
                        break
                    i += 1
                for u in us:
                    selected[u.name] = picked[u.name]
        groups = {g: [u for u in us if selected[u.name]] for g, us in groups.items()}
        groups = {g: us for g, us in groups.items() if us}
    # quick tier: a global time budget (sum of the measured harness costs, units/timings.json, unknown = 120 s), spent round-robin
    # over the groups so that every backend keeps its most important harnesses; what does not fit runs in the thorough tier.
    # (vp check stops a quick command after 900 s; 16 cores, builds take 1-2 min.)
    if tier == "quick" and not only:
        budget = float(os.environ.get("VERIF_QUICK_BUDGET_S", "5000"))
        cost = lambda un, h: timings.get(f"{un}::{h.name}", 120.0)
        queues = {g: [(u.name, h) for u in us for h in selected[u.name]] for g, us in groups.items()}
        # within a group keep the round-robin order over its units
        for g, us in groups.items():
            lists = [list(selected[u.name]) for u in us]
            q, i = [], 0
            while any(i < len(l) for l in lists):
                for u, l in zip(us, lists):
                    if i < len(l):
                        q.append((u.name, l[i]))
                i += 1
            queues[g] = q
        kept = {un: [] for un in selected}
        spent, i = 0.0, 0
        cheap_spent, cheap_budget = 0.0, float(os.environ.get("VERIF_QUICK_CHEAP_BUDGET_S", "1200"))
        while any(i < len(q) for q in queues.values()):
            for g, q in queues.items():
                if i < len(q):
                    un, h = q[i]
                    c = cost(un, h)
                    # cheap harnesses (<= 60 s) are nearly free next to the builds: they bypass the budget up to a separate allowance
                    if spent + c <= budget or not kept[un] and i == 0:
                        kept[un].append(h)
                        spent += c
            i += 1
        selected = {un: hs_ for un, hs_ in kept.items() if hs_}
        groups = {g: [u for u in us if u.name in selected] for g, us in groups.items()}
        groups = {g: us for g, us in groups.items() if us}
    plan = []
    try:
        for g, us in groups.items():
            mu = core.merge_group(g, us)
            plan.append((mu, [h for u in us for h in selected[u.name]]))
    except Undecided as e:
        print(f"UNDECIDED {e}")
        return 2

    if plan_only:
        for mu, hs_ in plan:
            print(mu.name + ": " + " ".join(f"{h.unit}::{h.name}" for h in hs_))
        print("total", sum(len(h) for _, h in plan), "estimated harness-seconds", round(sum(timings.get(f"{h.unit}::{h.name}", 120.0) for _, hs_ in plan for h in hs_)))
        return 0
    if logdir.exists():
        import shutil
        shutil.rmtree(logdir, ignore_errors=True)
    logdir.mkdir(parents=True, exist_ok=True)
    EVID.mkdir(parents=True, exist_ok=True)
    REPLAYS.mkdir(parents=True, exist_ok=True)
    results: list[HarnessResult] = []
    unit_info = {}
    undecided_units = []
    workspaces = {}
    pool = ThreadPoolExecutor(max_workers=core.NCPU)

    def prep(u: Unit):
        if u.kind == "verus":
            return None, {"kind": "verus lemma files, checked as they are"}, 0.0
        ws = core.scratch_root() / u.name
        core.copy_repo(ws)
        rec = core.inject(u, ws)
        d = core.sh(["diff", "-ruN", "--exclude", "target", "--exclude", ".git", "--exclude", "verif-models", "--exclude", ".cargo",
                     "--exclude", "Cargo.lock", str(core.REPO), str(ws)])
        (logdir / f"{u.name}.injection.diff").write_text(d.stdout)
        removed = [l for l in d.stdout.splitlines() if l.startswith("-") and not l.startswith("---")]
        # only the workspace manifest's member list may lose lines
        rec["lines_removed_from_repo_sources"] = len([l for l in removed if not re.match(r'^-\s*("paseto-[\w-]+",?|members = \[|\],?)\s*$', l)])
        b = core.build_unit(u, ws, logdir)
        return ws, rec, b

    try:
        from concurrent.futures import as_completed
        cost_of = lambda h: timings.get(f"{h.unit}::{h.name}", 120.0)
        prep_futs = {pool.submit(prep, u): (u, hs) for u, hs in plan}
        harness_futs = []
        # harnesses are submitted as soon as their group's build is done, the most expensive first (shorter tail)
        for pf in as_completed(prep_futs):
            u, hs = prep_futs[pf]
            try:
                ws, rec, b = pf.result()
            except Undecided as e:
                undecided_units.append((u.name, str(e)))
                continue
            workspaces[u.name] = ws
            unit_info[u.name] = {"injection": rec, "build_s": round(b, 1)}
            for h in sorted(hs, key=cost_of, reverse=True):
                harness_futs.append(pool.submit(core.run_harness, u, h, ws, logdir))
        for f in harness_futs:
            results.append(f.result())

        # ---- verdict
        violations, notes, known_hits, undecided = [], [], [], []
        for un, why in undecided_units:
            undecided.append(f"unit={un} reason={why}")
        for r in results:
            if r.outcome == "undecided":
                undecided.append(f"unit={r.unit} harness={r.harness.name} reason={r.reason}")
            elif r.outcome == "failed":
                mine, other = relevant_failures(prop, r)
                for c in other:
                    notes.append(f"NOTE: obligation of another property failed in {r.unit}::{r.harness.name}: {c.description}")
                for c in mine:
                    k = known_match(prop, r.unit, r.harness.name, c, known)
                    if k:
                        known_hits.append((k, r, c))
                    else:
                        violations.append((r, c))
        # replay (first harness of each failing unit, at most 3)
        replay_paths = []
        seen = set()
        violations.sort(key=lambda rc: rc[0].wall_s)   # cheapest failing harness first: it is the one replayed
        for r, c in violations:
            key = (r.unit, r.harness.name)
            if key in seen:
                continue
            seen.add(key)
            u = next(mu for mu, hs_ in plan if any(h is r.harness for h in hs_))
            info = {"counterexample": None, "native_replay": "not-attempted", "native_output": ""}
            if len(seen) <= 1:
                try:
                    info = playback(u, r.harness, workspaces[u.name], logdir)
                except Exception as e:  # noqa
                    info["native_replay"] = f"replay-error: {e}"
            safe_name = re.sub(r"[^A-Za-z0-9_.-]", "_", r.harness.name)
            path = REPLAYS / f"{prop}-{r.unit}-{safe_name}.json"
            log_txt = Path(r.log_path).read_text(errors="replace")
            fails = [x for rr, x in violations if rr is r] + [x for x in r.failed if not any(x is y for rr, y in violations if rr is r)]
            path.write_text(json.dumps({
                "property": prop, "unit": r.unit, "harness": r.harness.name, "tier": tier,
                "failed_obligations": [{"check": x.name, "description": x.description, "location": x.location} for x in fails],
                "functions_under_contract": r.harness.functions,
                "verifier": "Kani 0.68.0 / CBMC 6.11.0" if "CBMC" in r.solver else r.solver,
                "verifier_output_tail": log_txt[-6000:],
                "counterexample": info["counterexample"],
                "native_replay": info["native_replay"],
                "native_replay_output": info["native_output"],
                "how_to_rerun": f"bin/check {prop} --tier {tier} --only {r.unit}:^{r.harness.name}$",
            }, indent=1))
            replay_paths.append((path, info["native_replay"], r, fails))

        # ---- evidence
        write_evidence(prop, tier, seed, props[prop], plan, results, unit_info, undecided, violations, known_hits, notes, time.time() - t0)

        for n in notes:
            print(n)
        for k, r, c in known_hits:
            print(f"KNOWN-FINDING: property={prop} {k.get('what', c.description)} [{r.unit}::{r.harness.name}]")
        for u_ in undecided:
            print("UNDECIDED " + u_)
        ok = sum(1 for r in results if r.outcome == "success")
        print(f"{prop} tier={tier}: harnesses={len(results)} success={ok} failed={sum(1 for r in results if r.outcome == 'failed')} "
              f"undecided={sum(1 for r in results if r.outcome == 'undecided') + len(undecided_units)} "
              f"obligations={sum(r.n_checks for r in results)} wall={time.time() - t0:.0f}s")
        if violations:
            for path, nat, r, fails in replay_paths:
                print(f"  failed obligation: {r.unit}::{r.harness.name}: {fails[0].description} @ {fails[0].location} (replay file {path})")
            path, nat, r, fails = replay_paths[0]
            suffix = "" if nat == "reproduced" else " no-failing-input-found"
            print(f"VIOLATION property={prop} replay={path}{suffix}")
            return 1
        if undecided:
            # "held on everything explored": undecided harnesses (timeouts, capacity limits, lost anchors) are listed above and in the
            # evidence file but do not make the check fail; only when nothing at all could be decided is the exit status 2
            if not any(r.outcome == "success" and r.harness.expect == "success" for r in results):
                return 2
        return 0
    finally:
        pool.shutdown(wait=False, cancel_futures=True)
        core.cleanup_scratch()


def write_evidence(prop, tier, seed, pdef, plan, results, unit_info, undecided, violations, known_hits, notes, wall):
    level = load_manifest_level(prop)
    # canaries (false claims that must fail) are vacuity guards, not obligations: they are listed under harnesses[] only
    real = [r for r in results if r.harness.expect == "success"]
    obligations = sum(r.n_checks for r in real)
    discharged = sum(r.n_success + sum(1 for c in r.checks if c.status == "UNREACHABLE" and ".cover." not in c.name)
                     for r in real if r.outcome == "success")
    nontrivial = set()
    for r in results:
        if r.outcome == "success" and r.harness.expect == "success":
            for c in r.checks:
                if c.status == "SUCCESS":
                    nontrivial.add((r.unit, r.harness.name, c.name))
    functions = sorted({f for r in results for f in r.harness.functions})
    complete = [r for r in results if r.harness.complete and r.outcome == "success" and r.harness.expect == "success"]
    bounded = [r for r in results if not r.harness.complete and r.outcome == "success"]
    samples = []
    for r in results[:400]:
        if r.harness.expect != "success":
            continue
        tagged = [c for c in r.checks if f"[{prop}]" in c.description]
        for c in tagged[:2]:
            samples.append({"unit": r.unit, "harness": r.harness.name, "obligation": c.description, "status": c.status, "location": c.location})
        if len(samples) >= 24:
            break
    if not samples:
        for r in results[:5]:
            for c in r.checks[:2]:
                samples.append({"unit": r.unit, "harness": r.harness.name, "obligation": c.description, "status": c.status, "location": c.location})
    assumptions, trusted = [], []
    for u, _ in plan:
        for a in u.assumptions:
            if a not in assumptions:
                assumptions.append(a)
        for t in u.trusted:
            if t not in trusted:
                trusted.append(t)
        for crate, path in u.patches.items():
            s = f"dependency `{crate}` replaced by the assumed-contract model /verif/{path}"
            if s not in trusted:
                trusted.append(s)
    trusted += ["Kani 0.68.0 (MIR -> goto translation, function-contract and stubbing instrumentation)", "CBMC 6.11.0 + CaDiCaL SAT solver",
                "rustc MIR of the pinned Kani toolchain, debug-assertions on (overflow checked)",
                "the injector lib/vrf/core.py::inject (appends modules, inserts attributes, edits scratch Cargo.toml only; diff stored in logs/)"]
    scan = assumption_scan()
    ev = {
        "property_id": prop,
        "tier": tier,
        "seed": seed,
        "level": level,
        "wall_s": round(wall, 1),
        "violations": len(violations),
        "coverage": {
            "obligations": obligations,
            "discharged": discharged,
            "checker_cmd": "cargo kani -p <crate> [-Z function-contracts -Z stubbing] --harness <h> --exact  (one CBMC run per harness; see harnesses[].log)",
            "trusted_base": trusted,
            "evaluations": len(real),
            "canaries_failed_as_required": sum(1 for r in results if r.harness.expect == "fail" and r.outcome == "success"),
            "distinct_nontrivial": len(nontrivial),
            "rule": "one evaluation = one Kani harness (a contract proof or a harness-level postcondition over symbolic inputs); "
                    "distinct_nontrivial counts distinct (unit, harness, check) obligations that CBMC reported SUCCESS and reachable "
                    "(UNREACHABLE checks and cover properties are not counted) in harnesses that verified",
            "samples": samples,
            "exhaustive": False,
            "functions_under_contract": functions,
            "harnesses": [{
                "unit": r.unit, "harness": r.harness.name, "outcome": r.outcome, "reason": r.reason, "expect": r.harness.expect,
                "obligations": r.n_checks, "success": r.n_success,
                "complete_for_stated_quantifier": r.harness.complete, "bound": r.harness.bound,
                "backend": r.solver, "wall_s": round(r.wall_s, 1), "solver_s": round(r.solver_s, 1),
                "what": r.harness.desc, "log": os.path.relpath(r.log_path, VERIF) if r.log_path else "",
            } for r in results],
            "complete_harnesses": len(complete),
            "bounded_harnesses": len(bounded),
            "bounds": sorted({r.harness.bound for r in bounded if r.harness.bound}),
            "solver_s_total": round(sum(r.solver_s for r in results), 1),
            "units": unit_info,
            "undecided": undecided,
            "known_findings_hit": [{"what": k.get("what"), "harness": f"{r.unit}::{r.harness.name}", "obligation": c.description} for k, r, c in known_hits],
            "notes": notes,
            "assume_scan": scan,
            "explanation": "contract-based deductive verification with Kani/CBMC on a scratch copy of /repo's working tree; "
                           "harness modules and contract attributes are injected mechanically (diff in logs/<prop>-<tier>/<unit>.injection.diff)",
        },
        "assumptions": assumptions + [f"quantifier of the property: {pdef['quantifier']['text']}"],
    }
    (EVID / f"{prop}.json").write_text(json.dumps(ev, indent=1))


def assumption_scan():
    """Mechanical scan of /verif/units and /verif/models for constructs that are assumptions rather than proof."""
    pats = {"kani::assume": r"kani::assume\(", "kani::stub": r"kani::stub\(", "stub_verified": r"kani::stub_verified\(",
            "any_where": r"any_where", "external_body": r"external_body", "admit": r"\badmit\(", "unsafe": r"\bunsafe\b"}
    out = {}
    for base in ("units", "models", "verus"):
        for p in (VERIF / base).rglob("*.rs") if (VERIF / base).exists() else []:
            t = p.read_text(errors="replace")
            for k, pat in pats.items():
                n = len(re.findall(pat, t))
                if n:
                    out.setdefault(k, {})[str(p.relative_to(VERIF))] = n
    return out


if __name__ == "__main__":
    sys.exit(main())
