"""Runner core: scratch copy of /repo's working tree, mechanical injection of harness modules and contract
attributes (keyed by file + function name), Kani execution per harness, log parsing.

Verdict policy (DESIGN.md G4):
  held       every selected harness: all checks SUCCESS, covers SATISFIED, obligation count > 0; canaries FAIL as expected
  violation  a harness postcondition / Kani safety check FAILS (not inside a model crate, not an unwinding assertion)
  undecided  lost anchor, build failure, timeout, OOM, UNDETERMINED, unwinding assertion failure, model-capacity assert
"""
from __future__ import annotations

import dataclasses
import hashlib
import json
import os
import re
import shutil
import signal
import subprocess
import sys
import time
from concurrent.futures import ThreadPoolExecutor
from pathlib import Path

VERIF = Path(__file__).resolve().parents[2]
REPO = Path(os.environ.get("VERIF_REPO", "/repo"))
NCPU = int(os.environ.get("VERIF_JOBS", "0")) or os.cpu_count() or 4


# ----------------------------------------------------------------------------------------------------------------------
@dataclasses.dataclass
class Harness:
    name: str                       # Kani harness fn name (unique within the unit)
    props: list                     # property ids whose obligations this harness carries
    tier: str = "quick"             # "quick" harnesses run in both tiers; "thorough" only in thorough
    complete: bool = True           # complete for its stated quantifier (loop-free / constant bounds) vs bounded
    bound: str = ""                 # the stated bound when not complete
    expect: str = "success"         # "success" | "fail" (canary: a false claim that must fail)
    timeout: int = 900              # seconds
    functions: list = dataclasses.field(default_factory=list)   # repo functions under contract in this harness
    desc: str = ""
    replay: str = ""                # name of native replay scenario ("" = none)
    path: str = ""                  # set at load time: module path prefix of this harness (its unit's harness_path)
    unit: str = ""                  # set at load time: name of the unit that declares it


@dataclasses.dataclass
class Unit:
    name: str
    members: list                   # workspace members kept in the scratch workspace
    package: str                    # cargo package cargo-kani runs in
    inject: list                    # [(repo_relative_file, path under /verif of the module text to append)]
    contracts: str = ""             # path under /verif of contracts.json ([{file, fn, attrs}])
    patches: dict = dataclasses.field(default_factory=dict)     # crates.io name -> path under /verif/models
    features: list = dataclasses.field(default_factory=list)
    no_default_features: bool = False
    kani_flags: list = dataclasses.field(default_factory=list)
    harnesses: list = dataclasses.field(default_factory=list)
    extra_files: list = dataclasses.field(default_factory=list)  # [(scratch_relative_dst, path under /verif)] copied verbatim
    crate_attrs: dict = dataclasses.field(default_factory=dict)  # repo lib.rs -> [inner attribute lines] (cfg_attr(kani, ..) only)
    dev_deps: dict = dataclasses.field(default_factory=dict)     # package Cargo.toml -> extra [dependencies] lines (scratch only)
    assumptions: list = dataclasses.field(default_factory=list)
    trusted: list = dataclasses.field(default_factory=list)
    harness_crate: str = ""
    quick_cap: int = 0              # per-unit override of the quick-tier cap (0 = default)
    group: str = ""                 # units with the same group share ONE scratch workspace and ONE build (same crate, union of injections/features/patches)
    kind: str = "kani"              # "kani" | "verus" (spec-level lemma files checked by `verus <file>`; harness.name = file under /verif)
    pre_build: object = None        # callable(ws: Path): unit-specific mechanical generation step after injection
    allow_unsafe: bool = False      # harness module needs #[allow(unsafe_code)] (crate must not forbid it)
    harness_path: str = ""          # module path prefix of the harness fns (for --exact), e.g. "base64::verif::vharness"         # if set: cargo-kani runs in this extra crate dir (copied from /verif) instead of a repo crate


@dataclasses.dataclass
class CheckResult:
    name: str
    status: str
    description: str
    location: str


@dataclasses.dataclass
class HarnessResult:
    unit: str
    harness: Harness
    outcome: str                    # "success" | "failed" | "undecided"
    reason: str = ""
    checks: list = dataclasses.field(default_factory=list)      # [CheckResult]
    n_checks: int = 0
    n_success: int = 0
    failed: list = dataclasses.field(default_factory=list)      # [CheckResult] genuine failures
    covers_bad: list = dataclasses.field(default_factory=list)
    wall_s: float = 0.0
    solver_s: float = 0.0
    log_path: str = ""
    solver: str = "CBMC 6.11 + CaDiCaL"


class Undecided(Exception):
    pass


# ----------------------------------------------------------------------------------------------------------------------
def sh(cmd, cwd=None, env=None, timeout=None, check=False):
    p = subprocess.run(cmd, cwd=cwd, env=env, timeout=timeout, stdout=subprocess.PIPE, stderr=subprocess.STDOUT, text=True)
    if check and p.returncode != 0:
        raise RuntimeError(f"command failed: {cmd}\n{p.stdout[-4000:]}")
    return p


def scratch_root() -> Path:
    base = Path(os.environ.get("VERIF_SCRATCH", "/var/tmp"))
    d = base / f"verif-{os.getpid()}"
    d.mkdir(parents=True, exist_ok=True)
    return d


def cleanup_scratch():
    if os.environ.get("VERIF_KEEP_SCRATCH"):
        return
    base = Path(os.environ.get("VERIF_SCRATCH", "/var/tmp"))
    shutil.rmtree(base / f"verif-{os.getpid()}", ignore_errors=True)


def copy_repo(dst: Path):
    """Copy /repo's *working tree* (tracked + untracked sources), without build output or git metadata."""
    dst.mkdir(parents=True, exist_ok=True)
    p = sh(["rsync", "-a", "--delete", "--exclude", "/target", "--exclude", ".git", f"{REPO}/", f"{dst}/"])
    if p.returncode != 0:
        raise Undecided(f"rsync of {REPO} failed: {p.stdout[-500:]}")


FN_RE = r"^(?P<indent>[ \t]*)(?:pub(?:\([^)]*\))?\s+)?(?:const\s+)?(?:unsafe\s+)?fn\s+{name}\b"


def insert_contract(text: str, fn: str, attrs: list, file: str) -> str:
    """Insert attribute lines directly above `fn <name>` (above its existing attributes / doc comments)."""
    m = list(re.finditer(FN_RE.format(name=re.escape(fn)), text, flags=re.M))
    if len(m) != 1:
        raise Undecided(f"anchor lost: expected exactly one `fn {fn}` in {file}, found {len(m)}")
    pos = m[0].start()
    indent = m[0].group("indent")
    # walk upwards over attribute and doc-comment lines so ours go above them
    lines = text[:pos].split("\n")
    # lines[-1] is '' (text before fn on its own line start)
    k = len(lines) - 1
    while k - 1 >= 0 and re.match(r"^\s*(#\[|///|//)", lines[k - 1]):
        k -= 1
    head = "\n".join(lines[:k])
    mid = "\n".join(lines[k:])
    ins = "".join(f"{indent}{a}\n" for a in attrs)
    return (head + "\n" if head else "") + ins + mid + text[pos:]


def inject(unit: Unit, ws: Path) -> dict:
    """Apply the unit's mechanical additions to the scratch workspace. Returns a record of what was added."""
    record = {"appended_modules": [], "contracts": [], "workspace_members": unit.members, "patched_dependencies": {}}
    # 1. contracts
    if unit.contracts:
        cfiles = unit.contracts if isinstance(unit.contracts, (list, tuple)) else [unit.contracts]
        cs = [c for cf in cfiles for c in json.loads((VERIF / cf).read_text())]
        for c in cs:
            f = ws / c["file"]
            if not f.exists():
                raise Undecided(f"anchor lost: {c['file']} does not exist")
            f.write_text(insert_contract(f.read_text(), c["fn"], c["attrs"], c["file"]))
            record["contracts"].append({"file": c["file"], "fn": c["fn"],
                                        "contract_sha256": hashlib.sha256("\n".join(c["attrs"]).encode()).hexdigest()[:16]})
    # 2. harness modules appended under #[cfg(kani)]
    for inj in unit.inject:
        rel, src = inj[0], inj[1]
        f = ws / rel
        if not f.exists():
            raise Undecided(f"anchor lost: {rel} does not exist")
        srcs = src if isinstance(src, (list, tuple)) else [src]
        body = "\n".join((VERIF / x).read_text() for x in srcs)
        src = "+".join(srcs)
        modname = inj[2] if len(inj) > 2 else "verif"
        unsafe_allow = "unsafe_code, " if unit.allow_unsafe else ""
        f.write_text(f.read_text() + f"\n\n// ===== appended by /verif ({src}) =====\n#[cfg(kani)]\n#[allow({unsafe_allow}dead_code, unused_imports, unused_variables, unused_mut, unused_macros, non_snake_case)]\npub(crate) mod {modname} {{\nuse super::*;\n{body}\n}}\n")
        record["appended_modules"].append({"file": rel, "source": src, "module": modname})
    for pb in (unit.pre_build if isinstance(unit.pre_build, (list, tuple)) else [unit.pre_build] if unit.pre_build else []):
        pb(ws)
    # 3. crate-level attributes (cfg_attr(kani) only)
    for rel, attrs in unit.crate_attrs.items():
        f = ws / rel
        t = f.read_text()
        # inner attributes must come after the crate doc comment / existing inner attributes: put them before the first non-doc, non-attr line
        lines = t.split("\n")
        k = 0
        while k < len(lines) and (lines[k].startswith("//!") or lines[k].startswith("#![") or lines[k].strip() == ""):
            k += 1
        lines[k:k] = attrs
        f.write_text("\n".join(lines))
    # 4. verbatim extra files (harness crates, helper modules)
    for dst, src in unit.extra_files:
        s = VERIF / src
        d = ws / dst
        if s.is_dir():
            shutil.copytree(s, d, dirs_exist_ok=True)
        else:
            d.parent.mkdir(parents=True, exist_ok=True)
            shutil.copy(s, d)
    # 5. extra dependencies for harness code (scratch Cargo.toml only)
    for rel, lines in unit.dev_deps.items():
        f = ws / rel
        t = f.read_text()
        t = re.sub(r"(?m)^\[dependencies\]\s*$", "[dependencies]\n" + "\n".join(lines), t, count=1)
        f.write_text(t)
    # 6. workspace: trimmed members + [patch.crates-io] for model crates
    ct = ws / "Cargo.toml"
    t = ct.read_text()
    members = list(unit.members) + ([unit.harness_crate] if unit.harness_crate else [])
    t2, n = re.subn(r"members\s*=\s*\[.*?\]", "members = [" + ", ".join(f'"{m}"' for m in members) + "]", t, count=1, flags=re.S)
    if n != 1:
        raise Undecided("workspace Cargo.toml has no members list")
    if unit.patches:
        for support in ("vmodel-core", "vspec"):
            if (VERIF / "models" / support).exists():
                shutil.copytree(VERIF / "models" / support, ws / "verif-models" / support, dirs_exist_ok=True)
        t2 += "\n[patch.crates-io]\n"
        for crate, path in unit.patches.items():
            dst = ws / "verif-models" / crate
            shutil.copytree(VERIF / path, dst, dirs_exist_ok=True)
            t2 += f'{crate} = {{ path = "verif-models/{crate}" }}\n'
            record["patched_dependencies"][crate] = path
    ct.write_text(t2)
    (ws / ".cargo").mkdir(exist_ok=True)
    (ws / ".cargo" / "config.toml").write_text("[net]\noffline = true\n")
    return record


def kani_env():
    env = dict(os.environ)
    env["CARGO_NET_OFFLINE"] = "true"
    env.pop("RUSTFLAGS", None)
    env.pop("CARGO_TARGET_DIR", None)
    return env


def kani_base_cmd(unit: Unit):
    cmd = ["cargo", "kani"]
    if not unit.harness_crate:
        cmd += ["-p", unit.package]
    if unit.no_default_features:
        cmd += ["--no-default-features"]
    if unit.features:
        cmd += ["--features", ",".join(unit.features)]
    cmd += unit.kani_flags
    return cmd


def build_unit(unit: Unit, ws: Path, logdir: Path) -> float:
    t0 = time.time()
    cwd = ws / unit.harness_crate if unit.harness_crate else ws
    p = sh(kani_base_cmd(unit) + ["--only-codegen"], cwd=cwd, env=kani_env(), timeout=1800)
    (logdir / f"{unit.name}.build.log").write_text(p.stdout)
    if p.returncode != 0:
        raise Undecided(f"scratch build of unit {unit.name} failed (see {logdir}/{unit.name}.build.log): " + tail_err(p.stdout))
    return time.time() - t0


def tail_err(out: str) -> str:
    errs = [l for l in out.splitlines() if l.startswith("error")]
    return "; ".join(errs[:3]) if errs else out[-300:].replace("\n", " | ")


CHECK_RE = re.compile(
    r"^Check \d+: (?P<name>\S+)\n\s+- Status: (?P<status>\w+)\n\s+- Description: \"(?P<desc>.*?)\"\n\s+- Location: (?P<loc>.*?)$",
    re.M | re.S)


def parse_kani(out: str):
    checks = []
    # split into blocks to keep the regex cheap
    for blk in re.split(r"\n(?=Check \d+: )", out):
        m = re.match(r"Check \d+: ([^\n]+)\n\s+- Status: (\w+)\n\s+- Description: \"(.*?)\"\n\s+- Location: ([^\n]*)", blk, flags=re.S)
        if m:
            checks.append(CheckResult(m.group(1), m.group(2), m.group(3), m.group(4).strip()))
    verdict = None
    m = re.search(r"^VERIFICATION:- (\w+)", out, flags=re.M)
    if m:
        verdict = m.group(1)
    solver_s = 0.0
    for m in re.finditer(r"Runtime decision procedure: ([0-9.]+)s", out):
        solver_s += float(m.group(1))
    m = re.search(r"Verification Time: ([0-9.]+)s", out)
    vt = float(m.group(1)) if m else 0.0
    return checks, verdict, solver_s, vt


MODEL_LOC = re.compile(r"verif-models/|verif_models|model capacity|\[model\]")


def classify(unit: Unit, h: Harness, out: str, rc: int, timed_out: bool, wall: float, log_path: str) -> HarnessResult:
    checks, verdict, solver_s, vt = parse_kani(out)
    r = HarnessResult(h.unit or unit.name, h, "undecided", checks=checks, wall_s=wall, solver_s=solver_s, log_path=log_path)
    real = [c for c in checks if c.status != "UNREACHABLE" or True]
    asserts = [c for c in checks if not c.name.endswith(tuple(f".cover.{i}" for i in range(1, 400))) and ".cover." not in c.name]
    covers = [c for c in checks if ".cover." in c.name]
    r.n_checks = len(asserts)
    r.n_success = sum(1 for c in asserts if c.status == "SUCCESS")
    if timed_out:
        r.reason = f"timeout after {h.timeout}s"
        return r
    if verdict is None:
        r.reason = "no verdict from Kani (crash / OOM / compile error): " + tail_err(out)
        return r
    if r.n_checks == 0:
        r.reason = "zero obligations generated (vacuity guard)"
        return r
    failed = [c for c in asserts if c.status == "FAILURE"]
    undet = [c for c in asserts if c.status in ("UNDETERMINED",)]
    unwind = [c for c in failed if "unwinding assertion" in c.description or ".unwind." in c.name]
    # failures located in a model crate are capacity limits / model-internal assertions (undecided) — EXCEPT memory-safety checks
    # (dereference of a freed object, double free, out-of-bounds write through a caller-supplied pointer) inside the FFI model
    # of aws-lc: those are the caller's (= the repository wrapper's) misuse of the C API and are genuine
    def ffi_memory_check(c):
        return "verif-models/aws-lc-sys" in c.location and "[model]" not in c.description and (
            ".pointer_dereference." in c.name or "double free" in c.description or "deallocated" in c.description
            or "free argument" in c.description or "dereference failure" in c.description)
    model_fail = [c for c in failed if (MODEL_LOC.search(c.location) or MODEL_LOC.search(c.description)) and not ffi_memory_check(c)]
    unsupported = [c for c in failed if "unsupported_construct" in c.name or "is not currently supported by Kani" in c.description]
    genuine = [c for c in failed if c not in unwind and c not in model_fail and c not in unsupported]
    r.failed = genuine
    if h.expect == "fail":
        # canary: must fail genuinely
        if genuine:
            r.outcome = "success"
            r.reason = "canary failed as required"
        elif unwind or model_fail or unsupported:
            r.reason = "canary undecided: " + (unwind + model_fail + unsupported)[0].description
        else:
            r.reason = "VACUITY: canary (a false claim) verified — the harness assumptions exclude everything"
        return r
    # a genuine failed obligation decides the harness even if, on other paths, a bound or a model capacity was exceeded:
    # unwinding/capacity failures only remove paths, they cannot create a counterexample for another check
    if genuine:
        r.outcome = "failed"
        r.reason = genuine[0].description
        return r
    if unwind:
        r.reason = "unwinding assertion failed (bound too small): " + unwind[0].location
        return r
    if unsupported:
        r.reason = "unsupported construct reached: " + unsupported[0].description
        return r
    if model_fail:
        r.reason = "model capacity / model-internal assertion: " + model_fail[0].description
        return r
    if undet:
        r.reason = "UNDETERMINED checks: " + undet[0].description
        return r
    bad_cov = [c for c in covers if c.status != "SATISFIED"]
    if bad_cov:
        r.covers_bad = bad_cov
        r.reason = "cover not satisfied (vacuity guard): " + bad_cov[0].description + " @ " + bad_cov[0].location
        return r
    if verdict != "SUCCESSFUL":
        r.reason = f"Kani verdict {verdict} without a failed check"
        return r
    r.outcome = "success"
    return r


def run_verus(unit: Unit, h: Harness, logdir: Path) -> HarnessResult:
    t0 = time.time()
    log_path = logdir / f"{unit.name}.{re.sub(r'[^A-Za-z0-9_]', '_', h.name)}.log"
    r = HarnessResult(unit.name, h, "undecided", log_path=str(log_path), solver="Verus 0.2026.09.13 + Z3")
    target = VERIF / h.name
    if h.name.endswith(".tmpl.rs"):
        # contracts on the repository's own function text: the generator splices the functions of REPO's working tree into the
        # template on every run (verus/gen_*.py documents exactly what the splice changes); a lost anchor is undecided, never an alarm
        gen = VERIF / "verus" / ("gen_" + Path(h.name).name.split("_")[0] + ".py")
        target = logdir / (unit.name + "_" + Path(h.name).name.replace(".tmpl.rs", "_gen.rs"))
        g = sh(["python3", str(gen), str(REPO), str(VERIF / h.name), str(target)], cwd=logdir, timeout=60)
        if g.returncode != 0:
            r.reason = "generator could not splice the repository's functions: " + tail_err(g.stdout)
            return r
    try:
        p = sh(["verus", str(target), "--time"], cwd=logdir, timeout=h.timeout)
    except subprocess.TimeoutExpired:
        r.reason = f"timeout after {h.timeout}s"
        return r
    log_path.write_text(p.stdout)
    r.wall_s = time.time() - t0
    m = re.search(r"verification results::\s*(\d+) verified, (\d+) errors", p.stdout)
    ms = re.search(r"total-time:\s*(\d+) ms|smt-time.*?(\d+) ms", p.stdout)
    if not m:
        r.reason = "no verdict from Verus: " + tail_err(p.stdout)
        return r
    ok, bad = int(m.group(1)), int(m.group(2))
    r.n_checks, r.n_success = ok + bad, ok
    r.checks = [CheckResult(h.name, "SUCCESS" if bad == 0 else "FAILURE", h.desc, h.name)]
    errs = []
    try:
        src_lines = Path(target).read_text().splitlines()
        for m_ in re.finditer(r"^error: ([^\n]+)\n\s+--> [^\n:]+:(\d+):", p.stdout, re.M):
            ln = int(m_.group(2))
            fn = next((re.search(r"fn (\w+)", src_lines[i]).group(1) for i in range(min(ln, len(src_lines)) - 1, -1, -1)
                       if re.match(r"\s*(pub(\([a-z]+\))? )?(proof |spec )?fn \w+", src_lines[i])), "?")
            errs.append(f"{fn}: {m_.group(1)} (line {ln}: {src_lines[ln - 1].strip()[:90]})")
    except Exception:  # noqa
        errs = [l.strip() for l in p.stdout.splitlines() if l.startswith("error:") and "aborting" not in l]
    floor = int((re.search(r"min_verified=(\d+)", h.desc) or [0, 0])[1])
    if ok + bad == 0:
        r.reason = "zero obligations generated (vacuity guard)"
    elif bad == 0 and ok < floor:
        r.reason = f"only {ok} obligations verified, expected at least {floor} (vacuity guard)"
    elif bad:
        r.outcome = "failed"
        r.failed = [CheckResult(h.name, "FAILURE", ("obligation(s) not discharged: " + "; ".join(errs[:4]) + " || " if errs else "") + h.desc, h.name)]
        r.reason = "Verus could not discharge: " + "; ".join(errs[:4])
    else:
        r.outcome = "success"
    return r


def run_harness(unit: Unit, h: Harness, ws: Path, logdir: Path, playback=False) -> HarnessResult:
    if unit.kind == "verus":
        return run_verus(unit, h, logdir)
    cwd = ws / unit.harness_crate if unit.harness_crate else ws
    hp = h.path or unit.harness_path
    if hp:
        cmd = kani_base_cmd(unit) + ["--harness", f"{hp}::{h.name}", "--exact"]
    else:
        cmd = kani_base_cmd(unit) + ["--harness", h.name]
    if playback:
        cmd += ["-Z", "concrete-playback", "--concrete-playback=print"]
    t0 = time.time()
    log_path = logdir / f"{h.unit or unit.name}.{h.name}{'.playback' if playback else ''}.log"
    timed_out = False
    with open(log_path, "w") as lf:
        p = subprocess.Popen(cmd, cwd=cwd, env=kani_env(), stdout=lf, stderr=subprocess.STDOUT, start_new_session=True)
        try:
            rc = p.wait(timeout=h.timeout)
        except subprocess.TimeoutExpired:
            timed_out = True
            try:
                os.killpg(p.pid, signal.SIGKILL)
            except ProcessLookupError:
                pass
            p.wait()
            rc = -9
    wall = time.time() - t0
    try:
        out = log_path.read_text(errors="replace")
    except OSError as e:   # log vanished (disk full, concurrent cleanup): undecided, never a crash
        out = f"(log unreadable: {e})"
    return classify(unit, h, out, rc, timed_out, wall, str(log_path))


def run_unit(unit: Unit, harnesses: list, logdir: Path, jobs: int):
    """Returns (results, injection_record, build_s). Raises Undecided for unit-level problems."""
    if unit.kind == "verus":
        return [run_verus(unit, h, logdir) for h in harnesses], {}, 0.0, None
    ws = scratch_root() / unit.name
    copy_repo(ws)
    record = inject(unit, ws)
    # store the injector's diff against the pristine tree (DESIGN section 8.5)
    d = sh(["diff", "-ruN", "--exclude", "target", "--exclude", ".git", "--exclude", "verif-models", "--exclude", ".cargo", str(REPO), str(ws)])
    (logdir / f"{unit.name}.injection.diff").write_text(d.stdout)
    removed = [l for l in d.stdout.splitlines() if l.startswith("-") and not l.startswith("---")]
    removed = [l for l in removed if not re.match(r"^-\s*(members\s*=|\"paseto-|\]|\[workspace|$)", l)]
    record["removed_lines_outside_workspace_manifest"] = len([l for l in removed if "paseto-" not in l and l.strip("- \t") not in ("", "]")])
    build_s = build_unit(unit, ws, logdir)
    results = []
    with ThreadPoolExecutor(max_workers=max(1, jobs)) as ex:
        futs = [ex.submit(run_harness, unit, h, ws, logdir) for h in harnesses]
        for f in futs:
            results.append(f.result())
    return results, record, build_s, ws


def merge_group(name: str, units: list) -> Unit:
    """One scratch workspace / one build for several units of the same crate: union of injections, patches, features, flags."""
    u0 = units[0]
    if len(units) == 1:
        return u0
    inject_, seen = [], set()
    for u in units:
        for inj in u.inject:
            key = (inj[0], tuple(inj[1]) if isinstance(inj[1], (list, tuple)) else inj[1], inj[2] if len(inj) > 2 else "verif")
            if key not in seen:
                seen.add(key)
                inject_.append(inj)
    targets = [i[0] for i in inject_]
    if len(set(targets)) != len(targets):
        raise Undecided(f"group {name}: two units inject into the same file: {targets}")
    flags = []
    for u in units:
        i = 0
        while i < len(u.kani_flags):
            tok = u.kani_flags[i:i + 2] if u.kani_flags[i] == "-Z" else u.kani_flags[i:i + 1]
            if not any(flags[j:j + len(tok)] == tok for j in range(len(flags))):
                flags += tok
            i += len(tok)
    patches, dev, members, feats, extra, crate_attrs = {}, {}, [], [], [], {}
    for u in units:
        patches.update(u.patches)
        for k, v in u.dev_deps.items():
            dev.setdefault(k, [])
            dev[k] += [x for x in v if x not in dev[k]]
        members += [m for m in u.members if m not in members]
        feats += [f for f in u.features if f not in feats]
        extra += [e for e in u.extra_files if e not in extra]
        crate_attrs.update(u.crate_attrs)
    contracts = []
    for u in units:
        cf = u.contracts if isinstance(u.contracts, (list, tuple)) else ([u.contracts] if u.contracts else [])
        contracts += [c for c in cf if c not in contracts]
    pre = []
    for u in units:
        pre += (list(u.pre_build) if isinstance(u.pre_build, (list, tuple)) else [u.pre_build] if u.pre_build else [])
    nodef = all(u.no_default_features for u in units)
    if not nodef:
        # some unit needs the default feature set: keep defaults on and add every explicitly requested feature
        pass
    return Unit(name=name, members=members, package=u0.package, inject=inject_, contracts=contracts, patches=patches, features=feats,
                no_default_features=nodef, kani_flags=flags, harnesses=[h for u in units for h in u.harnesses], extra_files=extra,
                crate_attrs=crate_attrs, dev_deps=dev, assumptions=[a for u in units for a in u.assumptions],
                trusted=[t for u in units for t in u.trusted], harness_crate=u0.harness_crate, harness_path="", kind=u0.kind,
                pre_build=pre, allow_unsafe=any(u.allow_unsafe for u in units), group=name)
